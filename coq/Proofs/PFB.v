From Coq Require Import List Arith ZArith Lia.
From SV Require Import Model.PFB.
Import ListNotations.

Section Chunking.
Variables (A Row : Type) (fir : list A -> Row).
Variables (taps nb : nat).
Hypothesis taps_pos : 0 < taps.
Hypothesis nb_pos : 0 < nb.
Notation win := (win taps nb).
Notation window := (window A taps nb).
Notation rows := (rows A Row fir taps nb).
Notation nrows := (nrows taps nb).
Notation lastn := (lastn A).
Notation chan := (chan A Row fir taps nb).
Notation run := (run A Row fir taps nb).

Lemma skipn_skipn' (x y : nat) (l : list A) : skipn x (skipn y l) = skipn (y + x) l.
Proof. revert l; induction y as [|y IH]; intros l; [reflexivity|]. destruct l as [|a l]; [now rewrite !skipn_nil|]. simpl. apply IH. Qed.
Lemma seq_shift_add (n s k : nat) : seq (k + s) n = map (fun t => k + t) (seq s n).
Proof. revert s; induction n as [|n IH]; intros s; [reflexivity|]. simpl. f_equal. rewrite <- IH. f_equal. lia. Qed.

Lemma win_pos : 0 < win. Proof. unfold PFB.win. nia. Qed.

Lemma window_app_l xs ys t :
  t * nb + win <= length xs -> window (xs ++ ys) t = window xs t.
Proof.
  intros H. unfold PFB.window.
  rewrite skipn_app, firstn_app, skipn_length.
  replace (win - (length xs - t * nb)) with 0 by lia.
  rewrite firstn_O, app_nil_r. reflexivity.
Qed.

Lemma window_app_r xs ys t m :
  length xs = m * win -> 1 <= m ->
  window (xs ++ ys) ((m - 1) * taps + t) = window (lastn win xs ++ ys) t.
Proof.
  intros Hl Hm. unfold PFB.window, PFB.lastn.
  assert (E : ((m - 1) * taps + t) * nb = (length xs - win) + t * nb).
  { rewrite Hl. unfold PFB.win. nia. }
  rewrite E, <- skipn_skipn'. f_equal. f_equal.
  rewrite skipn_app.
  replace (length xs - win - length xs) with 0 by lia.
  reflexivity.
Qed.

Lemma rows_app xs ys m k :
  length xs = m * win -> 1 <= m -> length ys = k * win ->
  rows (xs ++ ys) = rows xs ++ rows (lastn win xs ++ ys).
Proof.
  intros Hx Hm Hy. unfold PFB.rows.
  assert (Hw := win_pos).
  assert (L1 : length (xs ++ ys) = (m + k) * win) by (rewrite app_length; nia).
  assert (L2 : length (lastn win xs ++ ys) = (1 + k) * win).
  { rewrite app_length. unfold PFB.lastn. rewrite skipn_length. nia. }
  unfold PFB.nrows. rewrite L1, L2, Hx.
  rewrite !Nat.div_mul by lia.
  replace ((m + k - 1) * taps) with ((m - 1) * taps + k * taps) by nia.
  replace ((1 + k - 1) * taps) with (k * taps) by nia.
  rewrite seq_app, map_app. f_equal.
  - apply map_ext_in. intros t Ht. apply in_seq in Ht. f_equal.
    apply window_app_l. rewrite Hx. unfold PFB.win in *. nia.
  - rewrite Nat.add_0_l.
    replace ((m - 1) * taps) with ((m - 1) * taps + 0) at 1 by lia.
    rewrite seq_shift_add, map_map.
    apply map_ext. intros t. f_equal. apply window_app_r with (m := m); assumption.
Qed.

(* every chunk a positive multiple of win *)
Definition admissible (c : list A) := exists k, 1 <= k /\ length c = k * win.

Lemma lastn_app_ge xs ys : win <= length ys -> lastn win (xs ++ ys) = lastn win ys.
Proof.
  intros H. unfold PFB.lastn. rewrite skipn_app, app_length.
  replace (length xs + length ys - win - length xs) with (length ys - win) by lia.
  rewrite skipn_all2 by lia. reflexivity.
Qed.

Lemma lastn_lastn_app xs ys m k : length xs = m * win -> 1 <= m -> length ys = k * win ->
  lastn win (lastn win xs ++ ys) = lastn win (xs ++ ys).
Proof.
  intros Hx Hm Hy. assert (Hw := win_pos).
  destruct k as [|k].
  - destruct ys; [|discriminate]. rewrite !app_nil_r. unfold PFB.lastn. rewrite skipn_length.
    replace (length xs - (length xs - win) - win) with 0 by nia. reflexivity.
  - rewrite !lastn_app_ge by nia. reflexivity.
Qed.

Theorem chunking : forall chunks stream m,
  length stream = m * win -> 1 <= m ->
  Forall admissible chunks ->
  rows stream ++ run (Some (lastn win stream)) chunks = rows (stream ++ concat chunks).
Proof.
  induction chunks as [|c cs IH]; intros stream m Hs Hm Hadm.
  - simpl. now rewrite !app_nil_r.
  - inversion Hadm as [|? ? [k [Hk Hc]] Hrest]; subst.
    cbn [PFB.run PFB.chan concat]. rewrite app_assoc.
    rewrite <- (rows_app stream c m k) by assumption.
    rewrite (lastn_lastn_app stream c m k) by assumption.
    rewrite (IH (stream ++ c) (m + k)); [now rewrite app_assoc | rewrite app_length; nia | lia | assumption].
Qed.

Corollary chunking_from_start : forall c cs,
  admissible c -> Forall admissible cs -> run None (c :: cs) = rows (concat (c :: cs)).
Proof.
  intros c cs [k [Hk Hc]] Hcs. cbn [PFB.run PFB.chan concat].
  now apply chunking with (m := k).
Qed.

(* none missing or repeated: the number of spectra is (total windows - 1) * taps *)
Lemma rows_length xs : length (rows xs) = nrows (length xs).
Proof. unfold PFB.rows. now rewrite map_length, seq_length. Qed.

Corollary chunk_count : forall c cs,
  admissible c -> Forall admissible cs ->
  length (run None (c :: cs)) = (length (concat (c :: cs)) / win - 1) * taps.
Proof. intros. rewrite chunking_from_start by assumption. apply rows_length. Qed.

(* ---- interleaved objects do not interact; cache=False neither reads nor writes ---- *)
Notation run_multi := (run_multi A Row fir taps nb).
Fixpoint proj (o : nat) (calls : list (nat * bool * list A)) : list (nat * bool * list A) :=
  match calls with
  | [] => []
  | (o', u, c) :: r => if Nat.eqb o' o then (o', u, c) :: proj o r else proj o r
  end.
Fixpoint sel {B} (o : nat) (calls : list (nat * bool * list A)) (outs : list B) : list B :=
  match calls, outs with
  | (o', _, _) :: r, x :: xs => if Nat.eqb o' o then x :: sel o r xs else sel o r xs
  | _, _ => []
  end.

Theorem objects_independent o : forall calls c1 c2, c1 o = c2 o ->
  sel o calls (run_multi c1 calls) = run_multi c2 (proj o calls).
Proof.
  induction calls as [|[[o' u] c] r IH]; intros c1 c2 H; [reflexivity|].
  cbn [PFB.run_multi proj].
  destruct ((if u then chan else chan_nocache A Row fir taps nb) (c1 o') c) as [r1 cache1] eqn:E1.
  cbn [sel]. destruct (Nat.eqb_spec o' o) as [->|NE].
  - cbn [PFB.run_multi]. rewrite <- H, E1. f_equal. apply IH. now rewrite !Nat.eqb_refl.
  - apply IH. destruct (Nat.eqb_spec o o'); [congruence|assumption].
Qed.

Lemma nocache_pure cache x : chan_nocache A Row fir taps nb cache x = (rows x, cache).
Proof. reflexivity. Qed.
End Chunking.

(* ---------------- the concrete weighted sum ---------------- *)
Local Open Scope Z_scope.

Lemma zsum_map_ext {B} (f g : B -> Z) l : (forall x, In x l -> f x = g x) -> zsum (map f l) = zsum (map g l).
Proof. intros H. unfold zsum. induction l as [|a l IH]; [reflexivity|]. cbn [map fold_right]. rewrite H by now left. rewrite IH; [reflexivity|]. intros; apply H; now right. Qed.

Lemma zsum_lin {B} (f g : B -> Z) a c l :
  zsum (map (fun x => a * f x + c * g x) l) = a * zsum (map f l) + c * zsum (map g l).
Proof. unfold zsum. induction l as [|x l IH]; cbn [map fold_right]; [lia|]. rewrite IH. lia. Qed.

Lemma nth_map_seq {B} (f : nat -> B) n b d : (b < n)%nat -> nth b (map f (seq 0 n)) d = f b.
Proof.
  intros H. rewrite (nth_indep _ d (f 0%nat)) by (now rewrite map_length, seq_length).
  rewrite map_nth. f_equal. now rewrite seq_nth.
Qed.

Lemma nth_firstn_lt' {B} (l : list B) n i d : (i < n)%nat -> nth i (firstn n l) d = nth i l d.
Proof.
  revert l i. induction n as [|n IH]; intros l i H; [lia|].
  destruct l as [|a l]; [reflexivity|]. destruct i as [|i]; [reflexivity|]. cbn. apply IH. lia.
Qed.
Lemma nth_skipn' {B} (l : list B) n i d : nth i (skipn n l) d = nth (n + i) l d.
Proof.
  revert l. induction n as [|n IH]; intros l; [reflexivity|].
  destruct l as [|a l]; [now destruct i|]. cbn. apply IH.
Qed.

(* definition of one output sample of the front end *)
Lemma fir_z_nth taps nb h w b : (b < nb)%nat ->
  nth b (fir_z taps nb h w) 0 = zsum (map (fun tau => nth (tau * nb + b) w 0 * nth (tau * nb + b) h 0) (seq 0 taps)).
Proof. intros Hb. unfold fir_z. now rewrite nth_map_seq. Qed.

Lemma nth_window (x : list Z) taps nb t i : (i < taps * nb)%nat ->
  nth i (window Z taps nb x t) 0 = nth (t * nb + i) x 0.
Proof. intros Hi. unfold window, win. rewrite nth_firstn_lt' by assumption. apply nth_skipn'. Qed.

(* output spectrum row t, branch b of the whole front end, in terms of the input stream *)
Theorem frontend_definition taps nb h x t b : (t < nrows taps nb (length x))%nat -> (b < nb)%nat ->
  nth b (nth t (rows_z taps nb h x) []) 0 =
  zsum (map (fun tau => nth ((t + tau) * nb + b) x 0 * nth (tau * nb + b) h 0) (seq 0 taps)).
Proof.
  intros Ht Hb. unfold rows_z, rows. rewrite nth_map_seq by assumption. rewrite fir_z_nth by assumption.
  apply zsum_map_ext. intros tau Hin. apply in_seq in Hin. f_equal.
  rewrite nth_window by nia. f_equal. lia.
Qed.

(* linearity of the weighted sum *)
Theorem fir_z_linear taps nb h w1 w2 w a c :
  (forall i, nth i w 0 = a * nth i w1 0 + c * nth i w2 0) ->
  forall b, (b < nb)%nat ->
  nth b (fir_z taps nb h w) 0 = a * nth b (fir_z taps nb h w1) 0 + c * nth b (fir_z taps nb h w2) 0.
Proof.
  intros H b Hb. rewrite !fir_z_nth by assumption. rewrite <- zsum_lin.
  apply zsum_map_ext. intros tau _. rewrite H. lia.
Qed.
