From Coq Require Import List ZArith Lia Bool.
From SV Require Import Model.History.
Import ListNotations.
Local Open Scope Z_scope.

(* any history of earlier recordings leaves every dictionary object as it was ... *)
Lemma run_heap_unchanged calls : forall h, snd (run record h calls) = h.
Proof.
  induction calls as [|[obj c] r IH]; intros h; [reflexivity|]. cbn [run record].
  specialize (IH h). destruct (run record h r) as [os h'']. cbn in *. exact IH.
Qed.

(* ... so what a recording writes depends only on its own arguments, not on the history *)
Theorem record_history_independent history h obj c :
  fst (record (snd (run record h history)) obj c) = fst (record h obj c).
Proof. now rewrite run_heap_unchanged. Qed.

(* a caller's dictionary used twice gives the same result twice *)
Corollary caller_dict_reusable h obj c :
  let '(o1, h1) := record h obj c in fst (record h1 obj c) = o1.
Proof. reflexivity. Qed.

(* the in-place version is history dependent: the second of two identical calls starts where the first stopped *)
Theorem record_unrepaired_refuted : exists h obj c,
  let '(o1, h1) := record_unrepaired h obj c in fst (record_unrepaired h1 obj c) <> o1.
Proof.
  exists [{| user_cards := []; extra_cards := []; pktidx := None; pktstart := None |}], 0%nat,
         {| nblocks := 2; spb := 8; cfg_cards := [1%nat] |}.
  vm_compute. discriminate.
Qed.

(* ---------------- cells ---------------- *)
Section Cells.
Variable V : Type.
Variable d : V.

Lemma read_write_other m l l' v : l <> l' -> read V (write V m l v) d l' = read V m d l'.
Proof.
  unfold read. revert l l'. induction m as [|x m IH]; intros l l' H; [reflexivity|].
  destruct l as [|l], l' as [|l']; cbn; try reflexivity; [congruence|]. apply IH. congruence.
Qed.
Lemma write_length m l v : length (write V m l v) = length m.
Proof. revert l. induction m as [|x m IH]; intros l; [reflexivity|]. destruct l; cbn; [reflexivity|]. now rewrite IH. Qed.

Lemma nth_map_any {A B} (f : A -> B) l k dB dA : (k < length l)%nat -> nth k (map f l) dB = f (nth k l dA).
Proof. revert k. induction l as [|x l IH]; intros k H; [cbn in H; lia|]. destruct k; cbn; [reflexivity|]. apply IH. cbn in H. lia. Qed.

(* the copy's cells read equal to the original's ... *)
Theorem copy_equal m obj k : (k < length obj)%nat ->
  let '(m', obj') := deep_copy V m d obj in read V m' d (nth k obj' 0%nat) = read V m d (nth k obj 0%nat).
Proof.
  intros Hk. unfold deep_copy, alloc, read. rewrite map_length, seq_nth by assumption.
  rewrite app_nth2_plus. apply (nth_map_any (fun l => nth l m d)). exact Hk.
Qed.

(* ... they are fresh, and the original's cells are untouched by the copy ... *)
Theorem copy_fresh m obj :
  let '(m', obj') := deep_copy V m d obj in
  Forall (fun l => (length m <= l)%nat) obj' /\ (forall l, (l < length m)%nat -> read V m' d l = read V m d l).
Proof.
  unfold deep_copy, alloc, read. split.
  - apply Forall_forall. intros l Hl. apply in_seq in Hl. lia.
  - intros l Hl. now apply app_nth1.
Qed.

(* ... so no later write to a cell of one object is observable through any cell of the other *)
Theorem copy_isolated (m' : cells V) n l l' v : (l < n)%nat -> (n <= l')%nat ->
  read V (write V m' l' v) d l = read V m' d l /\ read V (write V m' l v) d l' = read V m' d l'.
Proof. intros H1 H2. split; apply read_write_other; lia. Qed.
End Cells.
