From Coq Require Import List ZArith QArith Lia Lqa Bool.
From SV Require Import Base.PySeq Model.Backend Model.RawLayout Model.RawInject Proofs.RawLayout.
Import ListNotations.
Local Open Scope Z_scope.

(* the reader takes (tau, pol) from exactly the cell the GUPPI layout assigns to it *)
Lemma read_col_layout q npols tau pol : read_col q npols tau pol = spec_col q npols tau pol 0.
Proof. unfold read_col, spec_col, bpsz. ring. Qed.

(* the synthetic spectrum written at output column t_idx is added to the decoded input sample of the
   same spectrum and polarisation, for 8-bit (q = 2) and 4-bit (q = 1) *)
Theorem lookup_same_sample q npols sT s p k : (q = 1 \/ q = 2) -> 1 <= npols -> 0 <= p < npols ->
  lookup_index q (w_col q npols sT s p k 0) = in_index npols (w_tau sT s k) p.
Proof.
  intros Hq Hn Hp. unfold lookup_index, w_col, in_index, w_tau, bpsz.
  destruct Hq as [-> | ->].
  - change (1 =? 2) with false. cbv iota. ring.
  - change (2 =? 2) with true. cbv iota.
    replace (s * (sT * (2 * npols)) + 2 * p + k * (2 * npols) + 0) with (((s * sT + k) * npols + p) * 2) by ring.
    apply Z.div_mul. lia.
Qed.

Lemma out_blocks_le req n : 0 <= n -> out_blocks req n <= n /\ (forall r, req = Some r -> out_blocks req n <= r).
Proof. intros H. unfold out_blocks. destruct req; split; try lia; intros r E; inversion E; lia. Qed.

Local Open Scope Q_scope.
(* stationary gain: the same custom deviation at every call (sub-block after sub-block, block after block) *)
Theorem gain_stationary stds ts dig n : Forall (fun g => g = gain_used stds ts dig) (gains stds ts dig n).
Proof. induction n as [|n IH]; cbn [gains]; constructor; [reflexivity|exact IH]. Qed.

(* the in-place multiplication is NOT stationary: already the second call uses stds*ts^2 *)
Theorem gain_unrepaired_refuted : exists stds ts,
  ~ Forall (fun g => g == gain_used stds ts true) (gains_unrepaired stds ts true 2).
Proof.
  exists 1, 2. intros H. inversion H as [|? ? _ H2]; subst. inversion H2 as [|? ? E _]; subst.
  unfold gain_used in E. vm_compute in E. discriminate.
Qed.
