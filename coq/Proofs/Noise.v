From Coq Require Import List Arith ZArith QArith Qround Lia Lqa Bool.
From SV Require Import Model.Noise.
Import ListNotations.
Local Open Scope Q_scope.

(* ---------------- moments scale ---------------- *)
Lemma qsum_scale c l : qsum (map (fun x => x * c) l) == qsum l * c.
Proof. unfold qsum. induction l as [|x l IH]; cbn [map fold_right]; [ring|]. rewrite IH. ring. Qed.

Lemma qsum_ext f g (l : list Q) : (forall x, f x == g x) -> qsum (map f l) == qsum (map g l).
Proof. intros H. unfold qsum. induction l as [|x l IH]; cbn [map fold_right]; [reflexivity|]. rewrite IH, H. reflexivity. Qed.

Lemma qmean_scale c l : l <> [] -> qmean (map (fun x => x * c) l) == qmean l * c.
Proof.
  intros Hl. unfold qmean. rewrite map_length, qsum_scale. field.
  unfold nq. destruct l; [congruence|]. cbn [length]. intros E. unfold Qeq in E. cbn in E. lia.
Qed.

Lemma nq_nz {A} (l : list A) : l <> [] -> ~ nq (length l) == 0.
Proof. intros Hl. unfold nq. destruct l; [congruence|]. cbn [length]. intros E. unfold Qeq in E. cbn in E. lia. Qed.

Lemma sumsq_scale c mu l : sumsq (map (fun x => x * c) l) (mu * c) == c * c * sumsq l mu.
Proof. induction l as [|x l IH]; cbn [map sumsq]; [ring|]. rewrite IH. ring. Qed.
Lemma sumsq_proper l mu1 mu2 : mu1 == mu2 -> sumsq l mu1 == sumsq l mu2.
Proof. intros E. induction l as [|x l IH]; cbn [sumsq]; [reflexivity|]. rewrite IH, E. reflexivity. Qed.

Theorem moments_scale c l : l <> [] ->
  qmean (map (fun x => x * c) l) == c * qmean l /\ qvar (map (fun x => x * c) l) == c * c * qvar l.
Proof.
  intros Hl. assert (E : qmean (map (fun x => x * c) l) == qmean l * c) by now apply qmean_scale.
  split; [rewrite E; ring|].
  unfold qvar. rewrite map_length. rewrite (sumsq_proper _ _ _ E), sumsq_scale. field. now apply nq_nz.
Qed.

(* chi-squared noise: if the unit draws have mean k and variance 2k, the noise has mean x_mean and variance 2 x_mean^2 / k *)
Lemma chi2_as_scale x_mean k draws : ~ k == 0 ->
  qmean (chi2_noise_q x_mean k draws) == qmean (map (fun u => u * (x_mean / k)) draws) /\
  qvar (chi2_noise_q x_mean k draws) == qvar (map (fun u => u * (x_mean / k)) draws).
Proof.
  intros Hk. unfold chi2_noise_q, chi2_noise.
  assert (S : forall l, qsum (map (fun u => u * x_mean / k) l) == qsum (map (fun u => u * (x_mean / k)) l)).
  { intros l. apply qsum_ext. intros u. field. exact Hk. }
  assert (M : qmean (map (fun u => u * x_mean / k) draws) == qmean (map (fun u => u * (x_mean / k)) draws)).
  { unfold qmean. rewrite !map_length, S. reflexivity. }
  split; [exact M|]. unfold qvar. rewrite !map_length.
  assert (Q : forall l mu1 mu2, mu1 == mu2 -> sumsq (map (fun u => u * x_mean / k) l) mu1 == sumsq (map (fun u => u * (x_mean / k)) l) mu2).
  { induction l as [|x l IH]; intros mu1 mu2 Hm; cbn [map sumsq]; [reflexivity|]. rewrite (IH mu1 mu2 Hm), Hm.
    assert (X : x * x_mean / k == x * (x_mean / k)) by (field; exact Hk). rewrite X. reflexivity. }
  rewrite (Q draws _ _ M). reflexivity.
Qed.

Theorem chi2_scaling x_mean k draws : draws <> [] -> ~ k == 0 -> qmean draws == k -> qvar draws == 2 * k ->
  qmean (chi2_noise_q x_mean k draws) == x_mean /\ qvar (chi2_noise_q x_mean k draws) == chi2_var x_mean k.
Proof.
  intros Hl Hk Hm Hv. destruct (chi2_as_scale x_mean k draws Hk) as [A B].
  destruct (moments_scale (x_mean / k) draws Hl) as [C D].
  split.
  - rewrite A, C, Hm. field. exact Hk.
  - rewrite B, D, Hv. unfold chi2_var. field. exact Hk.
Qed.

(* truncated noise never falls below its floor *)
Theorem truncated_floor x_min draws : Forall (fun v => x_min <= v) (truncated_q x_min draws).
Proof.
  unfold truncated_q, truncated. apply Forall_forall. intros v Hin. apply in_map_iff in Hin. destruct Hin as (u & <- & _).
  unfold gmax, Qltb. destruct (Qle_bool x_min u) eqn:E; cbn [negb]; [now apply Qle_bool_iff|apply Qle_refl].
Qed.
(* ... and leaves every draw that is already above it unchanged *)
Theorem truncated_above x_min draws i : (i < length draws)%nat -> x_min <= nth i draws 0 ->
  nth i (truncated_q x_min draws) 0 = nth i draws 0.
Proof.
  intros Hi Hle. unfold truncated_q, truncated.
  rewrite (nth_indep _ 0 ((fun z => gmax Qltb z x_min) 0)) by (rewrite map_length; exact Hi).
  rewrite (map_nth (fun z => gmax Qltb z x_min) draws 0 i). unfold gmax, Qltb. apply Qle_bool_iff in Hle. rewrite Hle. reflexivity.
Qed.

(* ---------------- SNR ---------------- *)
Theorem snr_inverse s sigma r : ~ sigma == 0 -> ~ r == 0 ->
  get_snr_q (get_intensity_q s sigma r) sigma r == s /\ get_intensity_q (get_snr_q s sigma r) sigma r == s /\
  get_intensity_q s sigma r * r == s * sigma.
Proof. intros Hs Hr. unfold get_snr_q, get_intensity_q, get_snr, get_intensity. repeat split; field; auto. Qed.

(* ---------------- quadrature ---------------- *)
Lemma upd_length l i f : length (upd l i f) = length l.
Proof. revert i; induction l as [|x l IH]; intros [|i]; cbn; auto. Qed.
Lemma nth_upd l i f a : (a < length l)%nat -> nth a (upd l i f) 0 = if Nat.eqb i a then f (nth a l 0) else nth a l 0.
Proof.
  revert i a; induction l as [|x l IH]; intros i a Ha; cbn in Ha; [lia|].
  destruct i as [|i], a as [|a]; cbn [upd nth Nat.eqb]; try reflexivity. apply IH. lia.
Qed.
Definition sq_for (a : nat) (o : vop) : Q :=
  match o with StreamNoise a' v => if Nat.eqb a' a then v * v else 0 | BackgroundNoise v => v * v end.
Theorem quadrature a ops : forall s, (a < length (own_var s))%nat ->
  total_var (fold_left vstep ops s) a == total_var s a + qsum (map (sq_for a) ops).
Proof.
  induction ops as [|o r IH]; intros s Ha; cbn [fold_left map]; [unfold qsum; cbn; ring|].
  assert (Hl : (a < length (own_var (vstep s o)))%nat) by (destruct o; cbn [vstep own_var]; rewrite ?upd_length; exact Ha).
  rewrite (IH _ Hl). unfold qsum. cbn [fold_right]. fold (qsum (map (sq_for a) r)).
  destruct o as [a' v|v]; unfold total_var, vstep, sq_for; cbn [own_var bg_var].
  - rewrite nth_upd by exact Ha. destruct (Nat.eqb a' a); ring.
  - ring.
Qed.
(* a background source raises every antenna's total by the same variance; an antenna's own source only its own *)
Theorem background_shared s v a : total_var (vstep s (BackgroundNoise v)) a == total_var s a + v * v.
Proof. unfold total_var, vstep. cbn [own_var bg_var]. ring. Qed.
Theorem own_is_private s v a b : a <> b -> total_var (vstep s (StreamNoise a v)) b == total_var s b.
Proof.
  intros Hab. unfold total_var, vstep. cbn [own_var bg_var].
  destruct (Nat.lt_ge_cases b (length (own_var s))) as [L|G].
  - rewrite nth_upd by exact L. destruct (Nat.eqb_spec a b); [congruence|reflexivity].
  - rewrite !nth_overflow by (rewrite ?upd_length; exact G). reflexivity.
Qed.
Local Close Scope Q_scope.

(* ---------------- generic: bookkeeping, identity, tables ---------------- *)
Section Gen.
  Context {A : Type}.
  Variables (zero : A) (is0 : A -> bool) (add mul div : A -> A -> A) (ltb : A -> A -> bool) (chi2_std : A -> A -> A).
  Hypothesis is0_zero : is0 zero = true.
  Notation apply_noise := (apply_noise is0 add).
  Notation fstep := (fstep zero is0 add).
  Notation frun := (frun zero is0 add).
  Notation from_obs := (from_obs zero mul div ltb chi2_std).
  Notation gmax := (gmax ltb).

  (* the returned noise array is exactly what was added *)
  Theorem returned_is_added : forall d n, length d = length n ->
    length (add_lists add d n) = length d /\
    forall i dflt, (i < length d)%nat -> nth i (add_lists add d n) dflt = add (nth i d dflt) (nth i n dflt).
  Proof.
    induction d as [|a d IH]; intros [|b n] Hl; cbn in *; try lia; split; try lia; try (intros; lia).
    - destruct (IH n ltac:(lia)) as [L _]. lia.
    - intros i dflt Hi. destruct i; [reflexivity|]. apply (IH n ltac:(lia)). lia.
  Qed.
  Theorem noise_step_data st o est : data (apply_noise st o est) = add_lists add (data st) (noise o).
  Proof. reflexivity. Qed.

  Theorem first_noise_sets_params st o est : set_to_param is0 st = true ->
    nmean (apply_noise st o est) = p_mean o /\ nstd (apply_noise st o est) = p_std o.
  Proof. intros H. unfold Noise.apply_noise. cbn [nmean nstd]. rewrite H. split; reflexivity. Qed.
  Theorem later_noise_reestimates st o est : set_to_param is0 st = false ->
    nmean (apply_noise st o est) = fst est /\ nstd (apply_noise st o est) = snd est.
  Proof. intros H. unfold Noise.apply_noise. cbn [nmean nstd]. rewrite H. split; reflexivity. Qed.
  Theorem zero_data_resets st : set_to_param is0 (zero_data zero st) = true /\ Forall (fun v => v = zero) (data (zero_data zero st)).
  Proof.
    split; [unfold set_to_param, zero_data; cbn [nmean nstd]; now rewrite is0_zero|].
    unfold zero_data. cbn [data]. apply Forall_forall. intros v Hin. apply in_map_iff in Hin. now destruct Hin as (_ & <- & _).
  Qed.
  Theorem signal_keeps_estimates st sig : nmean (add_signal add st sig) = nmean st /\ nstd (add_signal add st sig) = nstd st.
  Proof. split; reflexivity. Qed.
  Lemma signals_keep st mid : forallb is_signal mid = true -> set_to_param is0 (frun st mid) = set_to_param is0 st.
  Proof.
    revert st; induction mid as [|op mid IH]; intros st H; [reflexivity|]. cbn [forallb] in H. apply andb_true_iff in H. destruct H as [H1 H2].
    unfold Noise.frun. cbn [fold_left]. fold (frun (fstep st op) mid). rewrite (IH _ H2).
    destruct op; cbn in H1; try discriminate. reflexivity.
  Qed.
  (* any history: after a zero_data, signals only, then noise -> the requested parameters *)
  Theorem zero_then_noise_sets_params st pre mid o est : forallb is_signal mid = true ->
    let st' := frun st (pre ++ OZero :: mid ++ [ONoise o est]) in nmean st' = p_mean o /\ nstd st' = p_std o.
  Proof.
    intros Hm. cbn zeta. unfold Noise.frun. rewrite fold_left_app. cbn [fold_left]. rewrite fold_left_app. cbn [fold_left].
    apply first_noise_sets_params. fold (frun (Noise.fstep zero is0 add (fold_left fstep pre st) OZero) mid).
    rewrite (signals_keep _ _ Hm). apply zero_data_resets.
  Qed.

  (* tables *)
  Theorem from_obs_shared_entries k means stds mins wm i draws o :
    from_obs k means stds mins (OShared wm) [i] draws = Some o -> (i < length means)%nat ->
    p_mean o = nth i means zero /\ p_std o = nth i stds zero /\ In (p_mean o) means /\ In (p_std o) stds /\
    In (RNormal (p_mean o) (p_std o)) (reqs o) /\ In (RIntegers (length means)) (reqs o) /\
    (if wm then noise o = truncated ltb (nth i mins zero) draws /\ In (nth i mins zero) mins else noise o = draws).
  Proof.
    intros H Hi. unfold Noise.from_obs in H. destruct wm.
    - destruct (Nat.eqb_spec (length means) (length stds)) as [E1|]; [|discriminate].
      destruct (Nat.eqb_spec (length means) (length mins)) as [E2|]; [|discriminate].
      cbn [andb] in H. injection H as <-. cbn. repeat split; auto; apply nth_In; lia.
    - destruct (Nat.eqb_spec (length means) (length stds)) as [E1|]; [|discriminate].
      injection H as <-. cbn. repeat split; auto; apply nth_In; lia.
  Qed.
  Theorem from_obs_shared_needs_equal_lengths k means stds mins wm i draws :
    length means <> length stds -> from_obs k means stds mins (OShared wm) [i] draws = None.
  Proof. intros H. unfold Noise.from_obs. destruct wm; destruct (Nat.eqb_spec (length means) (length stds)); try congruence; reflexivity. Qed.
  Theorem from_obs_indep_entries k means stds mins wm idx draws o :
    from_obs k means stds mins (OIndep wm) idx draws = Some o -> Forall (fun i => i < length means /\ i < length stds /\ (wm = true -> i < length mins))%nat idx ->
    In (p_std o) stds /\ (In (p_mean o) means \/ p_mean o = p_std o) /\ In (RNormal (p_mean o) (p_std o)) (reqs o) /\
    (if wm then exists mn, In mn mins /\ noise o = truncated ltb mn draws else noise o = draws).
  Proof.
    intros H Hf. unfold Noise.from_obs in H. destruct wm.
    - destruct idx as [|i [|j [|l [|? ?]]]]; try discriminate. injection H as <-.
      inversion Hf as [|? ? (Hi1 & Hi2 & Hi3) Hf']; subst. inversion Hf' as [|? ? (Hj1 & Hj2 & Hj3) Hf'']; subst. inversion Hf'' as [|? ? (Hl1 & Hl2 & Hl3) _]; subst.
      cbn. unfold Noise.gmax. repeat split; try (apply nth_In; lia); auto.
      + destruct (ltb _ _); [right; reflexivity|left; apply nth_In; lia].
      + exists (nth l mins zero). split; [apply nth_In; auto|reflexivity].
    - destruct idx as [|i [|j [|? ?]]]; try discriminate. injection H as <-.
      inversion Hf as [|? ? (Hi1 & Hi2 & Hi3) Hf']; subst. inversion Hf' as [|? ? (Hj1 & Hj2 & Hj3) _]; subst.
      cbn. unfold Noise.gmax. repeat split; try (apply nth_In; lia); auto.
      destruct (ltb _ _); [right; reflexivity|left; apply nth_In; lia].
  Qed.
  Theorem from_obs_chi2_entry k means stds mins i draws o :
    from_obs k means stds mins OChi2 [i] draws = Some o -> (i < length means)%nat ->
    In (p_mean o) means /\ p_mean o = nth i means zero /\ noise o = chi2_noise mul div (p_mean o) k draws /\
    p_std o = chi2_std (p_mean o) k /\ reqs o = [RChoice 0; RChi2 k].
  Proof. intros H Hi. unfold Noise.from_obs in H. injection H as <-. cbn. repeat split; auto. apply nth_In; lia. Qed.
End Gen.
