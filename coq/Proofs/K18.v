(* The definitions of Kernels/Gen18.v -- regenerated on every run from /repo's current source by tools/py2v.py --
   are the index normalisations of Base/PySeq.v that the C18 state machine uses. *)
From Coq Require Import List ZArith Lia Bool.
From SV Require Import Base.PySeq Kernels.Gen18.
Local Open Scope Z_scope.

(* OrderedCadence.insert: the position used for the label and handed to list.insert is list.insert's own clamping *)
Theorem k18_insert i n : 0 <= n -> src_insert_index i n = clamp_insert n i.
Proof. intros Hn. unfold src_insert_index, clamp_insert. destruct (i <? 0) eqn:E; lia. Qed.

(* OrderedCadence.__setitem__: normalised index and the IndexError guard are Python's list indexing *)
Theorem k18_setitem i n :
  norm_index n i = if src_setitem_rejects i n then None else Some (Z.to_nat (src_setitem_index i n)).
Proof.
  unfold norm_index, src_setitem_rejects, src_setitem_index.
  destruct (i <? 0); destruct (0 <=? _); destruct (_ <? n); reflexivity.
Qed.
