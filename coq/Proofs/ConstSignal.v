From Coq Require Import List Arith ZArith QArith Qround Qabs Lia Lqa Bool.
From SV Require Import Base.Tab Base.Rounding Model.Signal Model.ConstSignal Proofs.Signal.
Import ListNotations.
Local Open Scope Q_scope.

Lemma qmin_le a b : qmin a b <= a /\ qmin a b <= b.
Proof. unfold qmin. destruct (Qle_bool a b) eqn:E; [apply Qle_bool_iff in E|]; split; try lra.
  destruct (Qlt_le_dec b a); [lra|]. apply Qle_bool_iff in q. congruence. Qed.
Lemma qmax_ge a b : a <= qmax a b /\ b <= qmax a b.
Proof. unfold qmax. destruct (Qle_bool a b) eqn:E; [apply Qle_bool_iff in E|]; split; try lra.
  destruct (Qlt_le_dec b a); [lra|]. apply Qle_bool_iff in q. congruence. Qed.

(* the centre at any (fractional) time step s in [0, n] lies between the two ends of the sweep *)
Lemma sweep_between c0 D n s : 0 <= s <= n ->
  c0 + qmin (D * n) 0 <= c0 + D * s <= c0 + qmax (D * n) 0.
Proof.
  intros Hs. destruct (qmin_le (D * n) 0) as [m1 m2]. destruct (qmax_ge (D * n) 0) as [M1 M2].
  destruct (Qlt_le_dec D 0) as [Dn|Dp]; split; nra.
Qed.

(* every channel within half a width of the swept centre lies inside the (unclipped) bounding box,
   for every width > 0 (also far below one channel), either drift sign, any start position *)
Theorem support_in_box c0 w pdo c (j : Z) :
  c0 + qmin pdo 0 <= c <= c0 + qmax pdo 0 ->
  Qabs (inject_Z j - c) < Qabs w * (1#2) ->
  (box_lo c0 w pdo <= j < box_hi c0 w pdo)%Z.
Proof.
  intros Hc Hpix. unfold box_lo, box_hi.
  apply Qabs_Qlt_condition in Hpix. destruct Hpix as [Hlo Hhi].
  assert (Hw := Qabs_nonneg w).
  set (x := c0 + qmin pdo 0 - 2 * Qabs w). set (y := c0 + qmax pdo 0 + 2 * Qabs w).
  assert (F1 := Qfloor_le x). assert (C1 := Qle_ceiling y).
  split.
  - assert (H : inject_Z (Qfloor x) < inject_Z j) by (unfold x in *; lra).
    rewrite <- Zlt_Qlt in H. lia.
  - assert (H : inject_Z j < inject_Z (Qceiling y)) by (unfold y in *; lra).
    rewrite <- Zlt_Qlt in H. lia.
Qed.

(* sub-steps: at least one, and enough that no sub-step moves the centre by more than a channel *)
Theorem substeps_spec D : (1 <= substeps D)%Z /\ Qabs D <= inject_Z (substeps D) /\ (D == 0 -> substeps D = 1%Z).
Proof.
  unfold substeps. split; [lia|]. split.
  - assert (H := Qle_ceiling (Qabs D)). eapply Qle_trans; [exact H|]. rewrite <- Zle_Qle. lia.
  - intros E. rewrite E. reflexivity.
Qed.

(* mirror symmetry of the box: drift -d sweeps the mirror image about the start position *)
Theorem box_mirror (pdo : Q) : qmin (- pdo) 0 == - qmax pdo 0 /\ qmax (- pdo) 0 == - qmin pdo 0.
Proof.
  unfold qmin, qmax.
  destruct (Qle_bool (- pdo) 0) eqn:E1; destruct (Qle_bool pdo 0) eqn:E2;
    try apply Qle_bool_iff in E1; try apply Qle_bool_iff in E2; split; try lra;
    try (destruct (Qlt_le_dec 0 pdo) as [L|L]; [|apply Qle_bool_iff in L; congruence]);
    try (destruct (Qlt_le_dec 0 (- pdo)) as [L'|L']; [|apply Qle_bool_iff in L'; congruence]); lra.
Qed.
