(* The definitions of Kernels/Gen11.v -- regenerated on every run from /repo's current source by tools/py2v.py --
   equal the hand-written model functions the C11 theorems speak about.  An edit of one of those source lines
   changes Gen11.v and with it these obligations. *)
From Coq Require Import List ZArith QArith Qround Qabs Lia Lqa Bool.
From SV Require Import Base.Rounding Kernels.Gen11 Model.Noise.
Local Open Scope Q_scope.

Lemma k_get_intensity s sigma r : ~ r == 0 -> src_get_intensity s sigma r == get_intensity_q s sigma r.
Proof. intros H. unfold src_get_intensity, get_intensity_q, get_intensity. first [reflexivity | ring | (field; auto)]. Qed.
Lemma k_get_snr i sigma r : ~ sigma == 0 -> src_get_snr i sigma r == get_snr_q i sigma r.
Proof. intros H. unfold src_get_snr, get_snr_q, get_snr. first [reflexivity | ring | (field; auto)]. Qed.
(* DataStream.add_noise keeps sqrt(noise_std^2 + v_std^2): the variance under the root is the model's own_var + v^2 *)
Lemma k_stream_noise_var s v a : (a < length (own_var s))%nat ->
  nth a (own_var (vstep s (StreamNoise a v))) 0 == nth a (own_var s) 0 + v * v /\
  forall sd, sd * sd == nth a (own_var s) 0 -> src_stream_noise_var sd v == nth a (own_var (vstep s (StreamNoise a v))) 0.
Proof.
  intros Ha. assert (E : nth a (own_var (vstep s (StreamNoise a v))) 0 == nth a (own_var s) 0 + v * v).
  { cbn [vstep own_var]. generalize (own_var s) a Ha. clear. induction l as [|x l IH]; intros a Ha; cbn in Ha; [lia|].
    destruct a; cbn [upd nth]; [reflexivity|]. apply IH. lia. }
  split; [exact E|]. intros sd Hs. rewrite E. unfold src_stream_noise_var. rewrite Hs. reflexivity.
Qed.

(* degrees of freedom: k = 4 * round(df * dt), round = half to even *)
Lemma k_chi2_df df dt : src_chi2_df df dt = (4 * rhe (df * dt))%Z.
Proof. unfold src_chi2_df. first [reflexivity | (f_equal; apply rhe_proper; first [reflexivity | ring])]. Qed.

(* the bundled table's columns: row * (dt / obs_dt), the same expression for the three columns *)
Lemma k_obs_entries row dt :
  src_obs_mean_entry row dt == default_entry row dt /\ src_obs_std_entry row dt == default_entry row dt /\ src_obs_min_entry row dt == default_entry row dt.
Proof.
  unfold src_obs_mean_entry, src_obs_std_entry, src_obs_min_entry, default_entry, obs_dt.
  split; [|split]; first [reflexivity | ring | (field; discriminate)].
Qed.
Lemma default_entry_at_obs_dt row : default_entry row obs_dt == row.
Proof. unfold default_entry, obs_dt. field. Qed.
Lemma default_entry_homogeneous row dt c : default_entry row (c * dt) == c * default_entry row dt.
Proof. unfold default_entry, obs_dt. field. Qed.
Lemma default_entry_monotone a b dt : 0 <= dt -> a <= b -> default_entry a dt <= default_entry b dt.
Proof.
  intros Hd Hab. unfold default_entry. apply Qmult_le_compat_r; [exact Hab|].
  unfold Qdiv. apply Qmult_le_0_compat; [exact Hd|]. apply Qinv_le_0_compat. unfold obs_dt. discriminate.
Qed.
(* the deviation recorded for chi-squared noise, sqrt(2k) * x_mean / k, squares to the model's variance 2 x_mean^2 / k; the
   table variant of the method computes the same expression *)
Lemma k_chi2_std m k r : (0 < k)%Z -> r * r == 2 * inject_Z k ->
  src_chi2_std m k r * src_chi2_std m k r == chi2_var m (inject_Z k) /\ src_chi2_std_obs m k r == src_chi2_std m k r.
Proof.
  intros Hk Hr. assert (Hq : ~ inject_Z k == 0). { intro E. assert (0 < inject_Z k) by (rewrite Zlt_Qlt in Hk; exact Hk). rewrite E in H. apply (Qlt_irrefl 0 H). }
  split.
  - unfold src_chi2_std, chi2_var.
    assert (E : (r * m / inject_Z k) * (r * m / inject_Z k) == (r * r) * (m * m) / (inject_Z k * inject_Z k)) by (field; exact Hq).
    rewrite E, Hr. field. exact Hq.
  - unfold src_chi2_std_obs, src_chi2_std. first [reflexivity | ring | (field; exact Hq)].
Qed.

Theorem k11_all s i sigma r : ~ sigma == 0 -> ~ r == 0 ->
  src_get_intensity s sigma r == get_intensity_q s sigma r /\ src_get_snr i sigma r == get_snr_q i sigma r.
Proof.
  intros Hs Hr. split; [now apply k_get_intensity|now apply k_get_snr].
Qed.
