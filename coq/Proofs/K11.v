(* The definitions of Kernels/Gen11.v -- regenerated on every run from /repo's current source by tools/py2v.py --
   equal the hand-written model functions the C11 theorems speak about.  An edit of one of those source lines
   changes Gen11.v and with it these obligations. *)
From Coq Require Import List ZArith QArith Qround Qabs Lia Lqa Bool.
From SV Require Import Base.Rounding Kernels.Gen11 Model.Noise.
Local Open Scope Q_scope.

Lemma k_get_intensity s sigma r : ~ r == 0 -> src_get_intensity s sigma r == get_intensity_q s sigma r.
Proof. intros H. unfold src_get_intensity, get_intensity_q, get_intensity. first [reflexivity | ring | (field; auto)]. Qed.
Lemma k_get_snr i sigma r : ~ sigma == 0 -> src_get_snr i sigma r == get_snr_q i sigma r.
Proof. intros H. unfold src_get_snr, get_snr_q, get_snr. first [reflexivity | ring | (field; auto)]. Qed.
(* DataStream.add_noise keeps sqrt(noise_std^2 + v_std^2): the variance under the root is the model's own_var + v^2 *)
Lemma k_stream_noise_var s v a : (a < length (own_var s))%nat ->
  nth a (own_var (vstep s (StreamNoise a v))) 0 == nth a (own_var s) 0 + v * v /\
  forall sd, sd * sd == nth a (own_var s) 0 -> src_stream_noise_var sd v == nth a (own_var (vstep s (StreamNoise a v))) 0.
Proof.
  intros Ha. assert (E : nth a (own_var (vstep s (StreamNoise a v))) 0 == nth a (own_var s) 0 + v * v).
  { cbn [vstep own_var]. generalize (own_var s) a Ha. clear. induction l as [|x l IH]; intros a Ha; cbn in Ha; [lia|].
    destruct a; cbn [upd nth]; [reflexivity|]. apply IH. lia. }
  split; [exact E|]. intros sd Hs. rewrite E. unfold src_stream_noise_var. rewrite Hs. reflexivity.
Qed.

(* degrees of freedom: k = 4 * round(df * dt), round = half to even *)
Lemma k_chi2_df df dt : src_chi2_df df dt = (4 * rhe (df * dt))%Z.
Proof. unfold src_chi2_df. first [reflexivity | (f_equal; apply rhe_proper; first [reflexivity | ring])]. Qed.

Theorem k11_all s i sigma r : ~ sigma == 0 -> ~ r == 0 ->
  src_get_intensity s sigma r == get_intensity_q s sigma r /\ src_get_snr i sigma r == get_snr_q i sigma r.
Proof.
  intros Hs Hr. split; [now apply k_get_intensity|now apply k_get_snr].
Qed.
