(* The definitions of Kernels/Gen07.v -- regenerated on every run from /repo's current source by tools/py2v.py --
   equal the hand-written model functions the C07 theorems speak about.  An edit of one of those source lines
   changes Gen07.v and with it these obligations. *)
From Coq Require Import List ZArith QArith Qround Qabs Lia Lqa Bool.
From SV Require Import Base.Rounding Kernels.Gen07 Model.FreqReg.
Local Open Scope Q_scope.

Lemma inject_Z_minus' a b : inject_Z (a - b) == inject_Z a - inject_Z b.
Proof. unfold Z.sub. rewrite inject_Z_plus, inject_Z_opp. reflexivity. Qed.
Lemma k_center_freq fch1 cbw start_chan nchans nants sr nb :
  OBSFREQ (header fch1 cbw start_chan nchans nants sr nb) == src_center_freq fch1 cbw start_chan nchans * mhz.
Proof.
  unfold header, src_center_freq. cbn [OBSFREQ]. unfold zq. rewrite inject_Z_minus'. change (inject_Z 1) with 1. change (inject_Z 2) with 2. first [reflexivity | ring | field].
Qed.
Lemma k_raw_params_fch1 h start_chan nchans :
  raw_params_fch1 h start_chan nchans == src_raw_params_fch1 (OBSFREQ h / mhz) (CHAN_BW h / mhz) start_chan nchans.
Proof.
  unfold raw_params_fch1, src_raw_params_fch1, zq. rewrite inject_Z_minus'. change (inject_Z 1) with 1. change (inject_Z 2) with 2. first [reflexivity | ring | field].
Qed.

(* the four header cards the reader-side formula uses, field by field *)
Theorem k07_header fch1 cbw start_chan nchans nants sr nb :
  let h := header fch1 cbw start_chan nchans nants sr nb in
  OBSFREQ h == src_hdr_obsfreq fch1 cbw start_chan nchans /\ CHAN_BW h == src_hdr_chan_bw cbw /\
  OBSBW h == src_hdr_obsbw cbw nchans /\ OBSNCHAN h = src_hdr_obsnchan nchans nants.
Proof.
  cbn zeta. unfold header, src_hdr_obsfreq, src_hdr_chan_bw, src_hdr_obsbw, src_hdr_obsnchan, mhz, zq. cbn [OBSFREQ CHAN_BW OBSBW OBSNCHAN].
  rewrite inject_Z_minus'. change (inject_Z 1) with 1. change (inject_Z 2) with 2.
  split; [first [reflexivity | ring | field]|]. split; [first [reflexivity | ring]|]. split; [first [reflexivity | ring]|reflexivity].
Qed.

Theorem k07_all fch1 cbw start_chan nchans nants sr nb h :
  OBSFREQ (header fch1 cbw start_chan nchans nants sr nb) == src_center_freq fch1 cbw start_chan nchans * mhz /\
  raw_params_fch1 h start_chan nchans == src_raw_params_fch1 (OBSFREQ h / mhz) (CHAN_BW h / mhz) start_chan nchans.
Proof.
  repeat match goal with |- _ /\ _ => split end; [apply k_center_freq|apply k_raw_params_fch1].
Qed.
