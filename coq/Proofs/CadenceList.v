From Coq Require Import List ZArith Lia Bool.
From SV Require Import Base.PySeq Model.CadenceList.
Import ListNotations.
Open Scope Z_scope.

(* ---------- guard invariant: every member is a Frame, all of one class ---------- *)
Definition Inv (s : list obj) := exists c, Forall (fun o => cls_of o = Some c) s.

Lemma Forall_sub {A} (P : A -> Prop) (l l' : list A) :
  (forall x, In x l' -> In x l) -> Forall P l -> Forall P l'.
Proof. intros H F. apply Forall_forall. intros x Hx. eapply Forall_forall; eauto. Qed.

Lemma Forall_add {A} (P : A -> Prop) (v : A) (l l' : list A) :
  (forall x, In x l' -> x = v \/ In x l) -> P v -> Forall P l -> Forall P l'.
Proof. intros H Pv F. apply Forall_forall. intros x Hx. destruct (H x Hx) as [->|Hi]; [exact Pv|].
  eapply Forall_forall; eauto. Qed.

Lemma check_ok s v : Inv s -> check s v = None ->
  exists c, cls_of v = Some c /\ Forall (fun o => cls_of o = Some c) s.
Proof.
  intros [c H] Hc. destruct v as [id cv|id]; [|discriminate]. simpl in Hc.
  destruct s as [|f s].
  - exists cv. split; [reflexivity|constructor].
  - inversion H as [|? ? Hf Hs]; subst. rewrite Hf in Hc.
    destruct (Nat.eqb_spec cv c); [|discriminate]. subst. exists c. split; [reflexivity|assumption].
Qed.

Lemma Inv_add s v s' : Inv s -> check s v = None ->
  (forall x, In x s' -> x = v \/ In x s) -> Inv s'.
Proof.
  intros HI Hc Hs. destruct (check_ok s v HI Hc) as (c & Hv & HF).
  exists c. eapply Forall_add; eauto.
Qed.
Lemma Inv_sub s s' : Inv s -> (forall x, In x s' -> In x s) -> Inv s'.
Proof. intros [c H] Hs. exists c. eapply Forall_sub; eauto. Qed.

Lemma do_insert_inv w i v : Inv (frames (cd w)) -> Inv (frames (cd (fst (fst (do_insert w i v))))).
Proof.
  intros HI. unfold do_insert. destruct (check _ v) eqn:Hc; [exact HI|].
  destruct (label_for _ _ _); [|exact HI]. cbn.
  eapply Inv_add; eauto. intros x. apply In_ins.
Qed.

Lemma do_extend_inv vs : forall w, Inv (frames (cd w)) -> Inv (frames (cd (fst (fst (do_extend w vs))))).
Proof.
  induction vs as [|v r IH]; intros w HI; [exact HI|]. cbn [do_extend].
  pose proof (do_insert_inv w (zlen (frames (cd w))) v HI) as H1.
  destruct (do_insert w _ v) as [[w' ret] [e|]]; cbn in *; [exact H1|]. apply IH. exact H1.
Qed.

Lemma step_inv w o : Inv (frames (cd w)) -> Inv (frames (cd (wstep w o))).
Proof.
  intros HI. unfold wstep. destruct o; cbn [step].
  - apply do_insert_inv; assumption.
  - apply do_insert_inv; assumption.
  - apply do_extend_inv; assumption.
  - unfold do_setitem. destruct (check _ v) eqn:Hc; [exact HI|].
    destruct (norm_index _ _); [|exact HI]. destruct (label_for _ _ _); [|exact HI]. cbn.
    eapply Inv_add; eauto. intros x. apply In_upd.
  - destruct (norm_index _ _); [|exact HI]. cbn. eapply Inv_sub; eauto. intros x. apply In_del.
  - cbn. eapply Inv_sub; eauto. intros x. apply In_pydelslice.
  - destruct (norm_index _ _); [|exact HI]. destruct (nth_error _ _); [|exact HI]. cbn.
    eapply Inv_sub; eauto. intros x. apply In_del.
  - destruct (norm_index _ _); [|exact HI]. destruct (nth_error _ _); exact HI.
  - exact HI.
  - destruct (get_idx _ _); exact HI.
  - destruct (relabel _ _ _) as [l b]. destruct b; exact HI.
  - exact HI.
Qed.

Theorem guard_invariant : forall ops w, Inv (frames (cd w)) -> Inv (frames (cd (run w ops))).
Proof.
  unfold run. induction ops as [|o r IH]; intros w HI; [exact HI|].
  cbn [fold_left]. apply IH. now apply step_inv.
Qed.

Corollary guard_invariant_init : forall b o l ops, Inv (frames (cd (run (init b o l) ops))).
Proof. intros. apply guard_invariant. exists 0%nat. constructor. Qed.

(* ---------- refinement to a plain Python list ---------- *)
Definition pylist_step (l : list obj) (o : op) : option (list obj) :=
  match o with
  | Insert i v => Some (pyinsert l i v)
  | Append v => Some (l ++ [v])
  | Extend vs => Some (l ++ vs)
  | SetItem i v => option_map (fun n => upd n v l) (norm_index (zlen l) i)
  | DelItem i => option_map (fun n => del n l) (norm_index (zlen l) i)
  | DelSlice lo hi => Some (pydelslice l lo hi)
  | Pop i => option_map (fun n => del n l) (norm_index (zlen l) i)
  | GetInt _ | GetSlice _ _ | GetIdx _ | SetOrder _ | ByLabel _ => Some l
  end.

Definition is_extend (o : op) := match o with Extend _ => true | _ => false end.
Definition is_setorder (o : op) := match o with SetOrder _ => true | _ => false end.

Lemma clamp_len (l : list obj) : Z.to_nat (clamp_insert (zlen l) (zlen l)) = length l.
Proof. unfold clamp_insert, zlen. destruct (Z.of_nat (length l) <? 0) eqn:E; [apply Z.ltb_lt in E; lia|].
  rewrite Z.min_id. apply Nat2Z.id. Qed.

Lemma do_insert_refines w i v :
  match do_insert w i v with
  | (w', _, None) => frames (cd w') = pyinsert (frames (cd w)) i v
  | (w', _, Some _) => w' = w
  end.
Proof.
  unfold do_insert. destruct (check _ v); [reflexivity|].
  destruct (label_for _ _ _); reflexivity.
Qed.

(* accepted op: exactly what a list does.  rejected op (other than extend / set_order): no effect at all *)
Theorem refines_list w o : is_extend o = false ->
  match step w o with
  | (w', _, None) => pylist_step (frames (cd w)) o = Some (frames (cd w'))
  | (w', _, Some _) => is_setorder o = false -> w' = w
  end.
Proof.
  intros Hx. destruct o; try discriminate; cbn [step pylist_step].
  - pose proof (do_insert_refines w i v) as H. destruct (do_insert w i v) as [[w' r] [e|]]; [intros _; exact H|now rewrite H].
  - pose proof (do_insert_refines w (zlen (frames (cd w))) v) as H.
    destruct (do_insert w _ v) as [[w' r] [e|]]; [intros _; exact H|].
    rewrite H. unfold pyinsert. rewrite clamp_len, ins_end. reflexivity.
  - unfold do_setitem. destruct (check _ v); [now intros _|].
    destruct (norm_index _ _); [|now intros _]. destruct (label_for _ _ _); [reflexivity|now intros _].
  - destruct (norm_index _ _); [reflexivity|now intros _].
  - reflexivity.
  - destruct (norm_index _ _) as [n|]; [|now intros _]. destruct (nth_error _ n) eqn:E; [reflexivity|now intros _].
  - destruct (norm_index _ _) as [n|]; [|now intros _]. destruct (nth_error _ n); [reflexivity|now intros _].
  - reflexivity.
  - destruct (get_idx _ _); [reflexivity|now intros _].
  - destruct (relabel _ _ _) as [l b]. destruct b; [reflexivity|discriminate].
  - reflexivity.
Qed.

(* getters return what list indexing returns *)
Theorem getters_refine w :
  (forall i, match step w (GetInt i) with
             | (_, r, None) => exists n, norm_index (zlen (frames (cd w))) i = Some n /\ nth_error (frames (cd w)) n = Some (hd (Other 0) r) /\ length r = 1%nat
             | (_, _, Some e) => e = IndexError
             end) /\
  (forall lo hi, step w (GetSlice lo hi) = (w, pyslice (frames (cd w)) lo hi, None)).
Proof.
  split; [|reflexivity]. intros i. cbn [step].
  destruct (norm_index _ _) as [n|] eqn:E; [|reflexivity].
  destruct (nth_error _ n) eqn:E2; [|reflexivity]. exists n. repeat split; assumption.
Qed.

(* extend = repeated append that stops at the first rejected element; earlier ones stay *)
Theorem extend_prefix vs : forall w, exists k,
  frames (cd (fst (fst (do_extend w vs)))) = frames (cd w) ++ firstn k vs /\
  (snd (do_extend w vs) = None -> k = length vs).
Proof.
  induction vs as [|v r IH]; intros w.
  - exists 0%nat. cbn. now rewrite app_nil_r.
  - cbn [do_extend].
    pose proof (do_insert_refines w (zlen (frames (cd w))) v) as H.
    destruct (do_insert w _ v) as [[w' ret] [e|]].
    + subst w'. exists 0%nat. cbn. rewrite app_nil_r. split; [reflexivity|discriminate].
    + unfold pyinsert in H. rewrite clamp_len, ins_end in H.
      destruct (IH w') as (k & Hk & Hn). exists (S k). cbn [firstn].
      rewrite Hk, H, <- app_assoc. split; [reflexivity|]. intros E. cbn [length]. now rewrite (Hn E).
Qed.

(* ---------- labels ---------- *)
Lemma lookup_set_other l i j c : i <> j -> lookup (set_label l i c) j = lookup l j.
Proof. intros H. cbn. destruct (Nat.eqb_spec i j); congruence. Qed.
Lemma lookup_set_same l i c : lookup (set_label l i c) i = Some c.
Proof. cbn. now rewrite Nat.eqb_refl. Qed.

Lemma label_for_stable w v pos l : label_for w v pos = Some l ->
  forall i c, lookup (lab w) i = Some c -> lookup l i = Some c.
Proof.
  unfold label_for. destruct (ordered (cd w)); [|intros H; inversion H; auto].
  destruct (lookup (lab w) (oid v)) eqn:E; [intros H; inversion H; auto|].
  destruct (nth_error _ _); [|discriminate]. intros H; inversion H; subst. intros i c Hi.
  rewrite lookup_set_other; [assumption|]. intros Heq. rewrite <- Heq in Hi. congruence.
Qed.

Lemma do_insert_stable w i v : forall j c, lookup (lab w) j = Some c ->
  lookup (lab (fst (fst (do_insert w i v)))) j = Some c.
Proof.
  intros j c H. unfold do_insert. destruct (check _ v); [exact H|].
  destruct (label_for _ _ _) eqn:E; [|exact H]. cbn. eapply label_for_stable; eauto.
Qed.

Lemma do_extend_stable vs : forall w j c, lookup (lab w) j = Some c ->
  lookup (lab (fst (fst (do_extend w vs)))) j = Some c.
Proof.
  induction vs as [|v r IH]; intros w j c H; [exact H|]. cbn [do_extend].
  pose proof (do_insert_stable w (zlen (frames (cd w))) v j c H) as H1.
  destruct (do_insert w _ v) as [[w' ret] [e|]]; cbn in *; [exact H1|]. now apply IH.
Qed.

(* a label, once given, is never changed by anything but set_order *)
Theorem labels_stable w o : is_setorder o = false ->
  forall j c, lookup (lab w) j = Some c -> lookup (lab (wstep w o)) j = Some c.
Proof.
  intros Hs j c H. unfold wstep. destruct o; try discriminate; cbn [step].
  - now apply do_insert_stable.
  - now apply do_insert_stable.
  - now apply do_extend_stable.
  - unfold do_setitem. destruct (check _ v); [exact H|]. destruct (norm_index _ _); [|exact H].
    destruct (label_for _ _ _) eqn:E; [|exact H]. cbn. eapply label_for_stable; eauto.
  - destruct (norm_index _ _); exact H.
  - exact H.
  - destruct (norm_index _ _); [|exact H]. destruct (nth_error _ _); exact H.
  - destruct (norm_index _ _); [|exact H]. destruct (nth_error _ _); exact H.
  - exact H.
  - destruct (get_idx _ _); exact H.
  - exact H.
Qed.

(* an unlabelled frame that is accepted by insert / append / item assignment into an
   ordered cadence gets order[pos], pos being the index it occupies right afterwards *)
Theorem label_at_position w o v :
  ordered (cd w) = true -> lookup (lab w) (oid v) = None ->
  (exists i, o = Insert i v \/ o = SetItem i v) \/ o = Append v ->
  match step w o with
  | (w', _, None) => exists pos c, nth_error (frames (cd w')) pos = Some v /\
                                  nth_error (order (cd w')) pos = Some c /\
                                  lookup (lab w') (oid v) = Some c
  | (_, _, Some _) => True
  end.
Proof.
  intros Ho Hl Hop.
  assert (HI : forall i, match do_insert w i v with
    | (w', _, None) => exists pos c, nth_error (frames (cd w')) pos = Some v /\
                                  nth_error (order (cd w')) pos = Some c /\
                                  lookup (lab w') (oid v) = Some c
    | (_, _, Some _) => True end).
  { intros i. unfold do_insert. destruct (check _ v); [exact I|].
    unfold label_for. rewrite Ho, Hl.
    set (pos := Z.to_nat (clamp_insert (zlen (frames (cd w))) i)).
    destruct (nth_error (order (cd w)) pos) eqn:E; [|exact I].
    exists pos, z. cbn. repeat split; [|assumption|now rewrite Nat.eqb_refl].
    apply nth_error_ins. unfold pos. pose proof (clamp_insert_range (zlen (frames (cd w))) i). unfold zlen in *. lia. }
  destruct Hop as [[i [->| ->]]| ->]; cbn [step].
  - apply HI.
  - unfold do_setitem. destruct (check _ v); [exact I|].
    destruct (norm_index _ i) as [n|] eqn:En; [|exact I].
    unfold label_for. rewrite Ho, Hl.
    destruct (nth_error (order (cd w)) n) eqn:E; [|exact I].
    exists n, z. cbn. repeat split; [|assumption|now rewrite Nat.eqb_refl].
    apply nth_error_upd. apply norm_index_range in En. unfold zlen in En. lia.
  - apply HI.
Qed.

(* in an ordered cadence every member carries a label (so by_label never meets a missing key) *)
Definition AllLabelled (w : world) := Forall (fun f => lookup (lab w) (oid f) <> None) (frames (cd w)).

Lemma relabel_keeps fs : forall l o j, lookup l j <> None -> lookup (fst (relabel l fs o)) j <> None.
Proof.
  induction fs as [|f fr IH]; intros l o j H; [exact H|]. cbn [relabel].
  destruct o as [|c orr]; [exact H|]. apply IH. cbn. destruct (Nat.eqb _ j); [discriminate|exact H].
Qed.

Lemma label_for_labels w v pos l : ordered (cd w) = true -> label_for w v pos = Some l -> lookup l (oid v) <> None.
Proof.
  intros Ho. unfold label_for. rewrite Ho. destruct (lookup (lab w) (oid v)) eqn:E.
  - intros H; inversion H; subst. congruence.
  - destruct (nth_error _ _); [|discriminate]. intros H; inversion H; subst. rewrite lookup_set_same. discriminate.
Qed.

Lemma AllLabelled_add w v s' l pos : ordered (cd w) = true -> AllLabelled w -> label_for w v pos = Some l ->
  (forall x, In x s' -> x = v \/ In x (frames (cd w))) -> AllLabelled (with_frames w s' l).
Proof.
  intros Ho HA Hl Hs. unfold AllLabelled. cbn. eapply Forall_add; [exact Hs| |].
  - eapply label_for_labels; eauto.
  - unfold AllLabelled in HA. eapply Forall_impl; [|exact HA]. cbn. intros a Ha.
    destruct (lookup (lab w) (oid a)) eqn:E; [|congruence].
    rewrite (label_for_stable w v pos l Hl _ _ E). discriminate.
Qed.

Lemma ordered_wstep w o : ordered (cd (wstep w o)) = ordered (cd w).
Proof.
  unfold wstep. destruct o; cbn [step]; try reflexivity.
  - unfold do_insert. destruct (check _ _); [reflexivity|]. destruct (label_for _ _ _); reflexivity.
  - unfold do_insert. destruct (check _ _); [reflexivity|]. destruct (label_for _ _ _); reflexivity.
  - revert w. induction vs as [|v r IH]; intros w; [reflexivity|]. cbn [do_extend].
    assert (H : ordered (cd (fst (fst (do_insert w (zlen (frames (cd w))) v)))) = ordered (cd w)).
    { unfold do_insert. destruct (check _ _); [reflexivity|]. destruct (label_for _ _ _); reflexivity. }
    destruct (do_insert w _ v) as [[w' ret] [e|]]; cbn in *; [exact H|]. rewrite IH. exact H.
  - unfold do_setitem. destruct (check _ _); [reflexivity|]. destruct (norm_index _ _); [|reflexivity].
    destruct (label_for _ _ _); reflexivity.
  - destruct (norm_index _ _); reflexivity.
  - destruct (norm_index _ _); [|reflexivity]. destruct (nth_error _ _); reflexivity.
  - destruct (norm_index _ _); [|reflexivity]. destruct (nth_error _ _); reflexivity.
  - destruct (get_idx _ _); reflexivity.
  - destruct (relabel _ _ _) as [l b]. destruct b; reflexivity.
Qed.

Lemma do_insert_all w i v : ordered (cd w) = true -> AllLabelled w -> AllLabelled (fst (fst (do_insert w i v))).
Proof.
  intros Ho HA. unfold do_insert. destruct (check _ v); [exact HA|].
  destruct (label_for _ _ _) eqn:E; [|exact HA]. cbn [fst]. eapply AllLabelled_add; eauto. intros x; apply In_ins.
Qed.

Lemma AllLabelled_sub w s' : AllLabelled w -> (forall x, In x s' -> In x (frames (cd w))) -> AllLabelled (with_frames w s' (lab w)).
Proof. intros HA Hs. unfold AllLabelled in *. cbn. eapply Forall_sub; eauto. Qed.

Lemma step_all w o : ordered (cd w) = true -> AllLabelled w -> AllLabelled (wstep w o).
Proof.
  intros Ho HA. unfold wstep. destruct o; cbn [step].
  - now apply do_insert_all.
  - now apply do_insert_all.
  - revert w Ho HA. induction vs as [|v r IH]; intros w Ho HA; [exact HA|]. cbn [do_extend].
    pose proof (do_insert_all w (zlen (frames (cd w))) v Ho HA) as H1.
    pose proof (ordered_wstep w (Insert (zlen (frames (cd w))) v)) as H2. unfold wstep in H2. cbn [step] in H2.
    destruct (do_insert w _ v) as [[w' ret] [e|]]; cbn in *; [exact H1|]. apply IH; [congruence|exact H1].
  - unfold do_setitem. destruct (check _ v); [exact HA|]. destruct (norm_index _ _); [|exact HA].
    destruct (label_for _ _ _) eqn:E; [|exact HA]. cbn [fst]. eapply AllLabelled_add; eauto. intros x; apply In_upd.
  - destruct (norm_index _ _); [|exact HA]. cbn [fst]. apply AllLabelled_sub; [exact HA|]. intros x; apply In_del.
  - cbn [fst]. apply AllLabelled_sub; [exact HA|]. intros x; apply In_pydelslice.
  - destruct (norm_index _ _); [|exact HA]. destruct (nth_error _ _); [|exact HA]. cbn [fst].
    apply AllLabelled_sub; [exact HA|]. intros x; apply In_del.
  - destruct (norm_index _ _); [|exact HA]. destruct (nth_error _ _); exact HA.
  - exact HA.
  - destruct (get_idx _ _); exact HA.
  - destruct (relabel _ _ _) as [l b] eqn:E.
    assert (HA' : Forall (fun f => lookup l (oid f) <> None) (frames (cd w))).
    { unfold AllLabelled in HA. eapply Forall_impl; [|exact HA]. cbn. intros a Ha.
      replace l with (fst (relabel (lab w) (frames (cd w)) o)) by (now rewrite E). now apply relabel_keeps. }
    destruct b; exact HA'.
  - exact HA.
Qed.

Theorem all_labelled : forall ops w, ordered (cd w) = true -> AllLabelled w -> AllLabelled (run w ops).
Proof.
  unfold run. induction ops as [|o r IH]; intros w Ho HA; [exact HA|]. cbn [fold_left].
  apply IH; [now rewrite ordered_wstep | now apply step_all].
Qed.

(* selection by label = exactly the members carrying the label, in cadence order *)
Theorem by_label_spec l c s :
  by_label_filter l c s = filter (fun f => match lookup l (oid f) with Some c' => Z.eqb c' c | None => false end) s.
Proof.
  induction s as [|f r IH]; [reflexivity|]. cbn. destruct (lookup l (oid f)) as [c'|]; [|exact IH].
  destruct (Z.eqb c' c); [now rewrite IH|exact IH].
Qed.

(* set_order with an order string at least as long as the cadence labels position k with order[k] *)
Lemma relabel_complete fs : forall l o, (length fs <= length o)%nat -> snd (relabel l fs o) = true.
Proof.
  induction fs as [|f fr IH]; intros l o H; [reflexivity|]. destruct o as [|c orr]; [cbn in H; lia|].
  cbn [relabel]. apply IH. cbn in H. lia.
Qed.
