From Coq Require Import List Arith ZArith QArith Qround Qabs Lia Lqa Bool.
From SV Require Import Base.Tab Base.Rounding Model.Derived.
Import ListNotations.
Local Open Scope Q_scope.

Definition wf (fr : dframe) := length (data fr) = T fr /\ Forall (fun r => length r = F fr) (data fr).
Lemma wf_row fr i : wf fr -> (i < T fr)%nat -> length (nth i (data fr) []) = F fr.
Proof. intros [HT HF] Hi. eapply Forall_forall in HF; [exact HF|]. apply nth_In. lia. Qed.

Lemma nth_map_lt {A B} (f : A -> B) l k dA dB : (k < length l)%nat -> nth k (map f l) dB = f (nth k l dA).
Proof. revert k. induction l as [|x l IH]; intros k H; [cbn in H; lia|]. destruct k; cbn; [reflexivity|]. apply IH. cbn in H. lia. Qed.

Lemma nq_plus a b : nq (a + b) == nq a + nq b.
Proof. unfold nq. rewrite Nat2Z.inj_add, inject_Z_plus. reflexivity. Qed.

(* ---------------- slice ---------------- *)
Theorem slice_pixels fr l r i j : wf fr -> (l < r <= F fr)%nat -> (i < T fr)%nat -> (j < r - l)%nat ->
  nth2 0 (data (get_slice fr l r)) i j = nth2 0 (data fr) i (l + j) /\
  fs (get_slice fr l r) j == fs fr (l + j).
Proof.
  intros Hwf Hlr Hi Hj. split.
  - unfold nth2, get_slice. cbn [data]. destruct Hwf as [HT _].
    rewrite (nth_map_lt _ _ _ []) by lia. rewrite nth_firstn_lt by assumption. apply nth_skipn_add.
  - unfold fs, get_slice. cbn [fmin df]. unfold fs. rewrite nq_plus. ring.
Qed.

Theorem slice_meta fr l r : (l < r)%nat ->
  let s := get_slice fr l r in
  T s = T fr /\ F s = (r - l)%nat /\ df s = df fr /\ dt s = dt fr /\ ascending s = ascending fr /\
  t_start s = t_start fr /\ source s = source fr /\
  (ascending fr = true -> fch1 s = fs fr l) /\ (ascending fr = false -> fch1 s == fs fr (r - 1)).
Proof.
  intros H s. repeat split; try reflexivity.
  - intros Ha. unfold fch1, s, get_slice. cbn [ascending fmin]. now rewrite Ha.
  - intros Ha. unfold fch1, s, get_slice. cbn [ascending fmin F df]. rewrite Ha. unfold fs. cbn [fmin df].
    replace (r - 1)%nat with (l + (r - l - 1))%nat by lia. rewrite nq_plus. ring.
Qed.

(* ---------------- de-drift ---------------- *)
Lemma nq_nonneg n : 0 <= nq n.
Proof. unfold nq. change 0 with (inject_Z 0). rewrite <- Zle_Qle. lia. Qed.
Lemma nq_le a b : (a <= b)%nat -> nq a <= nq b.
Proof. intros H. unfold nq. rewrite <- Zle_Qle. lia. Qed.

Lemma offset_arg_mono fr d i k : 0 < dt fr -> 0 < df fr -> (i <= k)%nat ->
  Qabs d * nq i * dt fr / df fr <= Qabs d * nq k * dt fr / df fr.
Proof.
  intros Ht Hf H. pose proof (nq_le i k H) as Hn. pose proof (Qabs_nonneg d) as Ha.
  assert (Hinv : 0 < / df fr) by now apply Qinv_lt_0_compat.
  unfold Qdiv. apply Qmult_le_compat_r; [|lra]. apply Qmult_le_compat_r; [|lra]. nra.
Qed.

Lemma offset_mono fr d i k : 0 < dt fr -> 0 < df fr -> (i <= k)%nat -> (offset fr d i <= offset fr d k)%nat.
Proof.
  intros Ht Hf H. unfold offset.
  pose proof (rhe_mono _ _ (offset_arg_mono fr d i k Ht Hf H)). lia.
Qed.

Lemma offset_0 fr d : offset fr d 0 = 0%nat.
Proof.
  unfold offset. assert (E : Qabs d * nq 0 * dt fr / df fr == inject_Z 0).
  { unfold nq. cbn. unfold Qdiv. ring. }
  rewrite E, rhe_Z. reflexivity.
Qed.

(* row i of the de-drifted frame is row i of the input shifted by its offset towards the start of the drift *)
Theorem dedrift_shift fr d out i j : wf fr -> 0 < dt fr -> 0 < df fr -> dedrift fr d = Ok out ->
  (i < T fr)%nat -> (j < F out)%nat ->
  let mo := max_offset fr d in let off := offset fr d i in
  (F out = (F fr - mo)%nat) /\ ((off <= mo)%nat) /\ ((mo < F fr)%nat) /\ 
  (nth2 0 (data out) i j = (if Qle_bool 0 d then nth2 0 (data fr) i (off + j)%nat else nth2 0 (data fr) i (mo - off + j)%nat)).
Proof.
  intros Hwf Ht Hf Hd Hi Hj mo off. unfold dedrift in Hd. fold mo in Hd.
  destruct (Nat.leb_spec (F fr) mo) as [L|L]; [discriminate|]. inversion Hd; subst out. cbn [F data] in *.
  assert (Hoff : (off <= mo)%nat) by (apply offset_mono; try assumption; lia).
  repeat split; try assumption.
  unfold nth2. rewrite (nth_map_lt _ _ _ 0%nat) by (rewrite seq_length; assumption). rewrite seq_nth by assumption. cbn [Nat.add].
  unfold dedrift_row. fold off. destruct (Qle_bool 0 d).
  - rewrite nth_firstn_lt by assumption. apply nth_skipn_add.
  - rewrite nth_firstn_lt by assumption. rewrite nth_skipn_add. f_equal. lia.
Qed.

(* row 0 is not shifted, and the output axis labels each of its pixels with that pixel's input frequency *)
Theorem dedrift_row0 fr d out j : wf fr -> 0 < dt fr -> 0 < df fr -> dedrift fr d = Ok out ->
  (0 < T fr)%nat -> (j < F out)%nat ->
  let src := if Qle_bool 0 d then j else (max_offset fr d + j)%nat in
  nth2 0 (data out) 0 j = nth2 0 (data fr) 0 src /\ fs out j == fs fr src.
Proof.
  intros Hwf Ht Hf Hd HT Hj src.
  destruct (dedrift_shift fr d out 0 j Hwf Ht Hf Hd HT Hj) as (_ & _ & _ & Hp).
  rewrite offset_0 in Hp. rewrite Nat.sub_0_r in Hp. cbn [Nat.add] in Hp.
  unfold dedrift in Hd. destruct (F fr <=? max_offset fr d)%nat; [discriminate|]. inversion Hd; subst out.
  unfold src, fs. cbn [fmin df]. destruct (Qle_bool 0 d); split; try exact Hp.
  - unfold fs. unfold nq at 1. cbn. ring.
  - unfold fs. rewrite nq_plus. ring.
Qed.

(* rates that would leave no channels are rejected, and only those *)
Theorem dedrift_reject fr d : dedrift fr d = Err <-> (F fr <= max_offset fr d)%nat.
Proof. unfold dedrift. destruct (Nat.leb_spec (F fr) (max_offset fr d)); split; intros; try reflexivity; try discriminate; try assumption; lia. Qed.

(* a constant-drift path c0 + D*i lands within half a channel of column c0 after the shift *)
Theorem dedrift_straightens fr d i : 0 <= Qabs d * nq i * dt fr / df fr ->
  Qabs ((Qabs d * nq i * dt fr / df fr) - nq (offset fr d i)) <= 1#2.
Proof.
  intros Hpos. unfold offset. set (x := Qabs d * nq i * dt fr / df fr) in *.
  assert (H0 : (0 <= rhe x)%Z) by (rewrite <- (rhe_Z 0); now apply rhe_mono).
  unfold nq. rewrite Z2Nat.id by assumption. apply rhe_near.
Qed.

Theorem dedrift_meta fr d out : dedrift fr d = Ok out ->
  T out = T fr /\ df out = df fr /\ dt out = dt fr /\ ascending out = ascending fr /\ t_start out = t_start fr /\ source out = source fr.
Proof. unfold dedrift. destruct (F fr <=? max_offset fr d)%nat; [discriminate|]. intros H. inversion H; subst. repeat split. Qed.

(* ---------------- integration ---------------- *)
Theorem timeseries_value fr m i : wf fr -> (i < T fr)%nat ->
  nth i (timeseries fr m) 0 = (let s := qsum (nth i (data fr) []) in if m then s / nq (F fr) else s).
Proof. intros [HT _] Hi. unfold timeseries. rewrite (nth_map_lt _ _ _ []) by lia. reflexivity. Qed.

Theorem spectrum_value fr m j : (j < F fr)%nat ->
  nth j (spectrum fr m) 0 = (let s := qsum (column (data fr) j) in if m then s / nq (T fr) else s).
Proof. intros Hj. unfold spectrum. now rewrite nth_tab. Qed.

(* ---------------- normalisation: an affine map of the integrated vector ---------------- *)
Lemma nq_S n : nq (S n) == nq n + 1.
Proof. unfold nq. rewrite Nat2Z.inj_succ. unfold Z.succ. rewrite inject_Z_plus. reflexivity. Qed.
Lemma nq_len_nz {A} (l : list A) : l <> [] -> ~ nq (length l) == 0.
Proof. intros Hl. unfold nq. destruct l; [congruence|]. cbn [length]. intros E. unfold Qeq in E. cbn in E. lia. Qed.
Lemma normalise_length m s l : length (normalise m s l) = length l.
Proof. apply map_length. Qed.
Lemma qsum_normalise m s l : ~ s == 0 -> qsum (normalise m s l) == (qsum l - nq (length l) * m) / s.
Proof.
  intros Hs. unfold normalise, qsum. induction l as [|x l IH]; cbn [map fold_right length].
  - unfold nq. cbn. field. exact Hs.
  - rewrite IH, nq_S. field. exact Hs.
Qed.
Theorem normalise_mean m s l : l <> [] -> ~ s == 0 -> vmean (normalise m s l) == (vmean l - m) / s.
Proof.
  intros Hl Hs. unfold vmean. rewrite normalise_length, qsum_normalise by exact Hs. field.
  repeat split; first [exact Hs | now apply nq_len_nz].
Qed.
Lemma vsumsq_proper l mu1 mu2 : mu1 == mu2 -> vsumsq l mu1 == vsumsq l mu2.
Proof. intros E. induction l as [|x l IH]; cbn [vsumsq]; [reflexivity|]. rewrite IH, E. reflexivity. Qed.
Lemma vsumsq_normalise m s mu l : ~ s == 0 -> vsumsq (normalise m s l) ((mu - m) / s) == vsumsq l mu / (s * s).
Proof.
  intros Hs. unfold normalise. induction l as [|x l IH]; cbn [map vsumsq].
  - field. exact Hs.
  - rewrite IH. field. exact Hs.
Qed.
Theorem normalise_var m s l : l <> [] -> ~ s == 0 -> vvar (normalise m s l) == vvar l / (s * s).
Proof.
  intros Hl Hs. unfold vvar. rewrite normalise_length.
  rewrite (vsumsq_proper _ _ _ (normalise_mean m s l Hl Hs)), vsumsq_normalise by exact Hs.
  field. repeat split; first [exact Hs | now apply nq_len_nz].
Qed.
(* with the vector's own mean and deviation (what the sigma clipping returns when it rejects nothing): mean 0, variance 1 *)
Theorem normalise_standard s l : l <> [] -> ~ s == 0 -> s * s == vvar l ->
  vmean (normalise (vmean l) s l) == 0 /\ vvar (normalise (vmean l) s l) == 1.
Proof.
  intros Hl Hs Hv. split.
  - rewrite normalise_mean by assumption. field. exact Hs.
  - rewrite normalise_var by assumption. rewrite <- Hv. field. exact Hs.
Qed.
(* values keep their order (s > 0), so the normalised spectrum / time series peaks where the integration does *)
Theorem normalise_monotone m s x y : 0 < s -> x <= y -> (x - m) / s <= (y - m) / s.
Proof.
  intros Hs Hxy. unfold Qdiv. apply Qmult_le_compat_r; [lra|]. apply Qlt_le_weak, Qinv_lt_0_compat. exact Hs.
Qed.
Theorem normalise_nth m s l i : (i < length l)%nat -> nth i (normalise m s l) 0 == (nth i l 0 - m) / s.
Proof.
  intros Hi. unfold normalise. rewrite (nth_indep _ 0 ((0 - m) / s)) by (rewrite map_length; exact Hi).
  rewrite (map_nth (fun x => (x - m) / s) l 0 i). reflexivity.
Qed.
