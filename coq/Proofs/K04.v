(* The definitions of Kernels/Gen04.v -- regenerated on every run from /repo's current source by tools/py2v.py --
   equal the hand-written model functions the C04 theorems speak about.  An edit of one of those source lines
   changes Gen04.v and with it these obligations. *)
From Coq Require Import List ZArith QArith Qround Qabs Lia Lqa Bool.
From SV Require Import Base.Rounding Kernels.Gen04 Model.Header.
Local Open Scope Q_scope.

Lemma k_header_padding n : Z.of_nat (pad_len n true) = src_header_padding (Z.of_nat n).
Proof.
  unfold pad_len, src_header_padding.
  rewrite Nat2Z.inj_mod, Nat2Z.inj_sub by (pose proof (Nat.mod_upper_bound (80 * n) 512 ltac:(lia)); lia).
  rewrite Nat2Z.inj_mod, Nat2Z.inj_mul. change (Z.of_nat 512) with 512%Z. change (Z.of_nat 80) with 80%Z.
  pose proof (Z.mod_pos_bound (80 * Z.of_nat n) 512 ltac:(lia)) as B.
  destruct (Z.eq_dec ((80 * Z.of_nat n) mod 512) 0) as [E|E].
  - rewrite E. rewrite Z.sub_0_r, Z.mod_same by lia. symmetry. apply Z.mod_opp_l_z; [lia|exact E].
  - rewrite Z.mod_small by lia. symmetry. rewrite Z.mod_opp_l_nz by (try lia; exact E). reflexivity.
Qed.
