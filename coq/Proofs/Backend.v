From Coq Require Import List ZArith QArith Qround Lia Lqa Bool.
From SV Require Import Base.PySeq Model.Backend.
Import ListNotations.
Local Open Scope Z_scope.

Lemma cdiv_pos a b : 1 <= a -> 1 <= b -> 1 <= cdiv a b.
Proof. intros. unfold cdiv. apply Z.div_le_lower_bound; lia. Qed.

Lemma partition_sum w nsub :
  1 <= w -> 1 <= nsub ->
  let ws := cdiv w nsub in
  let n' := cdiv w ws in
  let last := if (w mod ws =? 0) then ws else w mod ws in
  1 <= ws /\ 1 <= n' /\ 1 <= last <= ws /\ (n' - 1) * ws + last = w.
Proof.
  intros Hw Hn ws n' last.
  assert (Hws : 1 <= ws) by (apply cdiv_pos; lia).
  assert (Hdm := Z.div_mod w ws ltac:(lia)).
  assert (Hmod := Z.mod_pos_bound w ws ltac:(lia)).
  unfold n', cdiv, last.
  destruct (Z.eqb_spec (w mod ws) 0) as [E|E].
  - rewrite E in Hdm.
    assert (Hq : (w + ws - 1) / ws = w / ws).
    { replace (w + ws - 1) with ((ws - 1) + (w / ws) * ws) by lia.
      rewrite Z.div_add by lia. rewrite Z.div_small by lia. lia. }
    rewrite Hq. assert (1 <= w / ws) by nia. repeat split; try lia; nia.
  - assert (Hq : (w + ws - 1) / ws = w / ws + 1).
    { replace (w + ws - 1) with ((w mod ws - 1) + (w / ws + 1) * ws) by lia.
      rewrite Z.div_add by lia. rewrite Z.div_small by lia. lia. }
    rewrite Hq. assert (0 <= w / ws) by (apply Z.div_pos; lia).
    repeat split; try lia; nia.
Qed.

Lemma zsuml_app a b : zsuml (a ++ b) = zsuml a + zsuml b.
Proof. unfold zsuml. induction a as [|x a IH]; cbn [app fold_right]; lia. Qed.

Lemma zsuml_const (f : nat -> Z) c m : (forall s, (s < m)%nat -> f s = c) ->
  zsuml (map f (seq 0 m)) = Z.of_nat m * c.
Proof.
  induction m as [|m IH]; intros H; [reflexivity|].
  rewrite seq_S, map_app, zsuml_app, IH by (intros; apply H; lia).
  cbn [map Nat.add]. replace (zsuml [f m]) with (f m) by (unfold zsuml; cbn [fold_right]; lia). rewrite (H m) by lia. lia.
Qed.

(* the per-sub-block window counts: positive, at most ws, all equal to ws except possibly the
   last, and they sum to the block's windows -- for EVERY requested sub-block count >= 1 *)
Theorem plan_sum w nsub : 1 <= w -> 1 <= nsub ->
  zsuml (plan w nsub) = w /\
  Forall (fun k => 1 <= k <= ws_of w nsub) (plan w nsub) /\
  length (plan w nsub) = Z.to_nat (nsub_eff w nsub) /\ 1 <= nsub_eff w nsub.
Proof.
  intros Hw Hn. destruct (partition_sum w nsub Hw Hn) as (Hws & Hn' & Hlast & Hsum).
  fold (ws_of w nsub) in *. fold (nsub_eff w nsub) in *.
  set (ws := ws_of w nsub) in *. set (n' := nsub_eff w nsub) in *.
  unfold plan. fold n'. repeat split; [| |now rewrite map_length, seq_length|assumption].
  - destruct (Z.to_nat n') as [|m] eqn:Em; [lia|].
    rewrite seq_S, map_app, zsuml_app. cbn [map Nat.add].
    rewrite (zsuml_const _ ws).
    + unfold zsuml. cbn [fold_right]. unfold sub_windows. fold ws n'.
      replace (Z.of_nat m =? n' - 1) with true by (symmetry; apply Z.eqb_eq; lia).
      destruct (w mod ws =? 0) eqn:E; cbn [negb andb]; lia.
    + intros s Hs. unfold sub_windows. fold ws n'.
      replace (Z.of_nat s =? n' - 1) with false by (symmetry; apply Z.eqb_neq; lia).
      now rewrite andb_false_r.
  - apply Forall_forall. intros k Hk. apply in_map_iff in Hk. destruct Hk as (s & <- & _).
    unfold sub_windows. fold ws n'.
    destruct (negb (w mod ws =? 0) && (Z.of_nat s =? n' - 1)) eqn:E; [|lia].
    apply andb_true_iff in E. destruct E as [E _]. apply negb_true_iff in E. rewrite E in Hlast. lia.
Qed.

(* constructor: exact division, and a whole number of PFB windows per block *)
Theorem spb_exact c : 1 <= nants c -> 1 <= nchans c -> 1 <= taps c -> 1 <= bps c ->
  admitted c = true ->
  spb c * (nants c * nchans c * bps c) = block_size c /\ spb c mod taps c = 0 /\
  spb c = taps c * (spb c / taps c).
Proof.
  intros Ha Hc Ht Hb Had. unfold admitted in Had. apply Z.eqb_eq in Had.
  apply Z.mod_divide in Had; [|nia]. destruct Had as [q Hq].
  assert (E : spb c = q * taps c).
  { unfold spb. rewrite Hq. replace (q * (nants c * nchans c * taps c * bps c)) with ((q * taps c) * (nants c * nchans c * bps c)) by ring.
    apply Z.div_mul. nia. }
  assert (M : spb c mod taps c = 0) by (rewrite E; apply Z.mod_mul; lia).
  repeat split; [rewrite E, Hq; ring|exact M|].
  apply Z.div_exact in M; [exact M|lia].
Qed.

Lemma zsuml_map_mul k l : zsuml (map (fun x => k * x) l) = k * zsuml l.
Proof. unfold zsuml. induction l as [|x l IH]; cbn [map fold_right]; lia. Qed.

(* samples requested from the antenna while one block is produced *)
Theorem requests_sum c nsub start : 1 <= taps c -> 1 <= spb c / taps c -> 1 <= nsub ->
  spb c = taps c * (spb c / taps c) ->
  zsuml (requests c nsub start) = spb c * nb c + (if start then win c else 0).
Proof.
  intros Ht Hw Hn Hdiv. unfold requests.
  destruct (plan_sum (spb c / taps c) nsub Hw Hn) as (Hsum & _ & Hlen & Hpos).
  destruct (plan (spb c / taps c) nsub) as [|k r] eqn:E; [cbn in Hlen; lia|].
  unfold zsuml in *. cbn [fold_right] in *. fold (zsuml (map (fun k0 => win c * k0) r)). rewrite zsuml_map_mul.
  fold (zsuml r) in Hsum. unfold win. destruct start; rewrite Hdiv at 1; nia.
Qed.

(* a recording of n >= 1 blocks draws n*spb*nb samples plus one warm-up window *)
Theorem recording_draws c : 1 <= taps c -> 1 <= spb c / taps c -> spb c = taps c * (spb c / taps c) ->
  forall n nsub start, 1 <= nsub ->
  zsuml (map zsuml (block_requests c nsub start n)) = Z.of_nat n * (spb c * nb c) + (if start then (if n then 0 else win c) else 0).
Proof.
  intros Ht Hw Hdiv. induction n as [|n IH]; intros nsub start Hn; [destruct start; reflexivity|].
  cbn [block_requests map]. unfold zsuml at 1. cbn [fold_right]. fold (zsuml (map zsuml (block_requests c (nsub_eff (spb c / taps c) nsub) false n))).
  rewrite requests_sum by assumption.
  rewrite IH by (apply (plan_sum (spb c / taps c) nsub Hw Hn)).
  destruct start; lia.
Qed.

(* blocks are distributed blocks_per_file at a time; the counts add up *)
Theorem files_sum c n : 1 <= blocks_per_file c -> 1 <= n ->
  zsuml (map (fun i => blocks_in_file c n (Z.of_nat i)) (seq 0 (Z.to_nat (num_files c n)))) = n.
Proof.
  intros Hb Hn. unfold blocks_in_file, num_files.
  set (b := blocks_per_file c). assert (Hdm := Z.div_mod n b ltac:(lia)). assert (Hm := Z.mod_pos_bound n b ltac:(lia)).
  destruct (Z.eqb_spec (n mod b) 0) as [E|E].
  - assert (Hq : cdiv n b = n / b).
    { unfold cdiv. replace (n + b - 1) with ((b - 1) + (n / b) * b) by lia. rewrite Z.div_add by lia. rewrite Z.div_small by lia. lia. }
    rewrite Hq. rewrite (zsuml_const _ b); [rewrite Z2Nat.id; [nia|apply Z.div_pos; lia]|].
    intros s _. now rewrite andb_false_r.
  - assert (Hq : cdiv n b = n / b + 1).
    { unfold cdiv. replace (n + b - 1) with ((n mod b - 1) + (n / b + 1) * b) by lia. rewrite Z.div_add by lia. rewrite Z.div_small by lia. lia. }
    rewrite Hq. assert (0 <= n / b) by (apply Z.div_pos; lia).
    replace (Z.to_nat (n / b + 1)) with (S (Z.to_nat (n / b))) by lia.
    rewrite seq_S, map_app, zsuml_app. cbn [map Nat.add].
    rewrite (zsuml_const _ b).
    + unfold zsuml. cbn [fold_right]. replace (Z.of_nat (Z.to_nat (n / b)) =? n / b + 1 - 1) with true by (symmetry; apply Z.eqb_eq; lia).
      cbn [negb andb]. rewrite Z2Nat.id by lia. lia.
    + intros s Hs. replace (Z.of_nat s =? n / b + 1 - 1) with false by (symmetry; apply Z.eqb_neq; lia). reflexivity.
Qed.

(* get_block_size gives a block that holds exactly tchans_per_block*fftlength*int_factor spectra *)
Theorem helper_block_size na tpb nbits_ npols_ nch ffl intf taps_ nb_ bpf :
  1 <= na -> 1 <= nch -> 1 <= (2 * npols_ * nbits_) / 8 ->
  let c := {| nants := na; npols := npols_; nbits := nbits_; nchans := nch; taps := taps_; nb := nb_;
              block_size := get_block_size na tpb nbits_ npols_ nch ffl intf; blocks_per_file := bpf |} in
  spb c = tpb * ffl * intf.
Proof.
  intros Ha Hc Hb c. unfold c, spb, bps. cbn [block_size nants nchans npols nbits]. unfold get_block_size.
  remember (2 * npols_ * nbits_ / 8) as b.
  replace (tpb * ffl * intf * (nch * na) * b) with ((tpb * ffl * intf) * (na * nch * b)) by ring.
  apply Z.div_mul. nia.
Qed.

(* requesting a duration: whole blocks, not exceeding it, short by less than one block (exact arithmetic) *)
Local Open Scope Q_scope.
Theorem duration_bracket (obs tpb : Q) : 0 < tpb ->
  let n := Qfloor (obs / tpb) in
  inject_Z n * tpb <= obs /\ obs < (inject_Z n + 1) * tpb.
Proof.
  intros Hp n. assert (H1 := Qfloor_le (obs / tpb)). assert (H2 := Qlt_floor (obs / tpb)). fold n in H1, H2.
  rewrite inject_Z_plus in H2. change (inject_Z 1) with 1 in H2.
  assert (E : (obs / tpb) * tpb == obs) by (field; lra).
  split.
  - apply Qle_trans with ((obs / tpb) * tpb); [apply Qmult_le_compat_r; lra | rewrite E; apply Qle_refl].
  - apply Qle_lt_trans with ((obs / tpb) * tpb); [rewrite E; apply Qle_refl | apply Qmult_lt_compat_r; lra].
Qed.

(* the recorded block count never exceeds what was asked for nor what the input holds, and is the request when the input suffices *)
Theorem effective_blocks_spec requested input n : effective_blocks requested input = Some n ->
  (forall m, input = Some m -> n <= m)%Z /\ (forall k, requested = Some k -> n <= k)%Z /\
  (forall k, requested = Some k -> (forall m, input = Some m -> k <= m)%Z -> n = k) /\
  (requested = None -> input = Some n).
Proof.
  unfold effective_blocks. destruct requested as [k|], input as [m|]; intros H; inversion H; subst; clear H; repeat split; intros;
    repeat match goal with E : Some _ = Some _ |- _ => inversion E; subst; clear E end; try congruence; try lia.
  match goal with H0 : forall m0, Some _ = Some m0 -> _ |- _ => specialize (H0 _ eq_refl); lia end.
Qed.
Theorem effective_blocks_none requested input : effective_blocks requested input = None <-> (requested = None /\ input = None).
Proof. unfold effective_blocks. destruct requested, input; split; intros H; try discriminate; try (destruct H; discriminate); auto. Qed.
