From Coq Require Import List Arith ZArith QArith Qround Lia Lqa Bool.
From SV Require Import Base.Tab Base.Rounding Model.Signal.
Import ListNotations.
Local Open Scope Q_scope.

(* ---------------- list plumbing ---------------- *)
Lemma nth_repeat_lt {A} (c d : A) n k : (k < n)%nat -> nth k (repeat c n) d = c.
Proof. revert k. induction n as [|n IH]; intros k H; [lia|]. destruct k; cbn; [reflexivity|]. apply IH. lia. Qed.

Lemma nth_map_lt {A B} (f : A -> B) l k dA dB : (k < length l)%nat -> nth k (map f l) dB = f (nth k l dA).
Proof. revert k. induction l as [|x l IH]; intros k H; [cbn in H; lia|]. destruct k; cbn; [reflexivity|]. apply IH. cbn in H. lia. Qed.

Lemma tab_const {A} (c : A) n : tab n (fun _ => c) = repeat c n.
Proof.
  unfold tab. induction n as [|n IH]; [reflexivity|]. rewrite seq_S, map_app, IH. cbn.
  clear IH. induction n as [|n IH]; [reflexivity|]. cbn. now rewrite IH.
Qed.

(* Python  row[lo:hi] += srow  , element by element *)
Lemma nth_add_slice lo hi row srow j : (lo <= hi)%nat -> (hi <= length row)%nat -> (j < length row)%nat ->
  nth j (add_slice lo hi row srow) 0 =
  if (lo <=? j)%nat && (j <? hi)%nat then nth j row 0 + nth (j - lo) srow 0 else nth j row 0.
Proof.
  intros H1 H2 Hj. unfold add_slice.
  destruct (Nat.leb_spec lo j) as [L|L]; cbn [andb].
  - rewrite app_nth2 by (rewrite firstn_length; lia). rewrite firstn_length, Nat.min_l by lia.
    destruct (Nat.ltb_spec j hi) as [U|U].
    + rewrite app_nth1 by (rewrite map_length, seq_length; lia).
      rewrite (nth_map_lt _ _ _ 0%nat) by (rewrite seq_length; lia). rewrite seq_nth by lia. cbn [Nat.add].
      replace (lo + (j - lo))%nat with j by lia. reflexivity.
    + rewrite app_nth2 by (rewrite map_length, seq_length; lia). rewrite map_length, seq_length.
      rewrite nth_skipn_add. f_equal. lia.
  - rewrite app_nth1 by (rewrite firstn_length; lia). now rewrite nth_firstn_lt.
Qed.
Lemma add_slice_length lo hi row srow : (lo <= hi)%nat -> (hi <= length row)%nat ->
  length (add_slice lo hi row srow) = length row.
Proof. intros. unfold add_slice. rewrite !app_length, firstn_length, map_length, seq_length, skipn_length. lia. Qed.

Lemma nth_pad_row Fn lo hi srow j : (lo <= hi)%nat -> (hi <= Fn)%nat -> (j < Fn)%nat -> (hi - lo <= length srow)%nat ->
  nth j (pad_row Fn lo hi srow) 0 = if (lo <=? j)%nat && (j <? hi)%nat then nth (j - lo) srow 0 else 0.
Proof.
  intros H1 H2 Hj Hl. unfold pad_row.
  destruct (Nat.leb_spec lo j) as [L|L]; cbn [andb].
  - rewrite app_nth2 by (rewrite repeat_length; lia). rewrite repeat_length.
    destruct (Nat.ltb_spec j hi) as [U|U].
    + rewrite app_nth1 by (rewrite firstn_length; lia). apply nth_firstn_lt. lia.
    + rewrite app_nth2 by (rewrite firstn_length; lia). rewrite firstn_length, Nat.min_l by lia.
      apply nth_repeat_lt. lia.
  - rewrite app_nth1 by (rewrite repeat_length; lia). now apply nth_repeat_lt.
Qed.

(* ---------------- the bounding range is always a valid slice ---------------- *)
Theorem bounds_range fr br : let '(lo, hi) := bounds fr br in (lo <= hi)%nat /\ (hi <= F fr)%nat.
Proof.
  unfold bounds. destruct br as [[b0 b1]|]; [|split; lia].
  unfold clampZ. split; [lia|]. apply Nat.max_lub; lia.
Qed.

(* ---------------- structure of a successful injection ---------------- *)
Definition wf (fr : frame) := length (data fr) = T fr /\ Forall (fun r => length r = F fr) (data fr).

Lemma wf_row fr i : wf fr -> (i < T fr)%nat -> length (nth i (data fr) []) = F fr.
Proof. intros [HT HF] Hi. eapply Forall_forall in HF; [exact HF|]. apply nth_In. lia. Qed.

Section Injection.
Variables (fr : frame) (path tp : comp) (fp : Q -> Q -> Q) (bp : option comp) (br : option (Q * Q)) (o : opts).
Variables (fr' : frame) (ret : list (list Q)).
Hypothesis Hwf : wf fr.
Hypothesis Hok : add_signal fr path tp fp bp br o = Ok (fr', ret).

Let lo := fst (bounds fr br).
Let hi := snd (bounds fr br).

Lemma lohi : (lo <= hi)%nat /\ (hi <= F fr)%nat.
Proof. pose proof (bounds_range fr br) as H. unfold lo, hi. destruct (bounds fr br). exact H. Qed.

(* the signal on the restricted grid, as the model computes it *)
Definition sig_of : option (list (list Q)) :=
  match t_values fr o tp, path_values fr o path, bp_values (rgrid fr o lo (hi - lo)) bp with
  | Ok tv, Ok pv, Ok bv =>
      let grid := rgrid fr o lo (hi - lo) in
      let px := if smear o then pixel_smear fp (n_smear o) tv pv bv grid else pixel_plain fp tv pv bv grid in
      Some (mk (T fr) (hi - lo) (fmean o px))
  | _, _, _ => None
  end.

Lemma unfold_ok : exists sig, sig_of = Some sig /\
  data fr' = map (fun i => add_slice lo hi (nth i (data fr) []) (nth i sig [])) (seq 0 (T fr)) /\
  ret = map (fun i => pad_row (F fr) lo hi (nth i sig [])) (seq 0 (T fr)) /\
  T fr' = T fr /\ F fr' = F fr /\ df fr' = df fr /\ dt fr' = dt fr /\ fmin fr' = fmin fr.
Proof.
  revert Hok. unfold add_signal, sig_of, lo, hi. destruct (bounds fr br) as [l h]. cbn [fst snd].
  destruct (t_values fr o tp) as [tv|e]; [|discriminate].
  destruct (path_values fr o path) as [pv|e]; [|discriminate].
  destruct (bp_values _ bp) as [bv|e]; [|discriminate].
  intros H. inversion H; subst. eexists. repeat split; reflexivity.
Qed.

Lemma sig_row_length sig i : sig_of = Some sig -> (i < T fr)%nat -> length (nth i sig []) = (hi - lo)%nat.
Proof.
  unfold sig_of. destruct (t_values fr o tp); [|discriminate]. destruct (path_values fr o path); [|discriminate].
  destruct (bp_values _ bp); [|discriminate]. intros H Hi. inversion H; subst.
  unfold mk. rewrite nth_tab by assumption. apply tab_length.
Qed.

(* the frame's axes, shape and resolutions are unchanged *)
Theorem state_preserved : T fr' = T fr /\ F fr' = F fr /\ df fr' = df fr /\ dt fr' = dt fr /\ fmin fr' = fmin fr /\ wf fr'.
Proof.
  destruct unfold_ok as (sig & Hs & Hd & Hr & H1 & H2 & H3 & H4 & H5).
  repeat split; try assumption.
  - rewrite Hd, H1. now rewrite map_length, seq_length.
  - rewrite Hd, H2. apply Forall_forall. intros r Hin. apply in_map_iff in Hin. destruct Hin as (i & <- & Hi). apply in_seq in Hi.
    destruct lohi as [L1 L2]. rewrite add_slice_length; [apply wf_row; [assumption|lia] | assumption | rewrite wf_row by (assumption || lia); assumption].
Qed.

(* pixels outside the bounding range are literally untouched, and the returned signal is zero there *)
Theorem untouched i j : (i < T fr)%nat -> (j < F fr)%nat -> ~ (lo <= j < hi)%nat ->
  nth2 0 (data fr') i j = nth2 0 (data fr) i j /\ nth2 0 ret i j = 0.
Proof.
  intros Hi Hj Hout. destruct unfold_ok as (sig & Hs & Hd & Hr & _). destruct lohi as [L1 L2].
  unfold nth2. rewrite Hd, Hr.
  rewrite !(nth_map_lt _ _ _ 0%nat) by (rewrite seq_length; assumption). rewrite !seq_nth by assumption. cbn [Nat.add].
  rewrite nth_add_slice by (try assumption; rewrite wf_row by assumption; assumption).
  rewrite nth_pad_row by (try assumption; rewrite (sig_row_length sig i Hs Hi); lia).
  destruct (Nat.leb_spec lo j); destruct (Nat.ltb_spec j hi); cbn [andb]; try (split; reflexivity). lia.
Qed.

(* the frame's data changes by exactly the returned array *)
Theorem additive i j : (i < T fr)%nat -> (j < F fr)%nat ->
  nth2 0 (data fr') i j == nth2 0 (data fr) i j + nth2 0 ret i j.
Proof.
  intros Hi Hj. destruct unfold_ok as (sig & Hs & Hd & Hr & _). destruct lohi as [L1 L2].
  unfold nth2. rewrite Hd, Hr.
  rewrite !(nth_map_lt _ _ _ 0%nat) by (rewrite seq_length; assumption). rewrite !seq_nth by assumption. cbn [Nat.add].
  rewrite nth_add_slice by (try assumption; rewrite wf_row by assumption; assumption).
  rewrite nth_pad_row by (try assumption; rewrite (sig_row_length sig i Hs Hi); lia).
  destruct ((lo <=? j)%nat && (j <? hi)%nat); [reflexivity|ring].
Qed.

(* inside the range the returned value is the model's pixel on the restricted grid *)
Lemma ret_inside sig i j : sig_of = Some sig -> (i < T fr)%nat -> (lo <= j < hi)%nat -> nth2 0 ret i j = nth2 0 sig i (j - lo).
Proof.
  intros Hs Hi Hj. destruct unfold_ok as (sig' & Hs' & _ & Hr & _). rewrite Hs in Hs'. inversion Hs'; subst sig'.
  destruct lohi as [L1 L2]. unfold nth2. rewrite Hr.
  rewrite (nth_map_lt _ _ _ 0%nat) by (rewrite seq_length; assumption). rewrite seq_nth by assumption. cbn [Nat.add].
  rewrite nth_pad_row by (try lia; rewrite (sig_row_length sig i Hs Hi); lia).
  destruct (Nat.leb_spec lo j); destruct (Nat.ltb_spec j hi); cbn [andb]; try lia. reflexivity.
Qed.
End Injection.

(* ---------------- the value inside the range ---------------- *)

(* plain injection with callable components: t_profile(t_i) * f_profile(f_j, path(t_i)) * bandpass(f_j) *)
Theorem plain_formula fr p tpf fp b br fr' ret i j : wf fr ->
  add_signal fr (CFun p) (CFun tpf) fp (Some (CFun b)) br no_opts = Ok (fr', ret) ->
  (i < T fr)%nat -> (fst (bounds fr br) <= j < snd (bounds fr br))%nat ->
  nth2 0 ret i j = spec_pixel fr p tpf fp b i j.
Proof.
  intros Hwf Hok Hi Hj.
  set (lo := fst (bounds fr br)) in *. set (hi := snd (bounds fr br)) in *.
  pose (sig := mk (T fr) (hi - lo) (fmean no_opts (pixel_plain fp (tab (T fr) (fun i0 => tpf (ts fr i0))) (tab (T fr) (fun i0 => p (ts fr i0)))
                                                              (map b (rgrid fr no_opts lo (hi - lo))) (rgrid fr no_opts lo (hi - lo))))).
  assert (Hs : sig_of fr (CFun p) (CFun tpf) fp (Some (CFun b)) br no_opts = Some sig) by reflexivity.
  rewrite (ret_inside fr (CFun p) (CFun tpf) fp (Some (CFun b)) br no_opts fr' ret Hok sig i j Hs Hi Hj).
  unfold sig. rewrite nth2_mk by (assumption || (fold lo hi in Hj; lia)).
  unfold fmean, no_opts, pixel_plain, spec_pixel. cbn [integrate_f].
  unfold rgrid. cbn [integrate_f].
  rewrite !nth_tab by assumption.
  rewrite (nth_map_lt b _ _ 0) by (rewrite tab_length; fold lo hi in Hj; lia).
  rewrite nth_tab by (fold lo hi in Hj; lia).
  subst lo hi. replace (fst (bounds fr br) + (j - fst (bounds fr br)))%nat with j by lia.
  repeat rewrite nth_tab by assumption. reflexivity.
Qed.

(* array and scalar forms that agree with a callable on the frame's own grid are normalised to the same values *)
Theorem forms_agree fr f c :
  t_values fr no_opts (CArr (tab (T fr) (fun i => f (ts fr i)))) = t_values fr no_opts (CFun f) /\
  path_values fr no_opts (CArr (tab (T fr) (fun i => f (ts fr i)))) = path_values fr no_opts (CFun f) /\
  t_values fr no_opts (CScal c) = t_values fr no_opts (CFun (fun _ => c)) /\
  path_values fr no_opts (CScal c) = path_values fr no_opts (CFun (fun _ => c)) /\
  (forall grid, bp_values grid None = bp_values grid (Some (CScal 1))).
Proof.
  unfold t_values, path_values, teff, no_opts. cbn [integrate_t integrate_path smear].
  rewrite tab_length, Nat.eqb_refl. repeat split; try (now rewrite tab_const).
Qed.

(* a function that answers with the same number at every time stands for that scalar under EVERY option: with smearing (one more
   value), and with sub-sample integration, where the mean of t_sub copies of c is c (D28: the implementation used to raise) *)
Lemma qsum_repeat c n : qsum (repeat c n) == nq n * c.
Proof.
  induction n as [|n IH]; cbn [repeat qsum fold_right]; [unfold nq; cbn; ring|].
  fold (qsum (repeat c n)). rewrite IH. unfold nq. rewrite Nat2Z.inj_succ. unfold Z.succ. rewrite inject_Z_plus. ring.
Qed.
Lemma submean_const fr o c i : (0 < t_sub o)%nat -> submean fr o (fun _ => c) i == c.
Proof.
  intros Hk. unfold submean, qmean. rewrite tab_const, repeat_length, qsum_repeat. field.
  unfold nq. intros E. unfold Qeq in E. cbn in E. lia.
Qed.
Theorem constant_function fr o c :
  (integrate_path o = false -> path_values fr o (CFun (fun _ => c)) = path_values fr o (CScal c)) /\
  (integrate_t o = false -> t_values fr o (CFun (fun _ => c)) = t_values fr o (CScal c)) /\
  ((0 < t_sub o)%nat -> exists l, path_values fr o (CFun (fun _ => c)) = Ok l /\ length l = teff fr o /\ forall i, (i < teff fr o)%nat -> nth i l 0 == c) /\
  ((0 < t_sub o)%nat -> exists l, t_values fr o (CFun (fun _ => c)) = Ok l /\ length l = T fr /\ forall i, (i < T fr)%nat -> nth i l 0 == c).
Proof.
  unfold path_values, t_values. repeat split.
  - intros E. rewrite E. now rewrite tab_const.
  - intros E. rewrite E. now rewrite tab_const.
  - intros Hk. eexists. split; [reflexivity|]. destruct (integrate_path o).
    + split; [apply tab_length|]. intros i Hi. rewrite nth_tab by exact Hi. now apply submean_const.
    + split; [apply tab_length|]. intros i Hi. rewrite nth_tab by exact Hi. reflexivity.
  - intros Hk. eexists. split; [reflexivity|]. destruct (integrate_t o).
    + split; [apply tab_length|]. intros i Hi. rewrite nth_tab by exact Hi. now apply submean_const.
    + split; [apply tab_length|]. intros i Hi. rewrite nth_tab by exact Hi. reflexivity.
Qed.

(* an array path of T+1 values is what Doppler smearing takes; T values without smearing *)
Theorem smear_array_path fr o l : path_values fr o (CArr l) = (if Nat.eqb (length l) (if smear o then S (T fr) else T fr) then Ok l else Err ValueError).
Proof. reflexivity. Qed.

(* Doppler smearing: the accumulating loop is the mean over n copies centred at p, p+dp, p+2dp, ... *)
Fixpoint iter_add (p dp : Q) (m : nat) : Q := match m with O => p | S k => iter_add p dp k + dp end.
Lemma iter_add_closed p dp m : iter_add p dp m == p + nq m * dp.
Proof.
  induction m as [|m IH]; cbn [iter_add]; [unfold nq; cbn; ring|]. rewrite IH. unfold nq.
  rewrite Nat2Z.inj_succ, <- Z.add_1_r, inject_Z_plus. change (inject_Z 1) with 1. ring.
Qed.
Lemma iter_add_shift p dp m : iter_add (p + dp) dp m = iter_add p dp m + dp.
Proof. induction m as [|m IH]; cbn [iter_add]; [reflexivity|]. now rewrite IH. Qed.

Lemma smear_loop_closed fp t f b n k : forall acc p dp,
  smear_loop fp t f b n k acc p dp == acc + qsum (map (fun m => t * fp f (iter_add p dp m) / nq n * b) (seq 0 k)).
Proof.
  induction k as [|k IH]; intros acc p dp; cbn [smear_loop]; [cbn; ring|].
  rewrite IH. cbn [seq map]. unfold qsum at 2. cbn [fold_right]. fold (qsum (map (fun m => t * fp f (iter_add p dp m) / nq n * b) (seq 1 k))).
  rewrite <- seq_shift, !map_map.
  assert (E : map (fun m => t * fp f (iter_add (p + dp) dp m) / nq n * b) (seq 0 k)
              = map (fun m => t * fp f (iter_add p dp (S m)) / nq n * b) (seq 0 k)).
  { apply map_ext. intros m. now rewrite iter_add_shift. }
  rewrite E. cbn [iter_add]. ring.
Qed.

Theorem smear_formula fp n tv pv bv grid i j :
  pixel_smear fp n tv pv bv grid i j ==
  qsum (map (fun m => nth i tv 0 * fp (nth j grid 0) (iter_add (nth i pv 0) ((nth (S i) pv 0 - nth i pv 0) / nq n) m) / nq n * nth j bv 0) (seq 0 n)).
Proof. unfold pixel_smear. rewrite smear_loop_closed. ring. Qed.

(* with one sub-step the smeared pixel is the plain pixel *)
Corollary smear_one fp tv pv bv grid i j : pixel_smear fp 1 tv pv bv grid i j == pixel_plain fp tv pv bv grid i j.
Proof. rewrite smear_formula. cbn [seq map iter_add qsum fold_right]. unfold pixel_plain, nq. cbn. field. Qed.

(* ---------------- superposition ---------------- *)
(* what is returned does not depend on the frame's prior content ... *)
Theorem ret_independent_of_data fr d2 path tp fp bp br o :
  let fr2 := {| T := T fr; F := F fr; df := df fr; dt := dt fr; fmin := fmin fr; t0 := t0 fr; data := d2 |} in
  match add_signal fr path tp fp bp br o, add_signal fr2 path tp fp bp br o with
  | Ok (_, r1), Ok (_, r2) => r1 = r2
  | Err e1, Err e2 => e1 = e2
  | _, _ => False
  end.
Proof.
  intros fr2. unfold add_signal.
  change (bounds fr2 br) with (bounds fr br). destruct (bounds fr br) as [lo hi].
  change (t_values fr2 o tp) with (t_values fr o tp).
  change (path_values fr2 o path) with (path_values fr o path).
  change (rgrid fr2 o lo (hi - lo)) with (rgrid fr o lo (hi - lo)).
  change (T fr2) with (T fr). change (F fr2) with (F fr).
  destruct (t_values fr o tp); [|reflexivity].
  destruct (path_values fr o path); [|reflexivity].
  destruct (bp_values _ bp); reflexivity.
Qed.

(* ... so two successive injections add the two separately computed signals, in either order *)
Theorem superpose (d r1 r2 : Q) : (d + r1) + r2 == (d + r2) + r1 /\ (d + r1) + r2 == d + (r1 + r2).
Proof. split; ring. Qed.

(* ---------------- bounded = unbounded restricted to the range ---------------- *)
Definition simple_bp (bp : option comp) : Prop :=
  match bp with None => True | Some (CScal _) => True | Some (CFun _) => True | Some (CArr _) => False end.

Lemma bp_value_at grid bp bv k : simple_bp bp -> bp_values grid bp = Ok bv -> (k < length grid)%nat ->
  nth k bv 0 = match bp with None => 1 | Some (CScal c) => c | Some (CFun b) => b (nth k grid 0) | Some (CArr _) => 0 end.
Proof.
  intros Hs Hb Hk. destruct bp as [[b|l|c]|]; cbn in Hs, Hb; try contradiction; inversion Hb; subst.
  - now apply nth_map_lt.
  - now apply nth_repeat_lt.
  - now apply nth_repeat_lt.
Qed.

Theorem bounded_eq_unbounded fr path tp fp bp br o frb retb fru retu i j :
  wf fr -> integrate_f o = false -> simple_bp bp ->
  add_signal fr path tp fp bp br o = Ok (frb, retb) ->
  add_signal fr path tp fp bp None o = Ok (fru, retu) ->
  (i < T fr)%nat -> (fst (bounds fr br) <= j < snd (bounds fr br))%nat ->
  nth2 0 retb i j = nth2 0 retu i j.
Proof.
  intros Hwf Hif Hsb Hb Hu Hi Hj.
  pose proof (bounds_range fr br) as BR. destruct (bounds fr br) as [lo hi] eqn:EB. cbn [fst snd] in Hj. destruct BR as [B1 B2].
  (* unfold both computations *)
  assert (Sb := Hb). assert (Su := Hu).
  unfold add_signal in Sb, Su. rewrite EB in Sb. cbn [bounds] in Su.
  destruct (t_values fr o tp) as [tv|] eqn:Et; [|discriminate].
  destruct (path_values fr o path) as [pv|] eqn:Ep; [|discriminate].
  destruct (bp_values (rgrid fr o lo (hi - lo)) bp) as [bvb|] eqn:Ebb; [|discriminate].
  destruct (bp_values (rgrid fr o 0 (F fr - 0)) bp) as [bvu|] eqn:Ebu; [|discriminate].
  set (gb := rgrid fr o lo (hi - lo)) in *. set (gu := rgrid fr o 0 (F fr - 0)) in *.
  set (pxb := if smear o then pixel_smear fp (n_smear o) tv pv bvb gb else pixel_plain fp tv pv bvb gb) in *.
  set (pxu := if smear o then pixel_smear fp (n_smear o) tv pv bvu gu else pixel_plain fp tv pv bvu gu) in *.
  assert (Hsb' : sig_of fr path tp fp bp br o = Some (mk (T fr) (hi - lo) (fmean o pxb))).
  { unfold sig_of. rewrite EB. cbn [fst snd]. rewrite Et, Ep. fold gb. rewrite Ebb. reflexivity. }
  assert (Hsu' : sig_of fr path tp fp bp None o = Some (mk (T fr) (F fr - 0) (fmean o pxu))).
  { unfold sig_of. cbn [bounds fst snd]. rewrite Et, Ep. fold gu. rewrite Ebu. reflexivity. }
  rewrite (ret_inside fr path tp fp bp br o frb retb Hb _ i j Hsb' Hi) by (rewrite EB; cbn [fst snd]; exact Hj).
  rewrite (ret_inside fr path tp fp bp None o fru retu Hu _ i j Hsu' Hi) by (cbn [bounds fst snd]; lia).
  rewrite ?EB. cbn [bounds fst snd]. rewrite ?Nat.sub_0_r.
  rewrite !nth2_mk by lia. unfold fmean. rewrite Hif.
  (* grid and bandpass values coincide *)
  assert (Lgb : length gb = (hi - lo)%nat) by (unfold gb, rgrid; rewrite Hif; apply tab_length).
  assert (Lgu : length gu = F fr) by (unfold gu, rgrid; rewrite Hif, Nat.sub_0_r; apply tab_length).
  assert (Gb : nth (j - lo) gb 0 = fs fr j).
  { unfold gb, rgrid. rewrite Hif. rewrite nth_tab by lia. f_equal. lia. }
  assert (Gu : nth j gu 0 = fs fr j).
  { unfold gu, rgrid. rewrite Hif, Nat.sub_0_r. rewrite nth_tab by lia. reflexivity. }
  assert (Bb := bp_value_at gb bp bvb (j - lo) Hsb Ebb ltac:(lia)).
  assert (Bu := bp_value_at gu bp bvu j Hsb Ebu ltac:(lia)).
  rewrite Gb in Bb. rewrite Gu in Bu.
  assert (BV : nth (j - lo) bvb 0 = nth j bvu 0) by (rewrite Bb, Bu; reflexivity).
  unfold pxb, pxu. destruct (smear o).
  - unfold pixel_smear. rewrite Gb, Gu, BV. reflexivity.
  - unfold pixel_plain. rewrite Gb, Gu, BV. reflexivity.
Qed.
