(* The definitions of Kernels/Gen19.v -- regenerated on every run from /repo's current source by tools/py2v.py --
   equal the hand-written model functions the C19 theorems speak about. *)
From Coq Require Import List Arith ZArith QArith Qround Lia Lqa Bool.
From SV Require Import Base.Rounding Kernels.Gen19 Model.Split.
Local Open Scope Q_scope.

(* the else branch of the generator: taken when the window fits (fchans <= nchans) *)
Lemma k_num_splits nchans fchans s : (fchans <= nchans)%nat -> (1 <= s)%nat ->
  src_num_splits (Z.of_nat nchans) (Z.of_nat fchans) (Z.of_nat s) = Z.of_nat (n_pieces nchans fchans s).
Proof.
  intros Hf Hs. unfold src_num_splits, n_pieces. destruct (Nat.ltb_spec nchans fchans); [lia|].
  rewrite Nat2Z.inj_add, Nat2Z.inj_div, Nat2Z.inj_sub by lia. reflexivity.
Qed.
Lemma k_piece_freqs fch1 foff fchans s i :
  fst (piece_freqs fch1 foff fchans s i) == src_piece_f_start fch1 foff (Z.of_nat i) (Z.of_nat s) /\
  snd (piece_freqs fch1 foff fchans s i) == src_piece_f_stop (src_piece_f_start fch1 foff (Z.of_nat i) (Z.of_nat s)) foff (Z.of_nat fchans).
Proof.
  unfold piece_freqs, src_piece_f_start, src_piece_f_stop, nq. cbn [fst snd].
  rewrite Nat2Z.inj_add, Nat2Z.inj_mul, inject_Z_plus. split; first [reflexivity | ring].
Qed.
Theorem k19_all nchans fchans s fch1 foff i : (fchans <= nchans)%nat -> (1 <= s)%nat ->
  src_num_splits (Z.of_nat nchans) (Z.of_nat fchans) (Z.of_nat s) = Z.of_nat (n_pieces nchans fchans s) /\
  fst (piece_freqs fch1 foff fchans s i) == src_piece_f_start fch1 foff (Z.of_nat i) (Z.of_nat s) /\
  snd (piece_freqs fch1 foff fchans s i) == src_piece_f_stop (src_piece_f_start fch1 foff (Z.of_nat i) (Z.of_nat s)) foff (Z.of_nat fchans).
Proof. intros Hf Hs. split; [now apply k_num_splits|apply k_piece_freqs]. Qed.
