From Coq Require Import ZArith QArith Qround Lia Lqa.
From SV Require Import Model.FreqReg.
Local Open Scope Q_scope.

Lemma mhz_nz : ~ mhz == 0. Proof. unfold mhz. discriminate. Qed.

(* the written header locates every recorded coarse channel at fch1 + (start_chan + j) * chan_bw,
   for either sign of chan_bw (orientation) and any first recorded channel *)
Theorem header_locates_channel fch1 cbw start_chan nchans nants sr nb j :
  reader_chan_centre (header fch1 cbw start_chan nchans nants sr nb) j
  == coarse_centre fch1 cbw start_chan j * mhz.
Proof.
  unfold reader_chan_centre, header, coarse_centre, zq. cbn [OBSFREQ OBSBW CHAN_BW].
  rewrite inject_Z_plus. field.
Qed.

Theorem params_roundtrip fch1 cbw start_chan nchans nants sr nb :
  raw_params_fch1 (header fch1 cbw start_chan nchans nants sr nb) start_chan nchans == fch1 /\
  raw_params_chan_bw (header fch1 cbw start_chan nchans nants sr nb) == cbw.
Proof.
  unfold raw_params_fch1, raw_params_chan_bw, header. cbn [OBSFREQ CHAN_BW].
  pose proof mhz_nz. split; field; assumption.
Qed.

(* orientation is recovered as the sign of CHAN_BW *)
Lemma orientation_sign sr nb asc : 0 < sr -> (0 < nb)%Z ->
  (0 < chan_bw sr nb asc * mhz <-> asc = true).
Proof.
  intros Hs Hn. unfold chan_bw, zq, mhz.
  assert (Hq : 0 < inject_Z nb) by (change 0 with (inject_Z 0); rewrite <- Zlt_Qlt; lia).
  assert (Hd : 0 < sr / inject_Z nb) by (apply Qlt_shift_div_l; lra).
  destruct asc; split; intros H; try reflexivity; try discriminate; nra.
Qed.

(* fine bins: DFT bin m of recorded coarse channel c, after fftshift + concatenation, sits at global
   index g = c*L + shift L m, and the affine label of g is the coarse-channel centre plus the bin's
   baseband offset -- slope chan_bw / L, for even L *)
Lemma shift_offset L m : (0 < L)%Z -> (0 <= m < L)%Z ->
  (shift L m = bin_offset L m + L / 2)%Z /\ (0 <= shift L m < L)%Z.
Proof.
  intros HL Hm. unfold shift, bin_offset.
  pose proof (Z.div_mod L 2 ltac:(lia)) as D. pose proof (Z.mod_pos_bound L 2 ltac:(lia)) as M.
  pose proof (Z.div_mod (L + 1) 2 ltac:(lia)) as D1. pose proof (Z.mod_pos_bound (L + 1) 2 ltac:(lia)) as M1.
  destruct (Z.ltb_spec m ((L + 1) / 2)).
  - rewrite Z.mod_small by lia. lia.
  - replace (m + L / 2)%Z with ((m + L / 2 - L) + 1 * L)%Z by lia.
    rewrite Z.mod_add by lia. rewrite Z.mod_small by lia. lia.
Qed.

Theorem fine_bin_label fch1 cbw start_chan L c m : (0 < L)%Z -> (0 <= m < L)%Z ->
  fine_label fch1 cbw start_chan L (c * L + shift L m)
  == coarse_centre fch1 cbw start_chan c + zq (bin_offset L m) * (cbw / zq L).
Proof.
  intros HL Hm. destruct (shift_offset L m HL Hm) as [Hs _]. rewrite Hs.
  unfold fine_label, coarse_centre, zq.
  assert (HLq : ~ inject_Z L == 0).
  { intros E. unfold Qeq in E. cbn in E. lia. }
  rewrite !inject_Z_plus, !inject_Z_mult. field. exact HLq.
Qed.
(* for even L the first fine bin of a channel is half a channel below its centre *)
Theorem fine_label_even fch1 cbw start_chan L g : (0 < L)%Z -> (L mod 2 = 0)%Z ->
  fine_label fch1 cbw start_chan L g == (fch1 + zq start_chan * cbw - cbw / 2) + zq g * (cbw / zq L).
Proof.
  intros HL He. unfold fine_label, zq.
  assert (H2 : (L = 2 * (L / 2))%Z) by (pose proof (Z.div_mod L 2 ltac:(lia)); lia).
  assert (HLq : ~ inject_Z L == 0).
  { intros E. unfold Qeq in E. cbn in E. lia. }
  assert (Hh : inject_Z (L / 2) == inject_Z L / 2).
  { rewrite H2 at 2. rewrite inject_Z_mult. change (inject_Z 2) with 2. field. }
  rewrite Hh. field. exact HLq.
Qed.

(* adjacent fine bins differ by exactly chan_bw / L, also across coarse-channel boundaries *)
Theorem fine_bins_uniform fch1 cbw start_chan L g : ~ zq L == 0 ->
  fine_label fch1 cbw start_chan L (g + 1) - fine_label fch1 cbw start_chan L g == cbw / zq L.
Proof. intros H. unfold fine_label, zq in *. rewrite inject_Z_plus. change (inject_Z 1) with 1. field. exact H. Qed.
