From Coq Require Import List Arith Lia Bool String Ascii.
From SV Require Import Model.Header.
Import ListNotations.
Local Open Scope string_scope.

(* ---------------- cards are 80 bytes ---------------- *)
Lemma length_append a b : String.length (a ++ b) = String.length a + String.length b.
Proof. induction a as [|c a IH]; cbn; [reflexivity|]. now rewrite IH. Qed.
Lemma length_spaces n : String.length (spaces n) = n.
Proof. induction n as [|n IH]; cbn; [reflexivity|]. now rewrite IH. Qed.
Lemma length_ljust n s : String.length (ljust n s) = Nat.max n (String.length s).
Proof. unfold ljust. rewrite length_append, length_spaces. lia. Qed.
Lemma length_rjust n s : String.length (rjust n s) = Nat.max n (String.length s).
Proof. unfold rjust. rewrite length_append, length_spaces. lia. Qed.

Definition fits (v : value) : Prop :=
  match v with
  | Num r => String.length r <= 70
  | Str s => String.length s <= 68
  | Enc s => String.length s <= 70
  end.

Theorem card_len key v : String.length key <= 8 -> fits v -> String.length (format_line key v) = 80.
Proof.
  intros Hk Hv. unfold format_line. rewrite length_ljust.
  destruct v as [r|s|s]; cbn [fits] in Hv;
    rewrite !length_append, ?length_ljust, ?length_rjust; cbn [String.length];
    rewrite ?length_append, ?length_ljust; cbn [String.length]; lia.
Qed.
Lemma end_card_len : String.length end_card = 80.
Proof. reflexivity. Qed.

(* no written card can be taken for the terminator: byte 8 of every card is '=', byte 8 of the END card is a blank -- whatever
   the keyword is, in particular a keyword that begins with the letters END (ENDTIME, END_MJD, even END itself) *)
Lemma get_append_at a b : String.get (String.length a) (a ++ b) = String.get 0 b.
Proof. induction a as [|c a IH]; cbn; [reflexivity|exact IH]. Qed.
Lemma get_append_lt a b n : n < String.length a -> String.get n (a ++ b) = String.get n a.
Proof. revert n; induction a as [|c a IH]; intros n Hn; cbn in *; [lia|]. destruct n; [reflexivity|]. apply IH. lia. Qed.
Lemma card_byte8 key v : String.length key <= 8 -> String.get 8 (format_line key v) = Some "="%char.
Proof.
  intros Hk. unfold format_line.
  assert (L8 : String.length (ljust 8 key) = 8) by (rewrite length_ljust; lia).
  assert (K : forall rest, String.get 8 ((ljust 8 key ++ "= ") ++ rest) = Some "="%char).
  { intros rest. rewrite get_append_lt by (rewrite length_append, L8; cbn; lia).
    rewrite <- L8 at 1. rewrite get_append_at. reflexivity. }
  unfold ljust at 1. rewrite get_append_lt.
  - destruct v; apply K.
  - destruct v; rewrite !length_append, L8; cbn; lia.
Qed.
Theorem card_not_end key v : String.length key <= 8 -> format_line key v <> end_card.
Proof.
  intros Hk E. pose proof (card_byte8 key v Hk) as H. rewrite E in H. cbn in H. discriminate.
Qed.

(* ---------------- padding ---------------- *)
Lemma pad_aligned n : (80 * n + pad_len n true) mod 512 = 0.
Proof.
  unfold pad_len. pose proof (Nat.mod_upper_bound (80*n) 512 ltac:(lia)).
  pose proof (Nat.div_mod (80*n) 512 ltac:(lia)).
  destruct (Nat.eq_dec ((80*n) mod 512) 0) as [E|E].
  - rewrite E. cbn. rewrite Nat.add_0_r. exact E.
  - rewrite (Nat.mod_small (512 - _)) by lia.
    replace (80 * n + (512 - (80 * n) mod 512)) with ((80*n/512 + 1) * 512) by lia.
    apply Nat.mod_mul. lia.
Qed.
Lemma pad_zero_when_aligned n : (80 * n) mod 512 = 0 -> pad_len n true = 0.
Proof. intros E. unfold pad_len. rewrite E. reflexivity. Qed.
Lemma pad_lt n b : pad_len n b < 512.
Proof. unfold pad_len. destruct b; [apply Nat.mod_upper_bound; lia|lia]. Qed.
Lemma pad_none n : pad_len n false = 0.
Proof. reflexivity. Qed.
(* the unrepaired expression agrees with the format except on already aligned headers, where it adds 512 *)
Lemma unrepaired_differs n : (80 * n) mod 512 = 0 -> pad_len_unrepaired n true = 512 /\ pad_len n true = 0.
Proof. intros E. unfold pad_len_unrepaired, pad_len. rewrite E. split; reflexivity. Qed.
Lemma unrepaired_agrees n : (80 * n) mod 512 <> 0 -> pad_len_unrepaired n true = pad_len n true.
Proof.
  intros E. unfold pad_len_unrepaired, pad_len. pose proof (Nat.mod_upper_bound (80*n) 512 ltac:(lia)).
  rewrite (Nat.mod_small (512 - _)) by lia. reflexivity.
Qed.

(* ---------------- framing: an independent reader recovers exactly the blocks that were written ---------------- *)
Local Close Scope string_scope.
Local Open Scope list_scope.
Section Framing.
Variable B : Type.
Variable beq : B -> B -> bool.
Hypothesis beq_spec : forall a b, reflect (a = b) (beq a b).
Variable zero : B.
Variable END : list B.
Hypothesis END_len : List.length END = 80.
Variable directio_of : list (list B) -> bool.
Variable blocsize_of : list (list B) -> nat.

Fixpoint leqb (x y : list B) : bool :=
  match x, y with [], [] => true | a :: x, b :: y => beq a b && leqb x y | _, _ => false end.
Lemma leqb_spec x y : reflect (x = y) (leqb x y).
Proof.
  revert y; induction x as [|a x IH]; intros [|b y]; simpl; try (constructor; congruence).
  destruct (beq_spec a b); simpl; [|constructor; congruence].
  destruct (IH y); constructor; congruence.
Qed.

Record block := { cards : list (list B); data : list B }.
Definition wf_block (b : block) :=
  Forall (fun c => List.length c = 80 /\ c <> END) (cards b) /\ List.length (data b) = blocsize_of (cards b).

Definition emit_block (b : block) : list B :=
  (List.concat (cards b) ++ END ++ repeat zero (pad_len (S (List.length (cards b))) (directio_of (cards b))) ++ data b)%list.
Definition emit_file (bs : list block) : list B := List.concat (map emit_block bs).

Fixpoint parse_cards (fuel : nat) (bs : list B) : option (list (list B) * list B) :=
  match fuel with
  | O => None
  | S f =>
    let c := firstn 80 bs in
    if List.length c <? 80 then None
    else if leqb c END then Some ([], skipn 80 bs)
    else match parse_cards f (skipn 80 bs) with
         | Some (cs, rest) => Some (c :: cs, rest)
         | None => None
         end
  end.

Definition parse_block (fuel : nat) (bs : list B) : option (block * list B) :=
  match parse_cards fuel bs with
  | None => None
  | Some (cs, rest) =>
    let rest' := skipn (pad_len (S (List.length cs)) (directio_of cs)) rest in
    let n := blocsize_of cs in
    if List.length rest' <? n then None
    else Some ({| cards := cs; data := firstn n rest' |}, skipn n rest')
  end.

Fixpoint parse_file (fuel : nat) (bs : list B) : option (list block) :=
  match fuel with
  | O => None
  | S f =>
    match bs with
    | [] => Some []
    | _ => match parse_block (S (List.length bs)) bs with
           | None => None
           | Some (b, rest) => match parse_file f rest with Some l => Some (b :: l) | None => None end
           end
    end
  end.

Lemma firstn_app_exact (x y : list B) : firstn (List.length x) (x ++ y) = x.
Proof. rewrite firstn_app, Nat.sub_diag, firstn_O, app_nil_r. apply firstn_all. Qed.
Lemma skipn_app_exact (x y : list B) : skipn (List.length x) (x ++ y) = y.
Proof. rewrite skipn_app, Nat.sub_diag, skipn_all. reflexivity. Qed.
Lemma firstn80 (c X : list B) : List.length c = 80 -> firstn 80 (c ++ X) = c.
Proof. intros H. rewrite <- H. apply firstn_app_exact. Qed.
Lemma skipn80 (c X : list B) : List.length c = 80 -> skipn 80 (c ++ X) = X.
Proof. intros H. rewrite <- H. apply skipn_app_exact. Qed.

Lemma parse_cards_emit cs rest fuel :
  Forall (fun c => List.length c = 80 /\ c <> END) cs -> List.length cs < fuel ->
  parse_cards fuel (List.concat cs ++ END ++ rest) = Some (cs, rest).
Proof.
  revert fuel; induction cs as [|c cs IH]; intros fuel HF Hf.
  - destruct fuel as [|f]; [lia|]. cbn [parse_cards List.concat app].
    rewrite (firstn80 END rest END_len), (skipn80 END rest END_len), END_len, Nat.ltb_irrefl.
    destruct (leqb_spec END END); [reflexivity|congruence].
  - inversion HF as [|? ? [Hl Hne] HF']; subst.
    destruct fuel as [|f]; [simpl in Hf; lia|]. cbn [parse_cards List.concat].
    rewrite <- app_assoc. rewrite (firstn80 c _ Hl), (skipn80 c _ Hl), Hl, Nat.ltb_irrefl.
    destruct (leqb_spec c END); [congruence|].
    rewrite IH; [reflexivity|assumption|simpl in Hf; lia].
Qed.

Lemma skipn_repeat p (X : list B) : skipn p (repeat zero p ++ X) = X.
Proof. rewrite <- (repeat_length zero p) at 1. apply skipn_app_exact. Qed.

Lemma parse_block_emit b rest fuel : wf_block b -> List.length (cards b) < fuel ->
  parse_block fuel (emit_block b ++ rest) = Some (b, rest).
Proof.
  intros [HF HD] Hf. unfold parse_block, emit_block.
  rewrite <- !app_assoc. rewrite parse_cards_emit by assumption. cbv zeta.
  rewrite !skipn_repeat. rewrite <- HD, firstn_app_exact, skipn_app_exact.
  rewrite app_length. replace (List.length (data b) + List.length rest <? List.length (data b)) with false
    by (symmetry; apply Nat.ltb_ge; lia).
  destruct b; reflexivity.
Qed.

Lemma emit_block_nonempty b : emit_block b <> [].
Proof. unfold emit_block. destruct END as [|e E] eqn:HE; [rewrite <- HE in END_len; simpl in *; subst; discriminate|].
  intros H. apply (f_equal (@List.length B)) in H. rewrite !app_length in H. simpl in H. lia. Qed.

Theorem parse_emit_file : forall bs fuel, Forall wf_block bs -> List.length bs < fuel ->
  parse_file fuel (emit_file bs) = Some bs.
Proof.
  induction bs as [|b bs IH]; intros fuel HF Hf.
  - destruct fuel; [lia|reflexivity].
  - inversion HF as [|? ? Hb HF']; subst. destruct fuel as [|f]; [simpl in Hf; lia|].
    unfold emit_file. cbn [map List.concat]. fold (emit_file bs). cbn [parse_file].
    destruct (emit_block b ++ emit_file bs)%list as [|x xs] eqn:E.
    + apply app_eq_nil in E. destruct E as [E _]. now apply emit_block_nonempty in E.
    + rewrite <- E. rewrite parse_block_emit; [|assumption|].
      * rewrite IH; [reflexivity|assumption|simpl in Hf; lia].
      * rewrite app_length. unfold emit_block. rewrite !app_length.
        assert (List.length (List.concat (cards b)) >= List.length (cards b)).
        { destruct Hb as [Hc _]. clear -Hc. induction Hc as [|c l [Hl _] _ IHl]; simpl; [lia|]. rewrite app_length. lia. }
        lia.
Qed.
End Framing.
Local Open Scope string_scope.

(* ---------------- dictionary: owned keys and preserved user cards ---------------- *)
Lemma lookup_dset_same d k v : lookup (dset d k v) k = Some v.
Proof. induction d as [|[k' v'] r IH]; cbn; [now rewrite String.eqb_refl|].
  destruct (String.eqb k' k) eqn:E; cbn; [now rewrite String.eqb_refl|now rewrite E]. Qed.
Lemma lookup_dset_other d k v k' : k <> k' -> lookup (dset d k v) k' = lookup d k'.
Proof.
  intros H. induction d as [|[k0 v0] r IH]; cbn.
  - destruct (String.eqb_spec k k'); [contradiction|reflexivity].
  - destruct (String.eqb_spec k0 k) as [->|N]; cbn.
    + destruct (String.eqb_spec k k'); [contradiction|reflexivity].
    + destruct (String.eqb k0 k'); [reflexivity|exact IH].
Qed.
Lemma lookup_default_other d k v k' : k <> k' -> lookup (dset_default d k v) k' = lookup d k'.
Proof. intros H. unfold dset_default. destruct (lookup d k); [reflexivity|now apply lookup_dset_other]. Qed.
Lemma lookup_default_keeps d k v k' w : lookup d k' = Some w -> lookup (dset_default d k v) k' = Some w.
Proof.
  intros H. unfold dset_default. destruct (lookup d k) eqn:E; [exact H|].
  rewrite lookup_dset_other; [exact H|]. intros ->. congruence.
Qed.

(* user-supplied cards always win over template cards *)
Theorem template_keeps_user tpl : forall d k w, lookup d k = Some w -> lookup (add_template tpl d) k = Some w.
Proof.
  unfold add_template. induction tpl as [|[tk tv] r IH]; intros d k w H; [exact H|].
  cbn [fold_left fst snd]. apply IH. now apply lookup_default_keeps.
Qed.

Ltac other := repeat first [rewrite lookup_dset_other by discriminate | rewrite lookup_default_other by discriminate].

Lemma nants_other c d k : "NANTS" <> k -> lookup (nants_step c d) k = lookup d k.
Proof. intros H. unfold nants_step. destruct (h_is_array c); [now apply lookup_dset_other|].
  destruct (lookup d "NANTS"); [now apply lookup_dset_other|reflexivity]. Qed.

(* pipeline-determined fields always carry the configuration's values, whatever the caller supplied *)
Theorem owned_keys c p d :
  let f := populate c p d in
  lookup f "NBITS" = Some (h_nbits c) /\ lookup f "CHAN_BW" = Some (h_chan_bw c) /\
  lookup f "NPOL" = Some (h_npol c) /\ lookup f "BLOCSIZE" = Some (h_blocsize c) /\
  lookup f "SCANLEN" = Some (h_scanlen c) /\ lookup f "TBIN" = Some (h_tbin c) /\
  lookup f "OBSNCHAN" = Some (h_obsnchan c) /\ lookup f "OBSBW" = Some (h_obsbw c) /\
  lookup f "OBSFREQ" = Some (h_obsfreq c) /\
  (h_is_array c = true -> lookup f "NANTS" = Some (h_nants c)) /\
  (h_is_array c = false -> lookup f "NANTS" = match lookup d "NANTS" with Some _ => Some (h_nants c) | None => None end).
Proof.
  cbv zeta. unfold populate. cbv zeta.
  repeat split;
    try (repeat first [rewrite lookup_dset_same | rewrite lookup_dset_other by discriminate
                      | rewrite lookup_default_other by discriminate | rewrite nants_other by discriminate]; reflexivity).
  - intros Ha. other. unfold nants_step. rewrite Ha. apply lookup_dset_same.
  - intros Ha. other. unfold nants_step. rewrite Ha. other.
    destruct (lookup d "NANTS") eqn:E.
    + apply lookup_dset_same.
    + other. exact E.
Qed.

Definition reserved : list string :=
  ["NBITS"; "CHAN_BW"; "NPOL"; "BLOCSIZE"; "SCANLEN"; "TBIN"; "NANTS"; "OBSNCHAN"; "OBSBW"; "OBSFREQ";
   "PKTIDX"; "PKTSTART"; "PKTSTOP"; "TELESCOP"; "OBSERVER"; "SRC_NAME"].

(* every other card the caller supplied is preserved *)
Theorem user_cards_preserved c p d k : ~ In k reserved -> lookup (populate c p d) k = lookup d k.
Proof.
  intros H. unfold reserved in H. cbn [In] in H.
  assert (N : forall s, In s reserved -> s <> k).
  { intros s Hs Heq. subst. apply H. exact Hs. }
  unfold populate. cbv zeta.
  repeat first [rewrite lookup_dset_other by (apply N; cbn; tauto)
               | rewrite lookup_default_other by (apply N; cbn; tauto)
               | rewrite nants_other by (apply N; cbn; tauto)].
  reflexivity.
Qed.
(* caller-supplied TELESCOP / OBSERVER / SRC_NAME / PKTSTART are kept too *)
Theorem defaults_keep_user c p d k w : In k ["TELESCOP"; "OBSERVER"; "SRC_NAME"; "PKTSTART"] ->
  lookup d k = Some w -> lookup (populate c p d) k = Some w.
Proof.
  intros Hin Hl. unfold populate. cbv zeta.
  cbn [In] in Hin. destruct Hin as [<-|[<-|[<-|[<-|[]]]]];
  repeat first [rewrite lookup_dset_other by discriminate | rewrite nants_other by discriminate
               | rewrite lookup_default_other by discriminate | apply lookup_default_keeps]; exact Hl.
Qed.

(* ---------------- readers ---------------- *)
Lemma blocks_in_file_exact m ncards dio bs : 1 <= m -> 1 <= ncards ->
  blocks_in_file (m * (header_size ncards dio + bs)) ncards dio bs = m.
Proof.
  intros Hm Hc. unfold blocks_in_file. set (step := header_size ncards dio + bs).
  assert (Hs : 1 <= step) by (unfold step, header_size; lia).
  replace (m * step + step - 1) with ((step - 1) + m * step) by lia.
  rewrite Nat.div_add by lia. rewrite Nat.div_small by lia. reflexivity.
Qed.

(* files hold bpf blocks each, the last one 1..bpf: the reader's total is the number written *)
Theorem total_blocks_exact nfull bpf lastn ncards dio bs : 1 <= bpf -> 1 <= lastn -> 1 <= ncards ->
  let step := header_size ncards dio + bs in
  total_blocks (repeat (bpf * step) nfull ++ [lastn * step])%list ncards dio bs = bpf * nfull + lastn.
Proof.
  intros Hb Hl Hc step. subst step. unfold total_blocks.
  destruct nfull as [|k].
  - cbn [repeat app List.length Nat.eqb]. rewrite blocks_in_file_exact by lia. lia.
  - cbn [repeat app]. cbn [List.length]. rewrite !app_length, !repeat_length. cbn [List.length].
    replace (Nat.eqb (S (k + 1)) 1) with false by (symmetry; apply Nat.eqb_neq; lia).
    change (bpf * (header_size ncards dio + bs) :: repeat (bpf * (header_size ncards dio + bs)) k ++ [lastn * (header_size ncards dio + bs)])%list
      with ((bpf * (header_size ncards dio + bs) :: repeat (bpf * (header_size ncards dio + bs)) k) ++ [lastn * (header_size ncards dio + bs)])%list.
    rewrite last_last. rewrite !blocks_in_file_exact by lia. lia.
Qed.
