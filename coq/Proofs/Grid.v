From Coq Require Import List ZArith QArith Qround Qabs Lia Lqa.
From SV Require Import Base.Rounding Model.Grid.
Local Open Scope Q_scope.

Lemma inject_Z_minus a b : inject_Z (a - b) == inject_Z a - inject_Z b.
Proof. unfold Z.sub. rewrite inject_Z_plus, inject_Z_opp. reflexivity. Qed.

Lemma zq_nz z : (z <> 0)%Z -> ~ zq z == 0.
Proof. intros H E. unfold zq, Qeq in E. cbn in E. lia. Qed.

Lemma linspace_uniform start d num j : (num <> 0)%Z ->
  linspace_q start (start + zq num * d) num j == start + zq j * d.
Proof. intros H. unfold linspace_q. pose proof (zq_nz num H). field. assumption. Qed.

(* every frame's frequency axis, in memory order, is fmin + j*df, for both orientations *)
Theorem fs_uniform g j : (F g <> 0)%Z -> fs_q g j == fmin_q g + zq j * df g.
Proof.
  intros HF. unfold fs_q, fmin_q. pose proof (zq_nz (F g) HF) as NZ. destruct (ascending g).
  - apply linspace_uniform. exact HF.
  - unfold linspace_q, zq. rewrite !inject_Z_minus. change (inject_Z 1) with 1. field. exact NZ.
Qed.

Theorem fs_increasing g j : (F g <> 0)%Z -> 0 < df g -> fs_q g j < fs_q g (j + 1).
Proof.
  intros HF Hd. rewrite !fs_uniform by assumption. unfold zq. rewrite inject_Z_plus. change (inject_Z 1) with 1. lra.
Qed.

(* fch1 is fmin for ascending frames and fmax = fs[F-1] for descending ones *)
Theorem fch1_role g : (F g <> 0)%Z ->
  (ascending g = true -> fmin_q g == fch1 g /\ fs_q g 0 == fch1 g) /\
  (ascending g = false -> fmax_q g == fch1 g /\ fs_q g (F g - 1) == fch1 g /\ fmin_q g == fch1 g - zq (F g - 1) * df g).
Proof.
  intros HF. pose proof (zq_nz (F g) HF) as NZ. split; intros Ha.
  - unfold fmin_q, fs_q. rewrite Ha. split; [reflexivity|]. unfold linspace_q, zq. field. exact NZ.
  - unfold fmax_q, fmin_q, fs_q. rewrite Ha. split; [reflexivity|]. split.
    + replace (F g - 1 - (F g - 1))%Z with 0%Z by lia. unfold linspace_q, zq. field. exact NZ.
    + unfold linspace_q, zq. rewrite !inject_Z_minus. change (inject_Z 1) with 1. field. exact NZ.
Qed.

Theorem ts_uniform g i : (T g <> 0)%Z -> ts_q g i == zq i * dt g.
Proof.
  intros HT. unfold ts_q. pose proof (linspace_uniform 0 (dt g) (T g) i HT) as H.
  assert (E : 0 + zq (T g) * dt g == zq (T g) * dt g) by ring.
  unfold linspace_q in *. rewrite <- E. rewrite H. ring.
Qed.

(* index -> frequency -> index is the identity on every channel *)
Theorem index_roundtrip fmin d j : ~ d == 0 -> get_index_q fmin d (get_frequency_q fmin d j) = j.
Proof.
  intros Hd. unfold get_index_q, get_frequency_q, zq.
  assert (E : (fmin + d * inject_Z j - fmin) / d == inject_Z j) by (field; exact Hd).
  rewrite E. apply rhe_Z.
Qed.

(* frequency -> index returns the nearest channel *)
Theorem nearest fmin d f : 0 < d ->
  Qabs (f - get_frequency_q fmin d (get_index_q fmin d f)) <= d * (1#2).
Proof.
  intros Hd. unfold get_index_q, get_frequency_q, zq.
  set (q := (f - fmin) / d).
  assert (N := rhe_near q).
  assert (E : f - (fmin + d * inject_Z (rhe q)) == d * (q - inject_Z (rhe q))).
  { unfold q. field. lra. }
  rewrite E, Qabs_Qmult. rewrite (Qabs_pos d) by lra.
  apply Qmult_le_l; assumption.
Qed.

(* two frames describing the same band with opposite orientation flags have identical axes *)
Theorem orientation_independent F_ T_ d dt_ fmin_ j : (F_ <> 0)%Z ->
  let ga := {| F := F_; T := T_; df := d; dt := dt_; fch1 := fmin_; ascending := true |} in
  let gd := {| F := F_; T := T_; df := d; dt := dt_; fch1 := fmin_ + zq (F_ - 1) * d; ascending := false |} in
  fs_q ga j == fs_q gd j /\ fmin_q ga == fmin_q gd /\ fmax_q ga == fmax_q gd.
Proof.
  intros HF ga gd. pose proof (zq_nz F_ HF) as NZ.
  assert (Ea : forall k, fs_q ga k == fmin_ + zq k * d).
  { intros k. rewrite fs_uniform by exact HF. reflexivity. }
  assert (Emin : fmin_q gd == fmin_).
  { unfold fmin_q, gd; cbn [ascending fch1 F df]. unfold linspace_q, zq. rewrite !inject_Z_minus. change (inject_Z 1) with 1. field. exact NZ. }
  assert (Ed : forall k, fs_q gd k == fmin_ + zq k * d).
  { intros k. rewrite fs_uniform by exact HF. rewrite Emin. reflexivity. }
  split; [apply Qeq_trans with (fmin_ + zq j * d); [apply Ea | symmetry; apply Ed]|].
  split; [symmetry; exact Emin|].
  unfold fmax_q, ga, gd; cbn [ascending fch1 F]. apply (Ea (F_ - 1)%Z).
Qed.

(* derived quantities follow from the same grid *)
Theorem derived g a b : ~ dt g == 0 -> (T g <> 0)%Z ->
  drift_rate_q g a b * (zq (T g) * dt g) == fs_q g b - fs_q g a \/ (F g = 0)%Z.
Proof.
  intros Hdt HT. destruct (Z.eq_dec (F g) 0) as [E|NE]; [right; exact E|left].
  rewrite !fs_uniform by exact NE. unfold drift_rate_q, zq. rewrite inject_Z_minus.
  pose proof (zq_nz (T g) HT) as NZ. unfold zq in NZ. field. split; assumption.
Qed.
