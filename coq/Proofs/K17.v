(* The definitions of Kernels/Gen17.v -- regenerated on every run from /repo's current source by tools/py2v.py --
   equal the hand-written model functions the C17 theorems speak about. *)
From Coq Require Import List ZArith QArith Qround Qabs Lia Lqa Bool.
From SV Require Import Base.Rounding Kernels.Gen17 Model.Derived.
Local Open Scope Q_scope.

Ltac same_q := first [reflexivity | ring | (field; auto)].
Ltac same_rhe := first [reflexivity | (apply rhe_proper; same_q) | (f_equal; apply rhe_proper; same_q)].

Lemma k_dedrift_offset fr d i : ~ df fr == 0 ->
  Z.to_nat (src_dedrift_offset d (Z.of_nat i) (dt fr) (df fr)) = offset fr d i.
Proof. intros H. unfold src_dedrift_offset, offset, nq. first [reflexivity | (f_equal; same_rhe)]. Qed.
Lemma k_dedrift_max_offset fr d : ~ df fr == 0 ->
  Z.to_nat (src_dedrift_max_offset d (Z.of_nat (T fr)) (dt fr) (df fr)) = max_offset fr d.
Proof. intros H. unfold src_dedrift_max_offset, max_offset, offset, nq. first [reflexivity | (f_equal; same_rhe)]. Qed.
(* the normalisation statement of integrate(): elementwise (x - m) / s *)
Lemma k_normalise m s l i : (i < length l)%nat -> nth i (normalise m s l) 0 == src_normalise_elt (nth i l 0) m s.
Proof.
  intros Hi. unfold normalise, src_normalise_elt. rewrite (nth_indep _ 0 ((0 - m) / s)) by (rewrite map_length; exact Hi).
  rewrite (map_nth (fun x => (x - m) / s) l 0 i). same_q.
Qed.
Theorem k17_all fr d i : ~ df fr == 0 ->
  Z.to_nat (src_dedrift_offset d (Z.of_nat i) (dt fr) (df fr)) = offset fr d i /\
  Z.to_nat (src_dedrift_max_offset d (Z.of_nat (T fr)) (dt fr) (df fr)) = max_offset fr d.
Proof. intros H. split; [now apply k_dedrift_offset|now apply k_dedrift_max_offset]. Qed.
