From Coq Require Import List ZArith QArith Qround Qabs Lia Lqa Bool.
From SV Require Import Base.Rounding Model.Quant.
Import ListNotations.

(* ---------- range ---------- *)
Lemma pow_pos_b b : (1 <= b)%Z -> (1 <= 2 ^ (b - 1))%Z.
Proof. intros H. assert (0 < 2 ^ (b - 1))%Z by (apply Z.pow_pos_nonneg; lia). lia. Qed.

Lemma range b tm ts dm ds x : (1 <= b)%Z ->
  (qlo b <= quantize_real b tm ts dm ds x <= qhi b)%Z.
Proof.
  intros Hb. pose proof (pow_pos_b b Hb). unfold quantize_real, clipZ, qlo, qhi. lia.
Qed.

(* ---------- monotone ---------- *)
Lemma factor_nonneg ts ds : 0 <= ts -> 0 <= ds -> 0 <= factor ts ds.
Proof.
  intros Ht Hd. unfold factor. destruct (Qeq_bool ds 0) eqn:E; [lra|].
  apply Qeq_bool_neq in E. assert (0 < ds) by (destruct (Qlt_le_dec 0 ds); [assumption|exfalso; apply E; lra]).
  unfold Qdiv. apply Qmult_le_0_compat; [assumption|]. apply Qlt_le_weak. now apply Qinv_lt_0_compat.
Qed.

Lemma monotone b tm ts dm ds x y : 0 <= ts -> 0 <= ds -> x <= y ->
  (quantize_real b tm ts dm ds x <= quantize_real b tm ts dm ds y)%Z.
Proof.
  intros Ht Hd Hxy. unfold quantize_real, clipZ.
  assert (H : (rhe (affine tm ts dm ds x) <= rhe (affine tm ts dm ds y))%Z).
  { apply rhe_mono. unfold affine. pose proof (factor_nonneg ts ds Ht Hd). nra. }
  lia.
Qed.

(* ---------- zero variance ---------- *)
Lemma zero_variance b tm ts dm ds x : ds == 0 ->
  quantize_real b tm ts dm ds x = clipZ (qlo b) (qhi b) (rhe tm).
Proof.
  intros Hd. unfold quantize_real. f_equal. apply rhe_proper. unfold affine, factor.
  apply Qeq_bool_iff in Hd. rewrite Hd. ring.
Qed.

(* the formula of the property, spelled out *)
Lemma formula b tm ts dm ds x : ~ ds == 0 ->
  quantize_real b tm ts dm ds x = clipZ (qlo b) (qhi b) (rhe ((ts / ds) * (x - dm) + tm)).
Proof.
  intros Hd. unfold quantize_real, affine, factor.
  destruct (Qeq_bool ds 0) eqn:E; [apply Qeq_bool_iff in E; contradiction|reflexivity].
Qed.

(* ---------- prefix ---------- *)
Lemma prefix_spec {A} num (v : list A) :
  stats_prefix num v = firstn num v /\ (length (stats_prefix num v) <= num)%nat.
Proof.
  unfold stats_prefix. split.
  - destruct (Nat.le_ge_cases num (length v)).
    + now rewrite Nat.min_l.
    + rewrite Nat.min_r by assumption. now rewrite !firstn_all2 by lia.
  - rewrite firstn_length. lia.
Qed.

(* ---------- refresh schedule ---------- *)
Open Scope Z_scope.

Lemma succ_mod n p : 0 < p ->
  (if (n mod p + 1 =? p) then 0 else n mod p + 1) = (n + 1) mod p.
Proof.
  intros Hp. assert (B := Z.mod_pos_bound n p Hp).
  pose proof (Z.div_mod n p ltac:(lia)) as D.
  destruct (Z.eqb_spec (n mod p + 1) p) as [E|E].
  - apply Z.mod_unique_pos with (q := n / p + 1); [lia|]. nia.
  - apply Z.mod_unique_pos with (q := n / p); [lia|]. nia.
Qed.

Lemma after_pos q0 p n : 0 < p -> idx q0 = 0 -> period q0 = p ->
  let q := after q0 n in
  idx q = Z.of_nat n mod p /\ period q = p /\ ncalls q = (ncalls q0 + n)%nat /\
  (Z.of_nat n mod p <> 0 -> src q = Some (ncalls q0 + Z.to_nat (Z.of_nat n - Z.of_nat n mod p))%nat).
Proof.
  intros Hp Hi Hper. induction n as [|n IH].
  - cbn [after]. change (Z.of_nat 0) with 0. rewrite Z.mod_0_l by lia. repeat split; try assumption; try lia; try (intros H; contradiction).
  - cbn [after]. destruct IH as (I1 & I2 & I3 & I4). unfold qstep. cbn [fst idx period src ncalls].
    rewrite I1, I2, I3. replace (Z.of_nat (S n)) with (Z.of_nat n + 1) by lia.
    rewrite succ_mod by assumption. repeat split; try lia.
    intros Hne. f_equal.
    assert (B := Z.mod_pos_bound (Z.of_nat n) p Hp).
    assert (E : (Z.of_nat n + 1) mod p = Z.of_nat n mod p + 1).
    { rewrite <- succ_mod by assumption. rewrite <- succ_mod in Hne by assumption.
      destruct (Z.eqb_spec (Z.of_nat n mod p + 1) p); [contradiction|reflexivity]. }
    rewrite E.
    destruct (Z.eqb_spec (Z.of_nat n mod p) 0) as [Z0|NZ].
    + rewrite Z0. f_equal. lia.
    + rewrite (I4 NZ). f_equal. lia.
Qed.

Lemma after_nonpos q0 p n : p <= 0 -> idx q0 = 0 -> period q0 = p ->
  let q := after q0 n in
  idx q = Z.of_nat n /\ period q = p /\ ncalls q = (ncalls q0 + n)%nat /\
  (n <> O -> src q = Some (ncalls q0)).
Proof.
  intros Hp Hi Hper. induction n as [|n IH].
  - cbn [after]. change (Z.of_nat 0) with 0. repeat split; try assumption; try lia; try (intros H; contradiction).
  - cbn [after]. destruct IH as (I1 & I2 & I3 & I4). unfold qstep. cbn [fst idx period src ncalls].
    rewrite I1, I2, I3.
    destruct (Z.eqb_spec (Z.of_nat n + 1) p); [lia|]. repeat split; try lia.
    intros _. f_equal. destruct n as [|n']; [cbn; lia|].
    destruct (Z.eqb_spec (Z.of_nat (S n')) 0); [lia|]. rewrite I4 by discriminate. reflexivity.
Qed.

(* call n (0-based) after a fresh start / reset made when the object had served r calls *)
Definition used_at (q0 : rq) (n : nat) : nat := snd (qstep (after q0 n)).

Theorem refresh_schedule q0 p n : idx q0 = 0 -> period q0 = p ->
  used_at q0 n = (ncalls q0 + (if (0 <? p)%Z then Z.to_nat (Z.of_nat n - Z.of_nat n mod p)%Z else 0))%nat.
Proof.
  intros Hi Hper. unfold used_at. destruct (Z.ltb_spec 0 p) as [Hp|Hp].
  - destruct (after_pos q0 p n Hp Hi Hper) as (I1 & I2 & I3 & I4). unfold qstep. cbn [snd].
    rewrite I1, I3. destruct (Z.eqb_spec (Z.of_nat n mod p) 0) as [Z0|NZ].
    + rewrite Z0. lia.
    + rewrite (I4 NZ). reflexivity.
  - destruct (after_nonpos q0 p n Hp Hi Hper) as (I1 & I2 & I3 & I4). unfold qstep. cbn [snd].
    rewrite I1, I3. destruct n as [|n']; [cbn; lia|].
    destruct (Z.eqb_spec (Z.of_nat (S n')) 0); [lia|]. rewrite I4 by discriminate. lia.
Qed.

(* statistics are recomputed on call n  <->  n is a multiple of a positive period, or n = 0 *)
Corollary refreshes_iff q0 p n : idx q0 = 0 -> period q0 = p ->
  used_at q0 n = (ncalls q0 + n)%nat <-> (0 < p /\ Z.of_nat n mod p = 0) \/ (p <= 0 /\ n = O) .
Proof.
  intros Hi Hper. rewrite (refresh_schedule q0 p n Hi Hper).
  destruct (Z.ltb_spec 0 p) as [Hp|Hp].
  - assert (B := Z.mod_pos_bound (Z.of_nat n) p Hp). split.
    + intros H. left. split; [assumption|]. pose proof (Z.mod_le (Z.of_nat n) p ltac:(lia) Hp) as L.
      set (m := Z.of_nat n mod p) in *. clearbody m. lia.
    + intros [[_ H]|[H _]]; [rewrite H, Z.sub_0_r, Nat2Z.id; reflexivity|lia].
  - split; [intros H; right; split; [assumption|lia] | intros [[H _]|[_ H]]; lia].
Qed.

Lemma reset_ready q : idx (reset q) = 0 /\ period (reset q) = period q /\ ncalls (reset q) = ncalls q.
Proof. repeat split. Qed.

(* the complex quantiser is exactly two real quantisers with separate state *)
Lemma complex_independent c :
  cstep c = ((fst (qstep (fst c)), fst (qstep (snd c))), (snd (qstep (fst c)), snd (qstep (snd c)))).
Proof. unfold cstep. destruct (qstep (fst c)), (qstep (snd c)). reflexivity. Qed.
