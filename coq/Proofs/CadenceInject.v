From Coq Require Import List Arith ZArith QArith Lia Lqa Bool PrimFloat.
From SV Require Import Model.CadenceInject.
Import ListNotations.

(* ---------------- the time axes are left exactly as they were ---------------- *)
Section Inject.
Variable A : Type.

(* after the loop -- completed or interrupted by a raising callback on ANY frame k -- every frame is the
   very same object as before (Leibniz equality, no arithmetic law needed: holds for doubles) *)
Theorem ts_restored (fails : nat -> bool) : forall fs k, fst (inject_all A fails k fs) = fs.
Proof.
  induction fs as [|f r IH]; intros k; [reflexivity|]. cbn [inject_all].
  destruct (fails k); [reflexivity|]. specialize (IH (S k)). destruct (inject_all A fails (S k) r) as [r' o]. cbn in *. now rewrite IH.
Qed.

(* it raises exactly when some callback raises, at the first such frame *)
Theorem raises_at_first (fails : nat -> bool) : forall fs k,
  match snd (inject_all A fails k fs) with
  | Done => forall i, (i < length fs)%nat -> fails (k + i)%nat = false
  | Raised j => (k <= j < k + length fs)%nat /\ fails j = true /\ forall i, (k <= i < j)%nat -> fails i = false
  end.
Proof.
  induction fs as [|f r IH]; intros k; [cbn; intros; lia|]. cbn [inject_all].
  destruct (fails k) eqn:E.
  - cbn [snd length]. split; [lia|]. split; [assumption|]. intros i Hi; lia.
  - specialize (IH (S k)). destruct (inject_all A fails (S k) r) as [r' o]. cbn [snd] in *. destruct o as [|j].
    + intros i Hi. destruct i; [now rewrite Nat.add_0_r|]. cbn in Hi. replace (k + S i)%nat with (S k + i)%nat by lia. apply IH. lia.
    + destruct IH as (H1 & H2 & H3). cbn [length]. repeat split; try lia; try assumption.
      intros i Hi. destruct (Nat.eq_dec i k) as [->|N]; [assumption|]. apply H3. lia.
Qed.
End Inject.

(* the unrepaired loop does not restore doubles: (x + o) - o <> x already for x = 0.1, o = 1e9 *)
Theorem unrepaired_drifts :
  exists (x o : float), PrimFloat.eqb (PrimFloat.sub (PrimFloat.add x o) o) x = false.
Proof. exists 0x1.999999999999ap-4%float, 0x1.dcd65p+29%float. vm_compute. reflexivity. Qed.

Theorem unrepaired_raise_leaves_shift (A : Type) shift unshift minus t0 f r :
  fst (inject_all_unrepaired A shift unshift minus t0 (fun k => Nat.eqb k 0) 0 (f :: r)) = sh_frame A shift (minus (t_start A f) t0) f :: r.
Proof. reflexivity. Qed.

(* ---------------- exact statements ---------------- *)
Local Open Scope Q_scope.

Lemma nq_S n : nq (S n) == nq n + 1.
Proof. unfold nq. rewrite Nat2Z.inj_succ, <- Z.add_1_r, inject_Z_plus. reflexivity. Qed.

(* a drifting signal continues seamlessly: when frame g starts where frame f stops (same dt), g's first
   row is evaluated one time step after f's last row; with a gap, later by exactly the gap *)
Theorem seamless t0 f g gap : dt g == dt f -> q_start g == q_stop f + gap -> (0 < T f)%nat ->
  cadence_time t0 g 0 == cadence_time t0 f (T f - 1) + dt f + gap.
Proof.
  intros Hdt Hs HT. unfold cadence_time, q_ts, q_stop in *. rewrite Hs.
  destruct (T f) as [|n]; [lia|]. replace (S n - 1)%nat with n by lia. rewrite nq_S. unfold nq at 1. cbn. ring.
Qed.

(* within a frame the callables see t_i + (t_start - t0): the frame's own times shifted by its start offset *)
Theorem offset_times t0 f i : cadence_time t0 f i == nq i * dt f + (q_start f - t0).
Proof. reflexivity. Qed.

(* overwriting start times spaces consecutive frames by exactly the slew time *)
Lemma slew_overwrite t_slew : forall fs prev f0, q_stop f0 == prev ->
  Forall (fun s => s == t_slew) (slew_times (f0 :: overwrite t_slew prev fs)).
Proof.
  induction fs as [|f r IH]; intros prev f0 H; [constructor|]. cbn [overwrite slew_times].
  constructor.
  - cbn [q_start]. rewrite H. ring.
  - apply IH. reflexivity.
Qed.
Theorem overwrite_slew t_slew fs : Forall (fun s => s == t_slew) (slew_times (overwrite_times t_slew fs)).
Proof. destruct fs as [|f r]; [constructor|]. cbn [overwrite_times]. apply slew_overwrite. reflexivity. Qed.

Theorem consolidate_length fs : length (consolidated_ts fs) = fold_right (fun f n => (T f + n)%nat) 0%nat fs.
Proof.
  induction fs as [|f r IH]; [reflexivity|]. unfold consolidated_ts in *. cbn [map concat fold_right].
  rewrite app_length, IH, map_length, seq_length. reflexivity.
Qed.
