From Coq Require Import List Arith ZArith QArith Lia Lqa Bool.
From SV Require Import Base.Rounding Model.Split.
Import ListNotations.
Local Open Scope nat_scope.

(* ---------------- sub-band pieces ---------------- *)
Theorem piece_count nchans fchans s : 1 <= s -> fchans <= nchans ->
  let n := n_pieces nchans fchans s in
  n = (nchans - fchans) / s + 1 /\
  (forall i, i < n -> snd (piece fchans s i) <= nchans) /\
  nchans < snd (piece fchans s n).
Proof.
  intros Hs Hf n. unfold n, n_pieces. destruct (Nat.ltb_spec nchans fchans); [lia|].
  pose proof (Nat.div_mod (nchans - fchans) s ltac:(lia)) as D.
  pose proof (Nat.mod_upper_bound (nchans - fchans) s ltac:(lia)) as M.
  repeat split.
  - intros i Hi. unfold piece. cbn [snd]. assert (i <= (nchans - fchans) / s) by lia. nia.
  - unfold piece. cbn [snd]. nia.
Qed.

Theorem no_piece_when_too_wide nchans fchans s : nchans < fchans -> pieces nchans fchans s = [].
Proof. intros H. unfold pieces, n_pieces. destruct (Nat.ltb_spec nchans fchans); [reflexivity|lia]. Qed.

(* the reader rounds (f - fch1)/foff to a channel index: piece i selects exactly channels [i*s, i*s + fchans) *)
Local Open Scope Q_scope.
Theorem piece_selects fch1 foff fchans s i : ~ foff == 0 ->
  let '(fa, fb) := piece_freqs fch1 foff fchans s i in
  rhe ((fa - fch1) / foff) = Z.of_nat (fst (piece fchans s i)) /\ rhe ((fb - fch1) / foff) = Z.of_nat (snd (piece fchans s i)).
Proof.
  intros H. unfold piece_freqs, piece, nq. cbn [fst snd]. split.
  - assert (E : (fch1 + inject_Z (Z.of_nat (i * s)) * foff - fch1) / foff == inject_Z (Z.of_nat (i * s))) by (field; exact H).
    rewrite E. apply rhe_Z.
  - assert (E : (fch1 + inject_Z (Z.of_nat (i * s + fchans)) * foff - fch1) / foff == inject_Z (Z.of_nat (i * s + fchans))) by (field; exact H).
    rewrite E. apply rhe_Z.
Qed.
Local Close Scope Q_scope.

(* ---------------- tiling ---------------- *)
Lemma lt_cdivn W tw k : 1 <= tw -> ((k + 1) * tw < W <-> k + 1 < cdivn W tw).
Proof.
  intros Ht. unfold cdivn. split; intros H.
  - apply Nat.div_le_lower_bound; lia.
  - destruct (Nat.lt_ge_cases ((k + 1) * tw) W) as [L|G]; [assumption|exfalso].
    assert ((W + tw - 1) / tw < k + 2) by (apply Nat.div_lt_upper_bound; nia). lia.
Qed.
Lemma cdivn_pos W tw : 1 <= tw -> 1 <= W -> 1 <= cdivn W tw.
Proof. intros. unfold cdivn. apply Nat.div_le_lower_bound; lia. Qed.

Definition row_tail (H W th tw r k : nat) : list rect := map (fun c => tile H W th tw r c) (seq (k + 1) (cdivn W tw - 1 - k)).

Lemma xloop_closed H W th tw r : 1 <= tw -> forall d k fuel, cdivn W tw - 1 - k = d -> k < cdivn W tw -> d <= fuel ->
  xloop fuel W tw (r * th) (Nat.min ((r + 1) * th) H) (k * tw) (Nat.min ((k + 1) * tw) W) = row_tail H W th tw r k.
Proof.
  intros Ht. induction d as [|d IH]; intros k fuel Hd Hk Hf.
  - unfold row_tail. rewrite Hd. cbn [seq map].
    assert (~ (k + 1) * tw < W) by (rewrite lt_cdivn by assumption; lia).
    destruct fuel as [|f]; [reflexivity|]. cbn [xloop].
    destruct (Nat.ltb_spec (Nat.min ((k + 1) * tw) W) W); [lia|reflexivity].
  - destruct fuel as [|f]; [lia|]. cbn [xloop].
    assert (L : (k + 1) * tw < W) by (rewrite lt_cdivn by assumption; lia).
    rewrite (Nat.min_l ((k + 1) * tw) W) by lia.
    destruct (Nat.ltb_spec ((k + 1) * tw) W); [|lia].
    unfold row_tail. rewrite Hd. cbn [seq map]. f_equal.
    + unfold tile. f_equal; [f_equal; lia|]. f_equal. lia.
    + replace (k * tw + tw) with ((k + 1) * tw) by lia. replace ((k + 1) * tw + tw) with ((k + 1 + 1) * tw) by lia.
      rewrite (IH (k + 1) f) by lia. unfold row_tail. f_equal. f_equal; lia.
Qed.

Definition full_row (H W th tw r : nat) : list rect := map (fun c => tile H W th tw r c) (seq 0 (cdivn W tw)).

Lemma full_row_split H W th tw r : 1 <= tw -> 1 <= W ->
  full_row H W th tw r = tile H W th tw r 0 :: row_tail H W th tw r 0.
Proof.
  intros Ht HW. unfold full_row, row_tail. pose proof (cdivn_pos W tw Ht HW).
  destruct (cdivn W tw) as [|n] eqn:E; [lia|]. cbn [seq map]. f_equal. f_equal. f_equal. lia.
Qed.

Lemma yloop_closed H W th tw : 1 <= th -> 1 <= tw -> 1 <= W -> forall d r fuel, cdivn H th - 1 - r = d -> r < cdivn H th -> d < fuel ->
  yloop fuel H W tw th tw (r * th) (Nat.min ((r + 1) * th) H) =
  row_tail H W th tw r 0 ++ flat_map (full_row H W th tw) (seq (r + 1) d).
Proof.
  intros Hth Htw HW. induction d as [|d IH]; intros r fuel Hd Hr Hf.
  - cbn [seq flat_map]. rewrite app_nil_r.
    assert (~ (r + 1) * th < H) by (rewrite lt_cdivn by assumption; lia).
    destruct fuel as [|f]; [lia|cbn [yloop]].
    pose proof (xloop_closed H W th tw r Htw (cdivn W tw - 1 - 0) 0 (S W) eq_refl) as X.
    assert (C1 : cdivn W tw - 1 - 0 <= S W).
    { unfold cdivn. assert ((W + tw - 1) / tw <= W) by (apply Nat.div_le_upper_bound; nia). lia. }
    rewrite Nat.mul_0_l, Nat.add_0_l, Nat.mul_1_l in X.
    rewrite X by (try lia; apply cdivn_pos; assumption).
    destruct (Nat.ltb_spec (Nat.min ((r + 1) * th) H) H); [lia|reflexivity].
  - destruct fuel as [|f]; [lia|]. cbn [yloop].
    pose proof (xloop_closed H W th tw r Htw (cdivn W tw - 1 - 0) 0 (S W) eq_refl) as X.
    assert (C1 : cdivn W tw - 1 - 0 <= S W).
    { unfold cdivn. assert ((W + tw - 1) / tw <= W) by (apply Nat.div_le_upper_bound; nia). lia. }
    rewrite Nat.mul_0_l, Nat.add_0_l, Nat.mul_1_l in X.
    rewrite X by (try lia; apply cdivn_pos; assumption).
    assert (L : (r + 1) * th < H) by (rewrite lt_cdivn by assumption; lia).
    rewrite (Nat.min_l ((r + 1) * th) H) by lia.
    destruct (Nat.ltb_spec ((r + 1) * th) H); [|lia].
    f_equal. cbn [seq flat_map]. rewrite (full_row_split H W th tw (r + 1)) by assumption.
    cbn [app]. f_equal.
    + unfold tile. rewrite Nat.mul_0_l, Nat.add_0_l, Nat.mul_1_l. f_equal. f_equal. f_equal; lia.
    + replace (r * th + th) with ((r + 1) * th) by lia. replace ((r + 1) * th + th) with ((r + 1 + 1) * th) by lia.
      rewrite (IH (r + 1) f) by lia. f_equal. f_equal. f_equal. lia.
Qed.

(* with shifts equal to the tile sizes the loops produce exactly the grid of tiles, in row-major order *)
Theorem split_rects_tiles H W th tw : 1 <= th -> 1 <= tw -> 1 <= H -> 1 <= W ->
  split_rects H W th tw th tw = tiles H W th tw.
Proof.
  intros Hth Htw HH HW. unfold split_rects, tiles.
  pose proof (cdivn_pos H th Hth HH) as Py.
  pose proof (yloop_closed H W th tw Hth Htw HW (cdivn H th - 1 - 0) 0 (S H) eq_refl) as Y.
  assert (C : cdivn H th - 1 - 0 < S H).
  { unfold cdivn. assert ((H + th - 1) / th <= H) by (apply Nat.div_le_upper_bound; nia). lia. }
  rewrite Nat.mul_0_l, Nat.add_0_l, Nat.mul_1_l in Y. rewrite Y by lia.
  destruct (cdivn H th) as [|n] eqn:E; [lia|]. cbn [seq flat_map].
  change (map (fun c => tile H W th tw 0 c) (seq 0 (cdivn W tw))) with (full_row H W th tw 0).
  rewrite (full_row_split H W th tw 0) by assumption. cbn [app]. f_equal.
  - unfold tile. rewrite !Nat.mul_0_l, !Nat.add_0_l, !Nat.mul_1_l. reflexivity.
  - f_equal. replace (S n - 1 - 0) with n by lia. reflexivity.
Qed.

(* every element lies in exactly the tile (y / th, x / tw) *)
Theorem tile_partition H W th tw y x r c : 1 <= th -> 1 <= tw -> y < H -> x < W ->
  inside y x (tile H W th tw r c) = true <-> (r = y / th /\ c = x / tw).
Proof.
  intros Hth Htw Hy Hx. unfold inside, tile.
  pose proof (Nat.div_mod y th ltac:(lia)) as Dy. pose proof (Nat.mod_upper_bound y th ltac:(lia)) as My.
  pose proof (Nat.div_mod x tw ltac:(lia)) as Dx. pose proof (Nat.mod_upper_bound x tw ltac:(lia)) as Mx.
  rewrite !andb_true_iff, !Nat.leb_le, !Nat.ltb_lt. split.
  - intros [[[A B] C] D]. split.
    + assert (r * th <= y < (r + 1) * th) by lia. apply Nat.div_unique with (r := y - r * th); lia.
    + assert (c * tw <= x < (c + 1) * tw) by lia. apply Nat.div_unique with (r := x - c * tw); lia.
  - intros [-> ->]. repeat split; try nia; apply Nat.min_glb_lt; nia.
Qed.
Theorem tile_exists H W th tw y x : 1 <= th -> 1 <= tw -> y < H -> x < W ->
  y / th < cdivn H th /\ x / tw < cdivn W tw.
Proof.
  intros Hth Htw Hy Hx. unfold cdivn. split; apply Nat.div_lt_upper_bound; try lia.
  - pose proof (Nat.div_mod (H + th - 1) th ltac:(lia)). pose proof (Nat.mod_upper_bound (H + th - 1) th ltac:(lia)). nia.
  - pose proof (Nat.div_mod (W + tw - 1) tw ltac:(lia)). pose proof (Nat.mod_upper_bound (W + tw - 1) tw ltac:(lia)). nia.
Qed.

(* trimming keeps exactly the full-size tiles *)
Theorem trim_full H W th tw r c : 1 <= th -> 1 <= tw -> r * th < H -> c * tw < W ->
  (Nat.eqb (height (tile H W th tw r c)) th = true <-> (r + 1) * th <= H) /\
  (Nat.eqb (width (tile H W th tw r c)) tw = true <-> (c + 1) * tw <= W).
Proof.
  intros Hth Htw Hr Hc. unfold height, width, tile. rewrite !Nat.eqb_eq. split; split; intros E; lia.
Qed.
