(* The definitions of Kernels/Gen05.v -- regenerated on every run from /repo's current source by tools/py2v.py --
   equal the hand-written model functions the C05 theorems speak about.  An edit of one of those source lines
   changes Gen05.v and with it these obligations. *)
From Coq Require Import List ZArith QArith Qround Qabs Lia Lqa Bool.
From SV Require Import Base.Rounding Kernels.Gen05 Model.Grid.
Local Open Scope Q_scope.

(* proofs try plain conversion first and fall back on ring / field, so that an algebraically equivalent rewrite of a source
   line (commuted factors, re-associated sums) is still accepted; anything else fails here *)
Ltac same_q := first [reflexivity | ring | (field; auto)].
Ltac same_rhe := first [reflexivity | (apply rhe_proper; same_q) | (f_equal; apply rhe_proper; same_q)].

Lemma k_get_index fmin d f : ~ d == 0 -> src_get_index fmin d f = get_index_q fmin d f.
Proof. intros Hd. unfold src_get_index, get_index_q. same_rhe. Qed.
Lemma k_get_frequency fmin d j : src_get_frequency fmin d j == get_frequency_q fmin d j.
Proof. unfold src_get_frequency, get_frequency_q, zq. same_q. Qed.
Lemma k_get_drift_rate g a b : ~ dt g == 0 -> ~ zq (T g) == 0 -> src_get_drift_rate (df g) (dt g) (T g) a b == drift_rate_q g a b.
Proof. intros H1 H2. unfold src_get_drift_rate, drift_rate_q, zq in *. same_q. Qed.
Lemma k_chi2_df g : src_chi2_df (df g) (dt g) = chi2_df_q g.
Proof. unfold src_chi2_df, chi2_df_q. same_rhe. Qed.
Lemma k_unit_drift g : ~ dt g == 0 -> src_unit_drift_rate (df g) (dt g) == unit_drift_q g.
Proof. intros H. unfold src_unit_drift_rate, unit_drift_q. same_q. Qed.
Lemma k_fmid g : src_fmid (fmin_q g) (fmax_q g) == fmid_q g.
Proof. unfold src_fmid, fmid_q. change (inject_Z 2) with 2. same_q. Qed.
Lemma k_t_stop g t0 : src_t_stop t0 (T g) (dt g) == t_stop_q g t0.
Proof. unfold src_t_stop, t_stop_q, zq. same_q. Qed.
Lemma k_obs_length g t0 : src_t_stop t0 (T g) (dt g) == t0 + src_obs_length (T g) (dt g).
Proof. unfold src_t_stop, src_obs_length. same_q. Qed.

(* ts_ext = the frame's time axis plus one further step, whatever its origin *)
Lemma k_ts_ext_last ts_last d : src_ts_ext_last ts_last d == ts_last + d.
Proof. unfold src_ts_ext_last. same_q. Qed.

Theorem k05_all g fmin d f j a b t0 : ~ d == 0 -> ~ dt g == 0 -> ~ zq (T g) == 0 ->
  src_get_index fmin d f = get_index_q fmin d f /\ src_get_frequency fmin d j == get_frequency_q fmin d j /\
  src_get_drift_rate (df g) (dt g) (T g) a b == drift_rate_q g a b /\ src_chi2_df (df g) (dt g) = chi2_df_q g /\
  src_unit_drift_rate (df g) (dt g) == unit_drift_q g /\ src_fmid (fmin_q g) (fmax_q g) == fmid_q g /\
  src_t_stop t0 (T g) (dt g) == t_stop_q g t0 /\ src_t_stop t0 (T g) (dt g) == t0 + src_obs_length (T g) (dt g).
Proof.
  intros Hd Ht HT.
  split; [now apply k_get_index|]. split; [apply k_get_frequency|]. split; [now apply k_get_drift_rate|]. split; [apply k_chi2_df|].
  split; [now apply k_unit_drift|]. split; [apply k_fmid|]. split; [apply k_t_stop|apply k_obs_length].
Qed.

