From Coq Require Import List ZArith QArith Lia Bool.
From SV Require Import Model.Stream.
Import ListNotations.
Local Open Scope Z_scope.

Lemma seq_shift_map (s n k : nat) : seq (k + s) n = map (fun t => (k + t)%nat) (seq s n).
Proof. revert s; induction n as [|n IH]; intros s; [reflexivity|]. cbn [seq map]. f_equal. rewrite <- IH. f_equal. lia. Qed.

Lemma expand_app c a b fs : 0 <= a -> 0 <= b ->
  expand (c, a, fs) ++ expand (c + a, b, map (fun f => f + a) fs) = expand (c, a + b, fs).
Proof.
  intros Ha Hb. unfold expand. rewrite Z2Nat.inj_add by lia. rewrite seq_app, map_app. f_equal.
  replace (0 + Z.to_nat a)%nat with (Z.to_nat a + 0)%nat by lia.
  rewrite seq_shift_map, map_map. apply map_ext. intros k. f_equal; [lia|].
  rewrite map_map. apply map_ext. intros f. lia.
Qed.

Lemma firsts_le1 pos a b k : (k <= 1)%nat ->
  firsts (pos + Z.of_nat k * a) b k = map (fun f => f + a) (firsts pos (a + b) k).
Proof.
  intros Hk. destruct k as [|[|k]]; [reflexivity| |lia]. unfold firsts. cbn [seq map]. f_equal. lia.
Qed.

Lemma firsts_indep pos a b k : (k <= 1)%nat -> firsts pos a k = firsts pos b k.
Proof. intros Hk. destruct k as [|[|k]]; [reflexivity| |lia]. unfold firsts. cbn [seq map Z.of_nat]. now rewrite !Z.mul_0_l. Qed.

(* any partition of the request into non-negative chunk sizes delivers, sample for sample, the
   evaluation times and generator draws of one request of the total length -- for streams with at
   most one noise source *)
Theorem concat_requests : forall ns s, (nsrc s = 0 \/ nsrc s = 1) -> Forall (fun n => 0 <= n) ns ->
  samples (fst (run s (map Get ns))) =
  expand (clock s, fold_right Z.add 0 ns, firsts (rngpos s) (fold_right Z.add 0 ns) (Z.to_nat (nsrc s))).
Proof.
  induction ns as [|n r IH]; intros s Hk HF.
  - cbn. unfold expand. reflexivity.
  - inversion HF as [|? ? Hn Hr]; subst. cbn [map run step get fold_right].
    destruct (run _ (map Get r)) as [xs s''] eqn:E. cbn [fst]. unfold samples. cbn [map concat].
    fold (samples xs).
    set (s1 := {| clock := clock s + n; start_obs := false; rngpos := rngpos s + nsrc s * n; nsrc := nsrc s |}) in *.
    assert (IH' := IH s1 Hk Hr). rewrite E in IH'. cbn [fst] in IH'. rewrite IH'. cbn [clock rngpos nsrc s1].
    assert (S0 : 0 <= fold_right Z.add 0 r).
    { clear -Hr. induction Hr as [|x l Hx _ IHl]; cbn [fold_right]; lia. }
    assert (K : (Z.to_nat (nsrc s) <= 1)%nat) by (destruct Hk as [-> | ->]; cbn; lia).
    replace (nsrc s * n) with (Z.of_nat (Z.to_nat (nsrc s)) * n) by (rewrite Z2Nat.id; [reflexivity|destruct Hk; lia]).
    rewrite firsts_le1 by assumption.
    rewrite (firsts_indep (rngpos s) n (n + fold_right Z.add 0 r)) by assumption. apply expand_app; assumption.
Qed.

(* clock algebra: after any history the clock is the last set_time plus added times plus samples drawn *)
Fixpoint clock_after (c : Z) (ops : list op) : Z :=
  match ops with
  | [] => c
  | Get n :: r => clock_after (c + n) r
  | SetTime t :: r => clock_after t r
  | AddTime t :: r => clock_after (c + t) r
  | _ :: r => clock_after c r
  end.

Theorem clock_algebra : forall ops s, clock (snd (run s ops)) = clock_after (clock s) ops.
Proof.
  induction ops as [|o r IH]; intros s; [reflexivity|]. cbn [run].
  destruct (step s o) as [x s'] eqn:E. destruct (run s' r) as [xs s''] eqn:E2. cbn [snd].
  assert (H : clock s'' = clock_after (clock s') r) by (rewrite <- IH, E2; reflexivity).
  rewrite H. destruct o; cbn [step get set_time add_time reset_start update_noise add_noise] in E; inversion E; subst; cbn [clock clock_after]; try reflexivity.
  f_equal. unfold reset_start, add_time, set_time. cbn [clock]. lia.
Qed.

(* update_noise leaves clock and start flag alone and advances the generator by exactly the probe *)
Theorem update_noise_transparent s m :
  clock (update_noise s m) = clock s /\ start_obs (update_noise s m) = start_obs s /\
  rngpos (update_noise s m) = rngpos s + nsrc s * m /\ nsrc (update_noise s m) = nsrc s.
Proof. repeat split. Qed.

(* sample k of a request is evaluated at clock + k *)
Lemma nth_map_seq0 {B} (f : nat -> B) n b d : (b < n)%nat -> nth b (map f (seq 0 n)) d = f b.
Proof.
  intros H. rewrite (nth_indep _ d (f 0%nat)) by (now rewrite map_length, seq_length).
  rewrite map_nth. f_equal. now rewrite seq_nth.
Qed.
Theorem sample_time s n k : (k < Z.to_nat n)%nat ->
  nth k (map fst (expand (fst (get s n)))) 0 = clock s + Z.of_nat k.
Proof.
  intros H. cbn [get fst expand]. rewrite map_map. cbn [fst]. now rewrite nth_map_seq0.
Qed.

(* with two noise sources on one stream the chunked draws differ from the one-shot draws *)
Theorem two_sources_refuted : exists s a b, nsrc s = 2 /\ 0 <= a /\ 0 <= b /\
  samples (fst (run s [Get a; Get b])) <> samples (fst (run s [Get (a + b)])).
Proof. exists (fresh 0 2), 1, 1. repeat split; try lia. vm_compute. discriminate. Qed.

(* chirp: the central difference of the phase (in cycles) is the instantaneous frequency
   (f_start - fch1) + drift * t, negated for descending bands *)
Local Open Scope Q_scope.
Theorem chirp_frequency f_start fch1 drift asc t h : ~ h == 0 ->
  (chirp_cycles f_start fch1 drift asc (t + h) - chirp_cycles f_start fch1 drift asc (t - h)) / (2 * h)
  == (if asc then 1 else -1) * ((f_start - fch1) + drift * t).
Proof. intros Hh. unfold chirp_cycles. destruct asc; field; exact Hh. Qed.
