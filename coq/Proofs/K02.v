(* The definitions of Kernels/Gen02.v -- regenerated on every run from /repo's current source by tools/py2v.py --
   equal the sub-block plan of Model/Backend.v that the C02 / C20 theorems speak about. *)
From Coq Require Import List ZArith QArith Qround Lia Lqa Bool.
From SV Require Import Base.PySeq Base.Rounding Kernels.Gen02 Model.Backend.
Local Open Scope Z_scope.

Lemma ceil_div a b : 0 < b -> - ((- a) / b) = (a + b - 1) / b.
Proof.
  intros Hb. pose proof (Z.div_mod (- a) b ltac:(lia)) as D1. pose proof (Z.mod_pos_bound (- a) b Hb) as M1.
  pose proof (Z.div_mod (a + b - 1) b ltac:(lia)) as D2. pose proof (Z.mod_pos_bound (a + b - 1) b Hb) as M2. nia.
Qed.
Lemma Qceiling_div a b : 0 < b -> Qceiling (inject_Z a / inject_Z b) = cdiv a b.
Proof.
  intros Hb. unfold Qceiling, cdiv. rewrite <- ceil_div by exact Hb. f_equal.
  assert (E : (- (inject_Z a / inject_Z b) == inject_Z (- a) / inject_Z b)%Q).
  { rewrite inject_Z_opp. field. intros H. unfold Qeq in H. cbn in H. lia. }
  rewrite E. symmetry. apply Zdiv_Qdiv.
Qed.

(* T = taps * w spectra per block (w whole PFB windows) *)
Theorem k02_plan taps w nsub : 1 <= taps -> 1 <= w -> 1 <= nsub ->
  src_windows_per_subblock (taps * w) taps nsub = ws_of w nsub + 1 /\
  src_subblock_T (ws_of w nsub + 1) taps = taps * ws_of w nsub /\
  src_num_subblocks (taps * w) (taps * ws_of w nsub) = nsub_eff w nsub.
Proof.
  intros Ht Hw Hn.
  assert (Hws : 1 <= ws_of w nsub) by (unfold ws_of, cdiv; apply Z.div_le_lower_bound; lia).
  assert (Tq : ~ (inject_Z taps == 0)%Q) by (intros H; unfold Qeq in H; cbn in H; lia).
  assert (Nq : ~ (inject_Z nsub == 0)%Q) by (intros H; unfold Qeq in H; cbn in H; lia).
  assert (Wq : ~ (inject_Z (ws_of w nsub) == 0)%Q) by (intros H; unfold Qeq in H; cbn in H; lia).
  repeat split.
  - unfold src_windows_per_subblock, ws_of. f_equal.
    assert (E : (inject_Z (taps * w) / inject_Z taps / inject_Z nsub == inject_Z w / inject_Z nsub)%Q).
    { rewrite inject_Z_mult. field. split; assumption. }
    rewrite E. apply Qceiling_div. lia.
  - unfold src_subblock_T. ring.
  - unfold src_num_subblocks, nsub_eff.
    assert (E : (inject_Z (taps * w) / inject_Z (taps * ws_of w nsub) == inject_Z w / inject_Z (ws_of w nsub))%Q).
    { rewrite !inject_Z_mult. field. split; assumption. }
    rewrite E. apply Qceiling_div. lia.
Qed.
