(* The definitions of Kernels/Gen16.v -- regenerated on every run from /repo's current source by tools/py2v.py --
   equal the scalar steps of Model/CadenceInject.v that the C16 theorems speak about. *)
From Coq Require Import List ZArith QArith Lia Lqa Bool.
From SV Require Import Kernels.Gen16 Model.CadenceInject.
Import ListNotations.
Local Open Scope Q_scope.

Ltac same_q := first [reflexivity | ring | (field; auto)].

Theorem k16_all t0 f i t_slew prev_stop g r :
  src_cadence_time (q_ts f i) (q_start f) t0 == cadence_time t0 f i /\
  (* one step of overwrite_times: the next frame starts at the previous stop plus the slew time *)
  q_start (hd f (overwrite t_slew prev_stop (g :: r))) == src_overwrite_start prev_stop t_slew /\
  (* one entry of slew_times *)
  hd 0 (slew_times (f :: g :: r)) == src_slew_time (q_start g) (q_stop f).
Proof.
  split; [unfold src_cadence_time, cadence_time; same_q|].
  split; [cbn [overwrite hd q_start]; unfold src_overwrite_start; same_q|].
  cbn [slew_times hd]. unfold src_slew_time. same_q.
Qed.
