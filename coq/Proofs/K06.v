(* The definitions of Kernels/Gen06.v -- regenerated on every run from /repo's current source by tools/py2v.py --
   equal the column-range computation of Model/Signal.v that the C06 theorems speak about. *)
From Coq Require Import List ZArith QArith Lia Bool.
From SV Require Import Base.Rounding Kernels.Gen06 Model.Signal.

(* i0, i1 = get_index of the two edges of the requested range *)
Theorem k06_bounds fr b0 b1 :
  let i0 := get_index fr b0 in let i1 := get_index fr b1 in
  let lo := src_bounding_min i0 (Z.of_nat (F fr)) in
  bounds fr (Some (b0, b1)) = (Z.to_nat lo, Z.to_nat (src_bounding_max i1 (Z.of_nat (F fr)) lo)).
Proof.
  cbn zeta. unfold bounds, clampZ, src_bounding_min, src_bounding_max. f_equal. lia.
Qed.
