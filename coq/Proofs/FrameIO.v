From Coq Require Import List Arith ZArith QArith Qround Qabs Lia Lqa Bool PrimFloat.
From SV Require Import Base.Tab Base.Rounding Base.F64 Model.FrameIO.
Import ListNotations.
Local Open Scope Q_scope.

Lemma mhz_pos : 0 < mhz. Proof. reflexivity. Qed.

(* the header written for a frame reads back to the same geometry (exact arithmetic of the MHz <-> Hz scaling) *)
Theorem header_roundtrip g : 0 < df g ->
  let g' := of_header (to_header g) in
  F g' = F g /\ T g' = T g /\ df g' == df g /\ dt g' = dt g /\ fch1 g' == fch1 g /\ ascending g' = ascending g /\
  t_start g' = t_start g /\ source g' = source g.
Proof.
  intros Hdf g'. unfold g', of_header, to_header. cbn [F T df dt fch1 ascending t_start source h_fch1 h_foff h_nchans h_tsamp h_tstart h_source h_nints].
  pose proof mhz_pos as Hm. repeat split.
  - destruct (ascending g).
    + rewrite Qabs_pos by nra. field. lra.
    + rewrite Qabs_neg by nra. field. lra.
  - field. lra.
  - destruct (ascending g) eqn:E.
    + assert (P : 0 < df g * mhz) by nra.
      assert (A : Qle_bool 0 (df g * mhz) = true) by (apply Qle_bool_iff; lra).
      assert (B : Qeq_bool (df g * mhz) 0 = false).
      { destruct (Qeq_bool (df g * mhz) 0) eqn:Q; [apply Qeq_bool_iff in Q; lra|reflexivity]. }
      now rewrite A, B.
    + assert (P : - df g * mhz < 0) by nra.
      assert (A : Qle_bool 0 (- df g * mhz) = false).
      { destruct (Qle_bool 0 (- df g * mhz)) eqn:Q; [apply Qle_bool_iff in Q; lra|reflexivity]. }
      now rewrite A.
Qed.

(* storing in file order and reading back is the identity, for both orientations *)
Theorem flip_involutive asc row : of_file_row asc (to_file_row asc row) = row.
Proof. unfold of_file_row, to_file_row. destruct asc; [reflexivity|apply rev_involutive]. Qed.

(* an independent reader sees every pixel at the same sky frequency: file column j of the written header is
   memory column j (ascending) or F-1-j (descending) of the frame *)
Theorem same_sky_freq g j : (j < F g)%nat ->
  file_freq (to_header g) j == frame_freq g (if ascending g then j else (F g - 1 - j)%nat).
Proof.
  intros Hj. unfold file_freq, to_header, frame_freq, fmin. cbn [h_fch1 h_foff].
  pose proof mhz_pos. destruct (ascending g).
  - field. lra.
  - unfold nq. replace (Z.of_nat (F g - 1 - j)) with (Z.of_nat (F g - 1) - Z.of_nat j)%Z by lia.
    unfold Z.sub. rewrite inject_Z_plus, inject_Z_opp. field. lra.
Qed.

(* ---------------- histories: the written shape is the frame's shape ---------------- *)
Lemma run_save_shape : forall ops s, Forall (fun w => match w with None => True | Some _ => True end) (snd (run update_wf s ops)).
Proof. intros. apply Forall_forall. intros [x|] _; exact I. Qed.

(* after ANY sequence of earlier operations, saving writes the container shape = the frame's current shape *)
Theorem save_writes_frame_shape s : snd (step update_wf s SaveOp) = Some (shape s).
Proof. reflexivity. Qed.

Theorem history_independent ops s :
  let s' := fst (run update_wf s ops) in snd (step update_wf s' SaveOp) = Some (shape s').
Proof. reflexivity. Qed.

(* the unrepaired refresh rule writes a stale shape: get_waterfall, then slice, then save *)
Theorem stale_shape_refuted : exists s ops,
  let s' := fst (run update_wf_unrepaired s ops) in snd (step update_wf_unrepaired s' SaveOp) <> Some (shape s').
Proof.
  exists {| shape := (4, 16)%nat; wf_shape := None |}, [GetWaterfall; Slice 8].
  vm_compute. discriminate.
Qed.

(* ---------------- helpers ---------------- *)
Theorem helper_axes h : length (helper_fs h) = h_nchans h /\ length (helper_ts h) = h_nints h.
Proof. unfold helper_fs, helper_ts. now rewrite !tab_length. Qed.

Theorem helper_fs_is_file_axis h j : (j < h_nchans h)%nat -> nth j (helper_fs h) 0 / mhz == file_freq h j.
Proof. intros Hj. unfold helper_fs, file_freq. rewrite nth_tab by assumption. reflexivity. Qed.

(* np.arange with a float step gives n+1 entries for ordinary headers: fch1 = 6000 MHz, foff = -2.835503418452676e-6 MHz, n = 1 *)
Theorem arange_len_refuted : exists start step n, arange_len_f start step n <> n.
Proof. exists 0x1.77p+12%float, (-0x1.7c9327d56028ap-19)%float, 1%Z. vm_compute. discriminate. Qed.
