(* The definition of Kernels/Gen09.v -- regenerated on every run from /repo's current source by tools/py2v.py: the return
   value of quantize_real with its locals (scale factor with the zero-deviation branch, rounding, clip bounds) inlined --
   is the quantiser kernel of Model/Quant.v that the C09 theorems speak about. *)
From Coq Require Import List ZArith QArith Qround Lia Lqa Bool.
From SV Require Import Base.Rounding Kernels.Gen09 Model.Quant.
Local Open Scope Q_scope.

Theorem k09_quantize b tm ts dm ds x : src_quantize_real x tm ts dm ds b = quantize_real b tm ts dm ds x.
Proof.
  unfold src_quantize_real, quantize_real, clipZ, qlo, qhi, affine, factor.
  first [reflexivity
        | (change (inject_Z 0) with 0; destruct (Qeq_bool ds 0);
           (f_equal; [f_equal; apply rhe_proper; first [reflexivity | ring | (field; auto)] | ]); reflexivity)].
Qed.
