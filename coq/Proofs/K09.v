(* The definitions of Kernels/Gen09.v -- regenerated on every run from /repo's current source by tools/py2v.py --
   compose to the quantiser kernel of Model/Quant.v that the C09 theorems speak about. *)
From Coq Require Import List ZArith QArith Qround Lia Lqa Bool.
From SV Require Import Base.Rounding Kernels.Gen09 Model.Quant.
Local Open Scope Q_scope.

(* non-degenerate statistics (the else branch); a zero deviation takes the branch `factor = 0`, which is the model's [factor ts 0 = 0] *)
Theorem k09_quantize b tm ts dm ds x : ~ ds == 0 ->
  src_quant_clip (src_quant_round (src_quant_factor ts ds) x dm tm) b = quantize_real b tm ts dm ds x.
Proof.
  intros H. unfold src_quant_clip, src_quant_round, src_quant_factor, quantize_real, clipZ, qlo, qhi, affine, factor.
  destruct (Qeq_bool ds 0) eqn:E; [apply Qeq_bool_iff in E; contradiction|].
  first [reflexivity | (f_equal; [f_equal; apply rhe_proper; first [reflexivity | ring | (field; auto)] | ])]; reflexivity.
Qed.
Theorem k09_zero_deviation b tm ts dm x : quantize_real b tm ts dm 0 x = src_quant_clip (src_quant_round 0 x dm tm) b.
Proof.
  unfold src_quant_clip, src_quant_round, quantize_real, clipZ, qlo, qhi, affine, factor. cbn [Qeq_bool].
  first [reflexivity | (f_equal; [f_equal; apply rhe_proper; first [reflexivity | ring] | ])]; reflexivity.
Qed.
