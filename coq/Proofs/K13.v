(* The definitions of Kernels/Gen13.v -- regenerated on every run from /repo's current source by tools/py2v.py --
   equal the hand-written model functions the C13 theorems speak about.  An edit of one of those source lines
   changes Gen13.v and with it these obligations. *)
From Coq Require Import List ZArith QArith Qround Qabs Lia Lqa Bool.
From SV Require Import Base.Rounding Kernels.Gen13 Model.ConstSignal.
Local Open Scope Q_scope.

Lemma k_smearing_subsamples drift unit : ~ unit == 0 -> 0 < unit ->
  src_smearing_subsamples drift unit = substeps (drift / unit).
Proof.
  intros Hn Hu. unfold src_smearing_subsamples, substeps. f_equal.
  assert (E : Qabs drift / unit == Qabs (drift / unit)).
  { unfold Qdiv. rewrite Qabs_Qmult. rewrite (Qabs_pos (/ unit)); [reflexivity|]. apply Qlt_le_weak. now apply Qinv_lt_0_compat. }
  now rewrite E.
Qed.
