(* The definitions of Kernels/Gen13.v -- regenerated on every run from /repo's current source by tools/py2v.py --
   equal the hand-written model functions the C13 theorems speak about.  An edit of one of those source lines
   changes Gen13.v and with it these obligations. *)
From Coq Require Import List ZArith QArith Qround Qabs Qminmax Lia Lqa Bool.
From SV Require Import Base.Rounding Kernels.Gen13 Model.ConstSignal.
Local Open Scope Q_scope.

Lemma k_smearing_subsamples drift unit : ~ unit == 0 -> 0 < unit ->
  src_smearing_subsamples drift unit = substeps (drift / unit).
Proof.
  intros Hn Hu. unfold src_smearing_subsamples, substeps. f_equal.
  assert (E : Qabs drift / unit == Qabs (drift / unit)).
  { unfold Qdiv. rewrite Qabs_Qmult. rewrite (Qabs_pos (/ unit)); [reflexivity|]. apply Qlt_le_weak. now apply Qinv_lt_0_compat. }
  now rewrite E.
Qed.

(* ---- the helper's bounding box ---- *)
Lemma Qmin_qmin a b : Qmin a b == qmin a b.
Proof.
  unfold qmin. destruct (Qle_bool a b) eqn:E.
  - apply Qle_bool_iff in E. now apply Q.min_l.
  - assert (H : b <= a). { destruct (Qlt_le_dec b a) as [L|L]; [now apply Qlt_le_weak|]. apply Qle_bool_iff in L. congruence. }
    now apply Q.min_r.
Qed.
Lemma Qmax_qmax a b : Qmax a b == qmax a b.
Proof.
  unfold qmax. destruct (Qle_bool a b) eqn:E.
  - apply Qle_bool_iff in E. now apply Q.max_r.
  - assert (H : b <= a). { destruct (Qlt_le_dec b a) as [L|L]; [now apply Qlt_le_weak|]. apply Qle_bool_iff in L. congruence. }
    now apply Q.max_l.
Qed.

(* centre, width and sweep in channels, as the model's add_constant_signal computes them *)
Theorem k13_box f_start fmin df dt width drift (Tn : nat) : 0 < df -> (1 <= Tn)%nat ->
  let c0 := (f_start - fmin) / df in
  let w := width / df in
  let D := drift * dt / df in
  src_px_start f_start fmin df == c0 /\
  src_px_width_offset width df == 2 * Qabs w /\
  src_px_drift_offset drift dt df (Z.of_nat Tn) == D * inject_Z (sweep_steps Tn false) /\
  src_px_drift_offset drift dt df (Z.of_nat Tn) + src_px_drift_smear_extra drift dt df == D * inject_Z (sweep_steps Tn true) /\
  (forall pdo pwo, pwo == 2 * Qabs w ->
     src_bounding_start_index c0 pdo pwo = box_lo c0 w pdo /\ src_bounding_stop_index c0 pdo pwo = box_hi c0 w pdo).
Proof.
  intros Hdf HT. cbn zeta.
  assert (Nz : ~ df == 0) by (intros E; rewrite E in Hdf; discriminate).
  split; [unfold src_px_start; reflexivity|].
  split.
  { unfold src_px_width_offset. change (inject_Z 2) with 2.
    assert (E : Qabs (width / df) == Qabs width / df).
    { unfold Qdiv. rewrite Qabs_Qmult. rewrite (Qabs_pos (/ df)); [reflexivity|]. apply Qlt_le_weak. now apply Qinv_lt_0_compat. }
    rewrite E. field. exact Nz. }
  split.
  { unfold src_px_drift_offset, sweep_steps. field. exact Nz. }
  split.
  { unfold src_px_drift_offset, src_px_drift_smear_extra, sweep_steps.
    assert (E : inject_Z (Z.of_nat Tn - 1) == inject_Z (Z.of_nat Tn) - 1).
    { unfold Z.sub. rewrite inject_Z_plus, inject_Z_opp. reflexivity. }
    rewrite E. field. exact Nz. }
  intros pdo pwo Hp. unfold src_bounding_start_index, src_bounding_stop_index, box_lo, box_hi.
  change (inject_Z 0) with 0. split.
  - apply Qfloor_comp. rewrite Hp, Qmin_qmin. reflexivity.
  - f_equal. apply Qceiling_comp. rewrite Hp, Qmax_qmax. reflexivity.
Qed.
Theorem k13_clamp start stop (Fn : nat) :
  Z.to_nat (src_bounding_min_index start (Z.of_nat Fn)) = Signal.clampZ start Fn /\
  Z.to_nat (src_bounding_max_index stop (Z.of_nat Fn)) = Signal.clampZ stop Fn.
Proof. unfold src_bounding_min_index, src_bounding_max_index, Signal.clampZ. split; lia. Qed.
