From Coq Require Import List Arith Lia.
From SV Require Import Model.AntArray.
Import ListNotations.

Section Delay.
Variable A : Type.
Variables (own bg : nat -> A) (add : A -> A -> A).
Variables (maxd d : nat).
Hypothesis d_le : d <= maxd.
Notation take := (take A).
Notation get := (get A own bg add maxd d).
Notation reset := (reset A).
Notation zip_add := (zip_add A add).
Notation st := (st A).

Lemma take_skipn f c len k : k <= len -> skipn k (take f c len) = take f (c + k) (len - k).
Proof.
  intros H. unfold AntArray.take. rewrite skipn_map. f_equal.
  replace len with (k + (len - k)) at 1 by lia. rewrite seq_app, skipn_app.
  rewrite seq_length, Nat.sub_diag. rewrite skipn_all2 by (rewrite seq_length; lia). reflexivity.
Qed.
Lemma take_firstn f c len k : k <= len -> firstn k (take f c len) = take f c k.
Proof.
  intros H. unfold AntArray.take. rewrite firstn_map. f_equal.
  replace len with (k + (len - k)) by lia. rewrite seq_app, firstn_app.
  rewrite seq_length, Nat.sub_diag, firstn_O, app_nil_r. apply firstn_all2. rewrite seq_length; lia.
Qed.
Lemma take_app f c a b : take f c a ++ take f (c + a) b = take f c (a + b).
Proof. unfold AntArray.take. rewrite <- map_app, <- seq_app. reflexivity. Qed.

(* the aligned sum: own sample k with background sample k + maxd - d *)
Definition aligned (c len : nat) : list A := map (fun k => add (own k) (bg (k + maxd - d))) (seq c len).

Lemma zip_add_take c b len : zip_add (take own c len) (take bg b len) = map (fun j => add (own (c + j)) (bg (b + j))) (seq 0 len).
Proof.
  revert c b. induction len as [|len IH]; intros c b; [reflexivity|].
  unfold AntArray.take in *. cbn [seq map AntArray.zip_add]. rewrite !Nat.add_0_r. f_equal.
  rewrite IH. rewrite <- seq_shift, map_map. apply map_ext. intros j. f_equal; f_equal; lia.
Qed.
Lemma aligned_alt c len : aligned c len = map (fun j => add (own (c + j)) (bg (c + maxd - d + j))) (seq 0 len).
Proof.
  unfold aligned. revert c. induction len as [|len IH]; intros c; [reflexivity|].
  cbn [seq map]. rewrite Nat.add_0_r. f_equal; [f_equal; f_equal; lia|].
  rewrite IH. rewrite <- seq_shift, map_map. apply map_ext. intros j. f_equal; f_equal; lia.
Qed.
Lemma aligned_app c a b : aligned c a ++ aligned (c + a) b = aligned c (a + b).
Proof. unfold aligned. rewrite <- map_app, <- seq_app. reflexivity. Qed.

(* invariant between requests, t0 = time origin of the current observation, k = samples delivered since *)
Definition Inv (s : st) (t0 k : nat) :=
  started A s = true /\ pos A s = t0 + k + maxd /\ clock A s = t0 + k /\ cache A s = take bg (t0 + k + maxd - d) d.

Lemma first_request t0 n : maxd < n ->
  let '(out, s') := get (reset t0) n in
  out = aligned t0 n /\ Inv s' t0 n.
Proof.
  intros Hn. unfold AntArray.get, AntArray.reset; cbn [started pos clock cache]. split.
  - unfold slice. rewrite take_skipn by lia. rewrite take_firstn by lia.
    replace (n + maxd - d - (maxd - d)) with n by lia.
    rewrite zip_add_take, aligned_alt. apply map_ext. intros j. f_equal; f_equal; lia.
  - unfold Inv; cbn [started pos clock cache]. repeat split; try lia.
    rewrite take_skipn by lia. f_equal; lia.
Qed.

Lemma next_request s t0 k n : Inv s t0 k -> maxd < n ->
  let '(out, s') := get s n in
  out = aligned (t0 + k) n /\ Inv s' t0 (k + n).
Proof.
  intros (Hs & Hp & Hc & Hca) Hn. unfold AntArray.get. rewrite Hs, Hp, Hc, Hca. cbn [started pos clock cache]. split.
  - assert (E : take bg (t0 + k + maxd) n = take bg ((t0 + k + maxd - d) + d) n) by (f_equal; lia).
    rewrite E, take_app.
    rewrite take_firstn by lia. rewrite zip_add_take, aligned_alt. apply map_ext. intros j. f_equal.
  - unfold Inv; cbn [started pos clock cache]. repeat split; try lia.
    rewrite take_skipn by lia. f_equal; lia.
Qed.

Fixpoint gets (s : st) (reqs : list nat) : list A :=
  match reqs with [] => [] | n :: r => let '(o, s') := get s n in o ++ gets s' r end.

Lemma alignment_from : forall reqs s t0 k, Inv s t0 k -> Forall (fun n => maxd < n) reqs ->
  gets s reqs = aligned (t0 + k) (list_sum reqs).
Proof.
  induction reqs as [|n r IH]; intros s t0 k HI HF; [reflexivity|].
  inversion HF as [|? ? Hn Hr]; subst. cbn [gets list_sum].
  pose proof (next_request s t0 k n HI Hn) as H. destruct (get s n) as [o s']. destruct H as [Ho HI'].
  rewrite Ho, (IH s' t0 (k + n) HI' Hr). rewrite Nat.add_assoc. apply aligned_app.
Qed.

(* from any (re)start of the observation at t0, any request sequence (each larger than the largest delay) *)
Theorem alignment : forall t0 n reqs, maxd < n -> Forall (fun n => maxd < n) reqs ->
  gets (reset t0) (n :: reqs) = aligned t0 (list_sum (n :: reqs)).
Proof.
  intros t0 n reqs Hn HF. cbn [gets list_sum].
  pose proof (first_request t0 n Hn) as H. destruct (get _ n) as [o s']. destruct H as [Ho HI].
  rewrite Ho, (alignment_from reqs s' t0 n HI HF). apply aligned_app.
Qed.

(* set_time forgets everything carried over: what follows depends on the new origin only *)
Theorem reset_forgets : forall s t ops,
  run A own bg add maxd d s (SetTime t :: ops) = run A own bg add maxd d (reset t) ops.
Proof. reflexivity. Qed.

Lemma run_gets : forall reqs s, concat (run A own bg add maxd d s (map Get reqs)) = gets s reqs.
Proof.
  induction reqs as [|n r IH]; intros s; [reflexivity|]. cbn [map run gets].
  destruct (get s n) as [o s']. cbn [concat]. now rewrite IH.
Qed.

Corollary alignment_run : forall s t0 n reqs, maxd < n -> Forall (fun n => maxd < n) reqs ->
  concat (run A own bg add maxd d s (SetTime t0 :: map Get (n :: reqs))) = aligned t0 (list_sum (n :: reqs)).
Proof. intros. rewrite reset_forgets, run_gets. now apply alignment. Qed.
End Delay.
