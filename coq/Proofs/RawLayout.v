From Coq Require Import List ZArith Lia Bool.
From SV Require Import Base.PySeq Model.Backend Model.RawLayout Model.PFB Proofs.PFB Proofs.Backend.
Import ListNotations.
Local Open Scope Z_scope.

Section Layout.
Variables (q npols nchans nants sT n' last : Z).
Hypothesis Hq : 1 <= q. Hypothesis Hnp : 1 <= npols. Hypothesis Hnc : 1 <= nchans. Hypothesis Hna : 1 <= nants.
Hypothesis HsT : 1 <= sT. Hypothesis Hn' : 1 <= n'. Hypothesis Hlast : 1 <= last <= sT.
Definition T := (n' - 1) * sT + last.        (* spectra per block; the sub-block plan of C20 *)
Definition len (s : Z) := if s =? n' - 1 then last else sT.
Definition valid (s a p c k comp : Z) :=
  0 <= s < n' /\ 0 <= a < nants /\ 0 <= p < npols /\ 0 <= c < nchans /\ 0 <= k < len s /\ 0 <= comp < q.
Notation bps := (bpsz q npols).

(* every write lands on the cell the GUPPI layout assigns to (antenna, channel, spectrum, pol, component) *)
Lemma write_sound s a p c k comp : valid s a p c k comp ->
  0 <= w_row nchans a c < nants * nchans /\
  0 <= w_tau sT s k < T /\
  w_row nchans a c = spec_row nchans a c /\
  w_col q npols sT s p k comp = spec_col q npols (w_tau sT s k) p comp /\
  0 <= w_col q npols sT s p k comp < T * bps.
Proof.
  unfold valid, w_row, spec_row, w_tau, w_col, spec_col, T, bpsz, len.
  intros (Hs & Ha & Hp & Hc & Hk & Hcomp).
  assert (H1 : q * p + comp + 1 <= q * npols) by nia.
  set (M := q * npols) in *.
  assert (HM : 1 <= M) by (unfold M; nia).
  assert (N1 : 0 <= s * (sT * M)) by (apply Z.mul_nonneg_nonneg; nia).
  assert (N2 : 0 <= k * M) by (apply Z.mul_nonneg_nonneg; unfold len in Hk; destruct (s =? n' - 1); lia).
  assert (N3 : 0 <= q * p) by nia.
  destruct (Z.eqb_spec s (n' - 1)) as [E|E].
  - assert (H2 : (s * sT + k + 1) * M <= ((n' - 1) * sT + last) * M) by (apply Z.mul_le_mono_nonneg_r; nia).
    repeat split; try nia.
  - assert (H2 : (s * sT + k + 1) * M <= ((n' - 1) * sT + last) * M) by (apply Z.mul_le_mono_nonneg_r; nia).
    repeat split; try nia.
Qed.

(* distinct logical samples go to distinct cells *)
Lemma spec_col_inj tau p comp tau' p' comp' :
  0 <= p < npols -> 0 <= comp < q -> 0 <= p' < npols -> 0 <= comp' < q ->
  spec_col q npols tau p comp = spec_col q npols tau' p' comp' -> tau = tau' /\ p = p' /\ comp = comp'.
Proof.
  unfold spec_col, bpsz. intros Hp Hc Hp' Hc' E.
  assert (R1 : 0 <= q * p + comp < q * npols) by nia.
  assert (R2 : 0 <= q * p' + comp' < q * npols) by nia.
  destruct (Z.div_mod_unique (q * npols) tau tau' (q * p + comp) (q * p' + comp')) as [E1 E2];
    [left; exact R1 | left; exact R2 | lia |].
  destruct (Z.div_mod_unique q p p' comp comp') as [E3 E4];
    [left; lia | left; lia | lia |].
  repeat split; assumption.
Qed.

(* every cell of the block is written *)
Lemma cover row col : 0 <= row < nants * nchans -> 0 <= col < T * bps ->
  exists s a p c k comp, valid s a p c k comp /\
    row = w_row nchans a c /\ col = w_col q npols sT s p k comp.
Proof.
  unfold T, bpsz. intros Hr Hc.
  set (a := row / nchans). set (c := row mod nchans).
  set (tau := col / (q * npols)). set (rem := col mod (q * npols)).
  set (p := rem / q). set (comp := rem mod q).
  assert (Hqn : 1 <= q * npols) by nia.
  assert (Hdm1 := Z.div_mod row nchans ltac:(lia)). assert (Hm1 := Z.mod_pos_bound row nchans ltac:(lia)).
  assert (Hdm2 := Z.div_mod col (q * npols) ltac:(lia)). assert (Hm2 := Z.mod_pos_bound col (q * npols) ltac:(lia)).
  assert (Hdm3 := Z.div_mod rem q ltac:(lia)). assert (Hm3 := Z.mod_pos_bound rem q ltac:(lia)).
  fold a c in Hdm1, Hm1. fold tau rem in Hdm2, Hm2. fold p comp in Hdm3, Hm3.
  assert (Htau : 0 <= tau < (n' - 1) * sT + last) by (unfold tau; split; [apply Z.div_pos; lia | apply Z.div_lt_upper_bound; nia]).
  set (s := Z.min (tau / sT) (n' - 1)). set (k := tau - s * sT).
  assert (Hdm4 := Z.div_mod tau sT ltac:(lia)). assert (Hm4 := Z.mod_pos_bound tau sT ltac:(lia)).
  assert (Hq4 : 0 <= tau / sT) by (apply Z.div_pos; lia).
  exists s, a, p, c, k, comp. unfold valid, w_row, w_col, len, bpsz.
  assert (Ha : 0 <= a < nants) by (unfold a; split; [apply Z.div_pos; lia | apply Z.div_lt_upper_bound; nia]).
  assert (Hp : 0 <= p < npols) by (unfold p; split; [apply Z.div_pos; lia | apply Z.div_lt_upper_bound; nia]).
  assert (Hs : 0 <= s < n') by (unfold s; lia).
  assert (Hk : 0 <= k < (if s =? n' - 1 then last else sT)).
  { unfold k. destruct (Z.eqb_spec s (n' - 1)) as [E|E]; unfold s in *.
    - destruct (Z.min_spec (tau / sT) (n' - 1)) as [[L M]|[L M]]; rewrite M in *; nia.
    - destruct (Z.min_spec (tau / sT) (n' - 1)) as [[L M]|[L M]]; rewrite M in *; [nia|lia]. }
  repeat split; try lia; unfold k; nia.
Qed.
End Layout.

(* ---------- 4-bit packing: fits int8, and both decoders invert it ---------- *)
Definition nibbles : list Z := map (fun k => Z.of_nat k - 8) (seq 0 16).

Lemma In_nibbles x : -8 <= x <= 7 -> In x nibbles.
Proof.
  intros H. unfold nibbles. apply in_map_iff. exists (Z.to_nat (x + 8)). split; [lia|]. apply in_seq. lia.
Qed.

Lemma nibble_table :
  forallb (fun R => forallb (fun I =>
    let Q := encode4 R I in
    (-128 <=? Q) && (Q <=? 127) &&
    (let '(r, i) := decode4 Q in (r =? R) && (i =? I)) &&
    (let '(r, i) := decode4_std Q in (r =? R) && (i =? I))) nibbles) nibbles = true.
Proof. vm_compute. reflexivity. Qed.

Theorem nibble_roundtrip R I : -8 <= R <= 7 -> -8 <= I <= 7 ->
  -128 <= encode4 R I <= 127 /\ decode4 (encode4 R I) = (R, I) /\ decode4_std (encode4 R I) = (R, I).
Proof.
  intros HR HI. pose proof nibble_table as T.
  rewrite forallb_forall in T. specialize (T R (In_nibbles R HR)).
  rewrite forallb_forall in T. specialize (T I (In_nibbles I HI)). cbv zeta in T.
  apply andb_true_iff in T. destruct T as [T T3]. apply andb_true_iff in T. destruct T as [T T2].
  apply andb_true_iff in T. destruct T as [T0 T1].
  destruct (decode4 (encode4 R I)) as [r i]. destruct (decode4_std (encode4 R I)) as [r' i'].
  apply andb_true_iff in T2. destruct T2 as [A B]. apply andb_true_iff in T3. destruct T3 as [A' B'].
  apply Z.eqb_eq in A, B, A', B'. apply Z.leb_le in T0, T1. subst. repeat split; try lia; reflexivity.
Qed.

(* ---------- time order across sub-blocks, blocks and files ----------
   the backend feeds the filterbank the antenna stream cut at its request sizes; each request is a
   positive multiple of taps*nb, so by C08's chunk invariance the spectra come out exactly as from
   one call on the whole stream, whatever the sub-block plan and however blocks fall into files *)
Fixpoint split {A} (sizes : list nat) (xs : list A) : list (list A) :=
  match sizes with
  | [] => []
  | n :: r => firstn n xs :: split r (skipn n xs)
  end.

Lemma split_concat {A} sizes : forall (xs : list A), length xs = list_sum sizes -> concat (split sizes xs) = xs.
Proof.
  induction sizes as [|n r IH]; intros xs H.
  - destruct xs; [reflexivity|discriminate].
  - cbn [split concat]. rewrite IH; [apply firstn_skipn|]. rewrite skipn_length. unfold list_sum in *. cbn [fold_right] in H. lia.
Qed.

Lemma split_admissible {A} taps nb sizes : forall (xs : list A), length xs = list_sum sizes ->
  Forall (fun n => exists k, (1 <= k)%nat /\ n = (k * PFB.win taps nb)%nat) sizes ->
  Forall (admissible A taps nb) (split sizes xs).
Proof.
  induction sizes as [|n r IH]; intros xs H HF; [constructor|].
  inversion HF as [|? ? [k [Hk Hn]] Hr]; subst. cbn [split]. unfold list_sum in *. cbn [fold_right] in H. constructor.
  - exists k. split; [assumption|]. rewrite firstn_length. lia.
  - apply IH; [rewrite skipn_length; lia|assumption].
Qed.

Theorem time_order (A Row : Type) (fir : list A -> Row) (taps nb : nat) :
  (0 < taps)%nat -> (0 < nb)%nat ->
  forall sizes (xs : list A), sizes <> [] -> length xs = list_sum sizes ->
  Forall (fun n => exists k, (1 <= k)%nat /\ n = (k * PFB.win taps nb)%nat) sizes ->
  PFB.run A Row fir taps nb None (split sizes xs) = PFB.rows A Row fir taps nb xs.
Proof.
  intros Ht Hb sizes xs Hne Hlen HF.
  pose proof (split_admissible taps nb sizes xs Hlen HF) as Hadm.
  destruct sizes as [|n r]; [congruence|]. cbn [split] in *.
  inversion Hadm as [|? ? H1 H2]; subst.
  rewrite (chunking_from_start A Row fir taps nb Ht Hb _ _ H1 H2).
  f_equal. change (concat (split (n :: r) xs) = xs). now apply split_concat.
Qed.

(* hence the spectra do not depend on the sub-block plan *)
Corollary partition_independent (A Row : Type) (fir : list A -> Row) (taps nb : nat) :
  (0 < taps)%nat -> (0 < nb)%nat ->
  forall sizes1 sizes2 (xs : list A), sizes1 <> [] -> sizes2 <> [] ->
  length xs = list_sum sizes1 -> length xs = list_sum sizes2 ->
  Forall (fun n => exists k, (1 <= k)%nat /\ n = (k * PFB.win taps nb)%nat) sizes1 ->
  Forall (fun n => exists k, (1 <= k)%nat /\ n = (k * PFB.win taps nb)%nat) sizes2 ->
  PFB.run A Row fir taps nb None (split sizes1 xs) = PFB.run A Row fir taps nb None (split sizes2 xs).
Proof. intros. rewrite !time_order by assumption. reflexivity. Qed.

(* the layout section's (sT, n', last) are exactly what the sub-block plan of C20 produces *)
Lemma plan_T tps w nsub : 1 <= tps -> 1 <= w -> 1 <= nsub ->
  let ws := ws_of w nsub in
  let n' := nsub_eff w nsub in
  let lastw := if (w mod ws =? 0) then ws else w mod ws in
  T (tps * ws) n' (tps * lastw) = tps * w /\ 1 <= tps * ws /\ 1 <= n' /\ 1 <= tps * lastw <= tps * ws.
Proof.
  intros Ht Hw Hn. cbv zeta. unfold nsub_eff. unfold ws_of.
  pose proof (partition_sum w nsub Hw Hn) as P. cbv zeta in P.
  set (ws := cdiv w nsub) in *. set (n' := cdiv w ws) in *.
  set (lastw := if w mod ws =? 0 then ws else w mod ws) in *.
  destruct P as (H1 & H2 & H3 & H4). clearbody lastw n' ws.
  unfold T. split; [transitivity (tps * ((n' - 1) * ws + lastw)); [ring | now rewrite H4]|].
  split; [nia|]. split; [lia|]. split; [nia|]. apply Z.mul_le_mono_nonneg_l; lia.
Qed.

(* full-hypothesis restatements (sections drop unused hypotheses) *)
Lemma cover_full q npols nchans nants sT n' last :
  1 <= q -> 1 <= npols -> 1 <= nchans -> 1 <= nants -> 1 <= sT -> 1 <= n' -> 1 <= last <= sT ->
  forall row col, 0 <= row < nants * nchans -> 0 <= col < T sT n' last * bpsz q npols ->
  exists s a p c k comp, valid q npols nchans nants sT n' last s a p c k comp /\
    row = w_row nchans a c /\ col = w_col q npols sT s p k comp.
Proof. intros. eapply cover; eauto. Qed.
Lemma spec_col_inj_full q npols : 1 <= q -> 1 <= npols ->
  forall tau p comp tau' p' comp',
  0 <= p < npols -> 0 <= comp < q -> 0 <= p' < npols -> 0 <= comp' < q ->
  spec_col q npols tau p comp = spec_col q npols tau' p' comp' -> tau = tau' /\ p = p' /\ comp = comp'.
Proof. intros Hq Hnp tau p comp tau' p' comp' A B C D E. exact (spec_col_inj q npols Hq tau p comp tau' p' comp' A B C D E). Qed.
