(* The definitions of Kernels/Gen20.v -- regenerated on every run from /repo's current source by tools/py2v.py --
   equal the hand-written model functions the C20 theorems speak about.  An edit of one of those source lines
   changes Gen20.v and with it these obligations. *)
From Coq Require Import List ZArith QArith Qround Qabs Lia Lqa Bool.
From SV Require Import Base.Rounding Kernels.Gen20 Model.Backend.
Local Open Scope Q_scope.

Lemma k_bytes_per_sample c : src_bytes_per_sample (npols c) (nbits c) = bps c.
Proof. reflexivity. Qed.
Lemma k_samples_per_block c : src_samples_per_block (block_size c) (nants c) (nchans c) (bps c) = spb c.
Proof. reflexivity. Qed.
Lemma k_total_samples c n : src_total_obs_num_samples n (spb c) (nb c) = total_samples c n.
Proof. reflexivity. Qed.
Lemma k_pktstop c start n : src_pktstop start n (spb c) = pktstop c start n.
Proof. reflexivity. Qed.
Lemma k_obs_length_blocks n spb_ tbin : src_record_obs_length n (src_time_per_block spb_ tbin) == inject_Z (n * spb_) * tbin.
Proof. unfold src_record_obs_length, src_time_per_block. rewrite inject_Z_mult. ring. Qed.

(* get_num_blocks(obs_length): for a non-negative duration it is floor(obs_length / time_per_block) when block_size holds spb samples of
   every antenna and channel and |chan_bw| = 1 / tbin *)
Theorem k_get_num_blocks obs cbw tbin nants nchans bps_ spb_ : 0 <= obs -> 0 < tbin -> (1 <= nants)%Z -> (1 <= nchans)%Z -> (1 <= bps_)%Z -> (1 <= spb_)%Z ->
  Qabs cbw == / tbin ->
  src_get_num_blocks obs cbw nants nchans bps_ (spb_ * (nants * nchans * bps_)) = Qfloor (obs / (inject_Z spb_ * tbin)).
Proof.
  intros Ho Ht Ha Hc Hb Hs Hw. unfold src_get_num_blocks.
  assert (N1 : ~ inject_Z nants == 0) by (intros E; unfold Qeq in E; cbn in E; lia).
  assert (N2 : ~ inject_Z nchans == 0) by (intros E; unfold Qeq in E; cbn in E; lia).
  assert (N3 : ~ inject_Z bps_ == 0) by (intros E; unfold Qeq in E; cbn in E; lia).
  assert (N4 : ~ inject_Z spb_ == 0) by (intros E; unfold Qeq in E; cbn in E; lia).
  assert (N5 : ~ tbin == 0) by (intros E; rewrite E in Ht; discriminate).
  assert (E : obs * Qabs cbw * inject_Z nants * inject_Z nchans * inject_Z bps_ / inject_Z (spb_ * (nants * nchans * bps_)) == obs / (inject_Z spb_ * tbin)).
  { rewrite Hw, !inject_Z_mult. field. repeat split; assumption. }
  assert (P : 0 <= obs / (inject_Z spb_ * tbin)).
  { apply Qle_shift_div_l; [|rewrite Qmult_0_l; exact Ho].
    apply Qmult_lt_0_compat; [|exact Ht]. change 0 with (inject_Z 0). rewrite <- Zlt_Qlt. lia. }
  unfold qtrunc.
  assert (Q0 : 0 <= obs * Qabs cbw * inject_Z nants * inject_Z nchans * inject_Z bps_ / inject_Z (spb_ * (nants * nchans * bps_))) by (rewrite E; exact P).
  apply Qle_bool_iff in Q0. rewrite Q0. apply Qfloor_comp. exact E.
Qed.

Theorem k20_all c n start spb_ tbin :
  src_bytes_per_sample (npols c) (nbits c) = bps c /\ src_samples_per_block (block_size c) (nants c) (nchans c) (bps c) = spb c /\
  src_total_obs_num_samples n (spb c) (nb c) = total_samples c n /\ src_pktstop start n (spb c) = pktstop c start n /\
  src_record_obs_length n (src_time_per_block spb_ tbin) == inject_Z (n * spb_) * tbin.
Proof.
  repeat match goal with |- _ /\ _ => split end; [apply k_bytes_per_sample|apply k_samples_per_block|apply k_total_samples|apply k_pktstop|apply k_obs_length_blocks].
Qed.
