(* The definitions of Kernels/Gen20.v -- regenerated on every run from /repo's current source by tools/py2v.py --
   equal the hand-written model functions the C20 theorems speak about.  An edit of one of those source lines
   changes Gen20.v and with it these obligations. *)
From Coq Require Import List ZArith QArith Qround Qabs Lia Lqa Bool.
From SV Require Import Base.Rounding Kernels.Gen20 Model.Backend.
Local Open Scope Q_scope.

Lemma k_bytes_per_sample c : src_bytes_per_sample (npols c) (nbits c) = bps c.
Proof. reflexivity. Qed.
Lemma k_samples_per_block c : src_samples_per_block (block_size c) (nants c) (nchans c) (bps c) = spb c.
Proof. reflexivity. Qed.
Lemma k_total_samples c n : src_total_obs_num_samples n (spb c) (nb c) = total_samples c n.
Proof. reflexivity. Qed.
Lemma k_pktstop c start n : src_pktstop start n (spb c) = pktstop c start n.
Proof. reflexivity. Qed.
Lemma k_obs_length_blocks n spb_ tbin : src_record_obs_length n (src_time_per_block spb_ tbin) == inject_Z (n * spb_) * tbin.
Proof. unfold src_record_obs_length, src_time_per_block. rewrite inject_Z_mult. ring. Qed.

Theorem k20_all c n start spb_ tbin :
  src_bytes_per_sample (npols c) (nbits c) = bps c /\ src_samples_per_block (block_size c) (nants c) (nchans c) (bps c) = spb c /\
  src_total_obs_num_samples n (spb c) (nb c) = total_samples c n /\ src_pktstop start n (spb c) = pktstop c start n /\
  src_record_obs_length n (src_time_per_block spb_ tbin) == inject_Z (n * spb_) * tbin.
Proof.
  repeat match goal with |- _ /\ _ => split end; [apply k_bytes_per_sample|apply k_samples_per_block|apply k_total_samples|apply k_pktstop|apply k_obs_length_blocks].
Qed.
