(* The definition of Kernels/Gen10.v -- regenerated on every run from /repo's current source by tools/py2v.py: the argument of the
   cosine in DataStream.add_constant_signal, with the local chirp_phase and its guarded negation inlined -- is 2*pi times the
   model's phase in cycles, plus the user phase. *)
From Coq Require Import List ZArith QArith Lia Lqa Bool.
From SV Require Import Kernels.Gen10 Model.Stream.
Local Open Scope Q_scope.

Theorem k10_chirp f_start fch1 drift t phase pi asc :
  src_chirp_arg f_start fch1 drift t phase pi asc == 2 * pi * chirp_cycles f_start fch1 drift asc t + phase.
Proof. unfold src_chirp_arg, chirp_cycles. change (inject_Z 2) with 2. destruct asc; cbn [negb]; ring. Qed.
