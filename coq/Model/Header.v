(* C04 -- GUPPI RAW header cards, header dictionary assembly, block framing and the library's
   readers (setigen/voltage/backend.py: _make_header, _header_*; raw_utils.py).
   Numbers reach the model already rendered by Python (str / format are environment);
   the model does justification, quoting, padding, framing and dictionary bookkeeping. *)
From Coq Require Import List Arith Lia Bool String Ascii.
Import ListNotations.
Local Open Scope string_scope.

(* ---------------- cards ---------------- *)
Fixpoint spaces (n : nat) : string := match n with O => "" | S k => String " " (spaces k) end.
Definition ljust (n : nat) (s : string) : string := s ++ spaces (n - String.length s).
Definition rjust (n : nat) (s : string) : string := spaces (n - String.length s) ++ s.

Inductive value :=
| Num (rendered : string)       (* int / float, rendered by Python (TBIN with .14E) *)
| Str (s : string)              (* plain Python str: wrapped in quotes, padded to 8 *)
| Enc (s : string).             (* str already starting with a quote: written as is *)

Definition format_line (key : string) (v : value) : string :=
  let k := ljust 8 key ++ "= " in
  ljust 80 (match v with
            | Num r => k ++ rjust 20 r
            | Str s => k ++ ljust 20 ("'" ++ ljust 8 s ++ "'")
            | Enc s => k ++ ljust 20 s
            end).
Definition end_card : string := ljust 80 "END".

(* ---------------- padding ---------------- *)
(* zero bytes after the END card when DIRECTIO is non-zero; n = number of cards incl. END *)
Definition pad_len (ncards : nat) (dio : bool) : nat :=
  if dio then (512 - (80 * ncards) mod 512) mod 512 else 0.
(* what the unrepaired code wrote: 512 - (80 n % 512), i.e. 512 extra bytes when aligned *)
Definition pad_len_unrepaired (ncards : nat) (dio : bool) : nat :=
  if dio then 512 - (80 * ncards) mod 512 else 0.

(* ---------------- header dictionary (Python dict: insertion order, in-place update) ---------------- *)
Definition dict := list (string * value).
Fixpoint lookup (d : dict) (k : string) : option value :=
  match d with [] => None | (k', v) :: r => if String.eqb k' k then Some v else lookup r k end.
Fixpoint dset (d : dict) (k : string) (v : value) : dict :=
  match d with
  | [] => [(k, v)]
  | (k', v') :: r => if String.eqb k' k then (k, v) :: r else (k', v') :: dset r k v
  end.
Definition dset_default (d : dict) (k : string) (v : value) : dict :=
  match lookup d k with Some _ => d | None => dset d k v end.

(* template cards are taken only for keys the caller did not give *)
Definition add_template (tpl : dict) (d : dict) : dict :=
  fold_left (fun acc kv => dset_default acc (fst kv) (snd kv)) tpl d.

Record hcfg := {
  h_nbits : value; h_chan_bw : value; h_npol : value; h_blocsize : value; h_scanlen : value;
  h_tbin : value; h_nants : value; h_is_array : bool; h_obsnchan : value; h_obsbw : value; h_obsfreq : value;
  h_pktstop_of : value -> value       (* PKTSTART -> PKTSTART + num_blocks*spb, rendered *) }.

Definition owned : list string :=
  ["NBITS"; "CHAN_BW"; "NPOL"; "BLOCSIZE"; "SCANLEN"; "TBIN"; "OBSNCHAN"; "OBSBW"; "OBSFREQ"; "PKTSTOP"].

(* _header_populate_configuration (no input RAW header); NANTS is pipeline-owned too: forced for arrays,
   and for a single antenna a caller-supplied NANTS is reset to the real antenna count *)
Definition nants_step (c : hcfg) (d : dict) : dict :=
  if h_is_array c then dset d "NANTS" (h_nants c)
  else match lookup d "NANTS" with Some _ => dset d "NANTS" (h_nants c) | None => d end.

Definition populate (c : hcfg) (pktidx0 : value) (d : dict) : dict :=
  let d := dset_default d "TELESCOP" (Str "SETIGEN") in
  let d := dset_default d "OBSERVER" (Str "SETIGEN") in
  let d := dset_default d "SRC_NAME" (Str "SYNTHETIC") in
  let d := dset d "NBITS" (h_nbits c) in
  let d := dset d "CHAN_BW" (h_chan_bw c) in
  let d := dset d "NPOL" (h_npol c) in
  let d := dset d "BLOCSIZE" (h_blocsize c) in
  let d := dset d "SCANLEN" (h_scanlen c) in
  let d := dset d "TBIN" (h_tbin c) in
  let d := nants_step c d in
  let d := dset d "OBSNCHAN" (h_obsnchan c) in
  let d := dset d "OBSBW" (h_obsbw c) in
  let d := dset d "OBSFREQ" (h_obsfreq c) in
  let d := dset d "PKTIDX" pktidx0 in       (* default 0, then int(...) -- value rendered by the harness *)
  let d := dset_default d "PKTSTART" pktidx0 in
  let pstart := match lookup d "PKTSTART" with Some v => v | None => pktidx0 end in
  dset d "PKTSTOP" (h_pktstop_of c pstart).

(* ---------------- one block / one file as written ---------------- *)
(* (cards incl. END, number of zero pad bytes, number of data bytes) *)
Definition block_image (d : dict) (dio : bool) (blocsize : nat) : list string * nat * nat :=
  let cards := (map (fun kv => format_line (fst kv) (snd kv)) d ++ [end_card])%list in
  (cards, pad_len (List.length cards) dio, blocsize).

(* ---------------- readers ---------------- *)
(* header bytes on disk for a header of n cards (incl. END) *)
Definition header_size (ncards : nat) (dio : bool) : nat := 80 * ncards + pad_len ncards dio.
(* get_blocks_in_file: reads header_size + BLOCSIZE at a time until the file is exhausted *)
Definition blocks_in_file (file_len ncards : nat) (dio : bool) (blocsize : nat) : nat :=
  let step := header_size ncards dio + blocsize in
  (file_len + step - 1) / step.
(* get_total_blocks over the (sorted) list of per-file lengths *)
Definition total_blocks (file_lens : list nat) (ncards : nat) (dio : bool) (blocsize : nat) : nat :=
  match file_lens with
  | [] => 0
  | f0 :: _ =>
    let bpf := blocks_in_file f0 ncards dio blocsize in
    if Nat.eqb (List.length file_lens) 1 then bpf
    else bpf * (List.length file_lens - 1) + blocks_in_file (last file_lens 0) ncards dio blocsize
  end.
