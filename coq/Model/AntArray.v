(* C15 -- MultiAntennaArray.get_samples: shared background stream delayed per antenna
   (setigen/voltage/antenna.py).  One antenna (delay d <= maxd) of the array is modelled;
   antennas only share the background stream, which every antenna reads identically, so the
   array is the map of this model over the delay vector.

   [own k] / [bg k] are the antenna's own and the background stream's samples at absolute
   sample index k (clock * sample_rate); [add] is the voltage sum. *)
From Coq Require Import List Arith Lia.
Import ListNotations.

Section Delay.
Variable A : Type.
Variables (own bg : nat -> A) (add : A -> A -> A).
Variables (maxd d : nat).

Definition take (f : nat -> A) (c len : nat) : list A := map f (seq c len).
(* xs[l:r] for 0 <= l, r (Python slice, clipped by the list) *)
Definition slice (l r : nat) (xs : list A) := firstn (r - l) (skipn l xs).
Fixpoint zip_add (x y : list A) : list A :=
  match x, y with a :: x', b :: y' => add a b :: zip_add x' y' | _, _ => [] end.

(* started = not start_obs ; pos = background samples consumed (absolute index of the next one);
   clock = absolute index of the antenna stream's next own sample ; cache = bg_cache *)
Record st := { started : bool; pos : nat; clock : nat; cache : list A }.

Definition get (s : st) (n : nat) : list A * st :=
  let ownv := take own (clock s) n in
  if started s then
    let bgv := take bg (pos s) n in
    (zip_add ownv (firstn n (cache s ++ bgv)),
     {| started := true; pos := pos s + n; clock := clock s + n; cache := skipn (n - d) bgv |})
  else
    let m := n + maxd in
    let bgv := take bg (pos s) m in
    (zip_add ownv (slice (maxd - d) (m - d) bgv),
     {| started := true; pos := pos s + m; clock := clock s + n; cache := skipn (m - d) bgv |}).

(* set_time(t) / add_time / reset_start: clocks moved, start flag raised, carried-over background dropped *)
Definition reset (t : nat) : st := {| started := false; pos := t; clock := t; cache := [] |}.

Inductive op := Get (n : nat) | SetTime (t : nat).
Fixpoint run (s : st) (ops : list op) : list (list A) :=
  match ops with
  | [] => []
  | Get n :: r => let '(o, s') := get s n in o :: run s' r
  | SetTime t :: r => run (reset t) r
  end.
End Delay.
