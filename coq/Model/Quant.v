(* C09 -- quantisers (setigen/voltage/quantization.py, data_stream.estimate_stats).
   quantize_real over exact rationals (theorems) and over binary64 (bit-exact twin of the
   numpy expression  clip(around(factor*(x - mean) + target_mean), -2^(b-1), 2^(b-1)-1) ),
   and the RealQuantizer / ComplexQuantizer refresh state machine, which records from
   WHICH call's data the cached statistics were taken. *)
From Coq Require Import List ZArith QArith Qround Lia Bool PrimFloat.
From SV Require Import Base.Rounding Base.F64.
Import ListNotations.

(* ---------------- exact ---------------- *)
Definition qlo (b : Z) : Z := (- 2 ^ (b - 1))%Z.
Definition qhi (b : Z) : Z := (2 ^ (b - 1) - 1)%Z.
Definition clipZ (lo hi z : Z) : Z := Z.min (Z.max z lo) hi.
Definition factor (ts ds : Q) : Q := if Qeq_bool ds 0 then 0 else ts / ds.
Definition affine (tm ts dm ds x : Q) : Q := factor ts ds * (x - dm) + tm.
Definition quantize_real (b : Z) (tm ts dm ds x : Q) : Z :=
  clipZ (qlo b) (qhi b) (rhe (affine tm ts dm ds x)).

(* estimate_stats looks at voltages[:min(num, len)] *)
Definition stats_prefix {A} (num : nat) (v : list A) : list A := firstn (Nat.min num (length v)) v.

(* ---------------- binary64 twin ---------------- *)
Definition ffactor (ts ds : float) : float := if PrimFloat.eqb ds 0 then 0%float else (ts / ds)%float.
Definition quantize_real_f (b : Z) (tm ts dm ds x : float) : Z :=
  let y := rint ((ffactor ts ds * (x - dm)) + tm)%float in
  to_Z_trunc (fclip y (of_Z (qlo b)) (of_Z (qhi b))).

(* ---------------- refresh state machine ---------------- *)
(* idx = stats_calc_indices; src = index (0-based, counted over all quantize calls of this
   object) of the call whose leading samples produced the cached statistics *)
Record rq := { idx : Z; period : Z; src : option nat; ncalls : nat }.
Definition fresh (p : Z) : rq := {| idx := 0; period := p; src := None; ncalls := 0 |}.
Definition reset (q : rq) : rq := {| idx := 0; period := period q; src := None; ncalls := ncalls q |}.

(* one quantize() call: returns the new state and the call index whose statistics are used *)
Definition qstep (q : rq) : rq * nat :=
  let used := if (idx q =? 0)%Z then ncalls q
              else match src q with Some s => s | None => ncalls q end in
  let i := (idx q + 1)%Z in
  ({| idx := if (i =? period q)%Z then 0%Z else i; period := period q;
      src := Some used; ncalls := S (ncalls q) |}, used).

Inductive qop := Quant | Reset.
Fixpoint qrun (q : rq) (ops : list qop) : list nat :=
  match ops with
  | [] => []
  | Quant :: r => let '(q', u) := qstep q in u :: qrun q' r
  | Reset :: r => qrun (reset q) r
  end.

(* k successive calls *)
Fixpoint after (q : rq) (k : nat) : rq := match k with O => q | S k => fst (qstep (after q k)) end.

(* ComplexQuantizer: two RealQuantizers driven in lock step on real and imaginary parts *)
Definition cq := (rq * rq)%type.
Definition cstep (c : cq) : cq * (nat * nat) :=
  let '(r, u1) := qstep (fst c) in let '(i, u2) := qstep (snd c) in ((r, i), (u1, u2)).
