(* C17 -- derived frames: get_slice (slice.py), dedrift (dedrift.py), integrate (integrate.py). *)
From Coq Require Import List Arith ZArith QArith Qround Qabs Lia Bool.
From SV Require Import Base.Tab Base.Rounding.
Import ListNotations.
Local Open Scope Q_scope.

Definition nq (n : nat) : Q := inject_Z (Z.of_nat n).

(* data is stored with the frequency axis increasing in memory for both orientations (C05) *)
Record dframe := { T : nat; F : nat; df : Q; dt : Q; fmin : Q; ascending : bool;
                   t_start : Q; source : nat; data : list (list Q) }.
Definition fs (fr : dframe) (j : nat) : Q := fmin fr + nq j * df fr.
Definition fch1 (fr : dframe) : Q := if ascending fr then fmin fr else fs fr (F fr - 1).

Inductive result (A : Type) := Ok (a : A) | Err.
Arguments Ok {A} _. Arguments Err {A}.

(* ---- frequency slice [l, r) ---- *)
Definition get_slice (fr : dframe) (l r : nat) : dframe :=
  {| T := T fr; F := r - l; df := df fr; dt := dt fr; fmin := fs fr l; ascending := ascending fr;
     t_start := t_start fr; source := source fr;
     data := map (fun row => firstn (r - l) (skipn l row)) (data fr) |}.

(* ---- de-drifting ---- *)
(* channels the signal has moved after i time steps: round(|d| * i * dt / df), half to even *)
Definition offset (fr : dframe) (d : Q) (i : nat) : nat := Z.to_nat (rhe (Qabs d * nq i * dt fr / df fr)).
Definition max_offset (fr : dframe) (d : Q) : nat := offset fr d (T fr).

Definition dedrift_row (fr : dframe) (d : Q) (w : nat) (i : nat) (row : list Q) : list Q :=
  let off := offset fr d i in
  if Qle_bool 0 d then firstn w (skipn off row)
  else firstn w (skipn (F fr - off - w) row).

Definition dedrift (fr : dframe) (d : Q) : result dframe :=
  let mo := max_offset fr d in
  if (F fr <=? mo)%nat then Err
  else
    let w := (F fr - mo)%nat in
    Ok {| T := T fr; F := w; df := df fr; dt := dt fr;
          fmin := if Qle_bool 0 d then fs fr 0 else fs fr mo;
          ascending := ascending fr; t_start := t_start fr; source := source fr;
          data := map (fun i => dedrift_row fr d w i (nth i (data fr) [])) (seq 0 (T fr)) |}.

(* ---- integration ---- *)
Definition qsum (l : list Q) : Q := fold_right Qplus 0 l.
Definition column (M : list (list Q)) (j : nat) : list Q := map (fun row => nth j row 0) M.
(* spectrum: per-column sum or mean over time; time series: per-row sum or mean over frequency *)
Definition spectrum (fr : dframe) (use_mean : bool) : list Q :=
  tab (F fr) (fun j => let s := qsum (column (data fr) j) in if use_mean then s / nq (T fr) else s).
Definition timeseries (fr : dframe) (use_mean : bool) : list Q :=
  map (fun row => let s := qsum row in if use_mean then s / nq (F fr) else s) (data fr).
(* normalisation of an integrated vector: x -> (x - m) / s, with m and s the (sigma-clipped) mean and deviation of the vector *)
Definition normalise (m s : Q) (xs : list Q) : list Q := map (fun x => (x - m) / s) xs.
Definition vmean (l : list Q) : Q := qsum l / nq (length l).
Fixpoint vsumsq (l : list Q) (mu : Q) : Q := match l with [] => 0 | x :: r => (x - mu) * (x - mu) + vsumsq r mu end.
Definition vvar (l : list Q) : Q := vsumsq l (vmean l) / nq (length l).
