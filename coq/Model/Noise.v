(* C11 -- synthetic noise and SNR bookkeeping (setigen/frame.py add_noise / add_noise_from_obs /
   zero_data / get_intensity / get_snr, setigen/distributions.py, setigen/sample_from_obs.py,
   voltage data_stream noise levels).

   The random generator is an oracle: the model says WHICH requests are made of it (kind, parameters,
   order) and what is done with the answers.  Everything is written once, over an abstract number type
   with the operations passed in, and instantiated twice: with exact rationals (theorems about moments,
   the floor, the inverse relation) and with binary64 (the executable twin compared bit-for-bit with
   the implementation). *)
From Coq Require Import List Arith ZArith QArith Lia Bool PrimFloat.
From SV Require Import Base.Rounding Base.F64.
Import ListNotations.
Local Open Scope nat_scope.

Section Gen.
  Context {A : Type}.
  Variables (zero : A) (is0 : A -> bool) (add mul div : A -> A -> A) (ltb : A -> A -> bool).
  Variable chi2_std : A -> A -> A.          (* sqrt(2k) * x_mean / k *)

  (* np.maximum(a, b) *)
  Definition gmax (a b : A) : A := if ltb a b then b else a.

  (* distributions.chi2: rng.chisquare(df=k, size) * x_mean / k *)
  Definition chi2_noise (x_mean k : A) (unit_draws : list A) : list A := map (fun u => div (mul u x_mean) k) unit_draws.
  (* distributions.truncated_gaussian: np.maximum(rng.normal(m, s, shape), x_min) *)
  Definition truncated (x_min : A) (draws : list A) : list A := map (fun z => gmax z x_min) draws.

  Fixpoint add_lists (d n : list A) : list A :=
    match d, n with a :: d', b :: n' => add a b :: add_lists d' n' | _, _ => [] end.

  (* what is asked of the generator, in order *)
  Inductive req := RIntegers (n : nat) | RChoice (tbl : nat) | RChi2 (k : A) | RNormal (loc scale : A).
  Record outcome := { reqs : list req; noise : list A; p_mean : A; p_std : A }.

  Inductive nkind := Chi2 (m : A) | Gauss (m s : A) | Trunc (m s mn : A).
  (* Frame.add_noise, given the generator's answer to its single request *)
  Definition gen_noise (k : A) (kind : nkind) (draws : list A) : outcome :=
    match kind with
    | Chi2 m => {| reqs := [RChi2 k]; noise := chi2_noise m k draws; p_mean := m; p_std := chi2_std m k |}
    | Gauss m s => {| reqs := [RNormal m s]; noise := draws; p_mean := m; p_std := s |}
    | Trunc m s mn => {| reqs := [RNormal m s]; noise := truncated mn draws; p_mean := m; p_std := s |}
    end.
  Definition after (pre : list req) (o : outcome) : outcome :=
    {| reqs := pre ++ reqs o; noise := noise o; p_mean := p_mean o; p_std := p_std o |}.

  (* Frame.add_noise_from_obs.  idx = the indices the generator answered with.  None = IndexError. *)
  Inductive okind := OChi2 | OShared (with_min : bool) | OIndep (with_min : bool).
  Definition from_obs (k : A) (means stds mins : list A) (ok : okind) (idx : list nat) (draws : list A) : option outcome :=
    match ok, idx with
    | OChi2, [i] => Some (after [RChoice 0] (gen_noise k (Chi2 (nth i means zero)) draws))
    | OShared true, [i] =>
        if Nat.eqb (length means) (length stds) && Nat.eqb (length means) (length mins)
        then Some (after [RIntegers (length means)] (gen_noise k (Trunc (nth i means zero) (nth i stds zero) (nth i mins zero)) draws))
        else None
    | OShared false, [i] =>
        if Nat.eqb (length means) (length stds)
        then Some (after [RIntegers (length means)] (gen_noise k (Gauss (nth i means zero) (nth i stds zero)) draws))
        else None
    | OIndep true, [i; j; l] =>
        Some (after [RChoice 0; RChoice 1; RChoice 2]
                (gen_noise k (Trunc (gmax (nth i means zero) (nth j stds zero)) (nth j stds zero) (nth l mins zero)) draws))
    | OIndep false, [i; j] =>
        Some (after [RChoice 0; RChoice 1]
                (gen_noise k (Gauss (gmax (nth i means zero) (nth j stds zero)) (nth j stds zero)) draws))
    | _, _ => None
    end.

  (* ---- the frame: data and the noise estimates ---- *)
  Record fstate := { data : list A; nmean : A; nstd : A }.
  Definition set_to_param (st : fstate) : bool := is0 (nmean st) && is0 (nstd st).
  (* self.data += noise; then either the requested parameters or the sigma-clipped re-estimate [est] (an oracle) *)
  Definition apply_noise (st : fstate) (o : outcome) (est : A * A) : fstate :=
    {| data := add_lists (data st) (noise o);
       nmean := if set_to_param st then p_mean o else fst est;
       nstd := if set_to_param st then p_std o else snd est |}.
  Definition zero_data (st : fstate) : fstate := {| data := map (fun _ => zero) (data st); nmean := zero; nstd := zero |}.
  Definition add_signal (st : fstate) (sig : list A) : fstate := {| data := add_lists (data st) sig; nmean := nmean st; nstd := nstd st |}.

  Inductive fop := ONoise (o : outcome) (est : A * A) | OZero | OSignal (sig : list A).
  Definition fstep (st : fstate) (op : fop) : fstate :=
    match op with ONoise o est => apply_noise st o est | OZero => zero_data st | OSignal sig => add_signal st sig end.
  Definition frun (st : fstate) (ops : list fop) : fstate := fold_left fstep ops st.
  Definition is_signal (op : fop) : bool := match op with OSignal _ => true | _ => false end.

  (* ---- SNR <-> intensity; r = sqrt(tchans) ---- *)
  Definition get_intensity (snr sigma r : A) : A := div (mul snr sigma) r.
  Definition get_snr (intensity sigma r : A) : A := div (mul intensity r) sigma.
End Gen.

Arguments req : clear implicits.
Arguments outcome : clear implicits.
Arguments nkind : clear implicits.
Arguments fstate : clear implicits.
Arguments fop : clear implicits.

(* ---------------- exact rationals ---------------- *)
Local Open Scope Q_scope.
Definition nq (n : nat) : Q := inject_Z (Z.of_nat n).
Definition qsum (l : list Q) : Q := fold_right Qplus 0 l.
Definition qmean (l : list Q) : Q := qsum l / nq (length l).
Fixpoint sumsq (l : list Q) (mu : Q) : Q := match l with [] => 0 | x :: r => (x - mu) * (x - mu) + sumsq r mu end.
Definition qvar (l : list Q) : Q := sumsq l (qmean l) / nq (length l).
Definition Qltb (a b : Q) : bool := negb (Qle_bool b a).
Definition chi2_noise_q := chi2_noise Qmult Qdiv.
Definition truncated_q := truncated Qltb.
(* the recorded deviation squared: (sqrt(2k) * x_mean / k)^2 = 2 x_mean^2 / k *)
Definition chi2_var (x_mean k : Q) : Q := 2 * x_mean * x_mean / k.
(* the bundled observation table was recorded at obs_dt seconds per spectrum: add_noise_from_obs without arrays scales every
   column entry to the frame's own dt, afresh on every call (nothing is kept between calls) *)
Definition obs_dt : Q := 14316557653333333 # 10000000000000000.
Definition default_entry (row dt : Q) : Q := row * (dt / obs_dt).
Definition get_intensity_q := get_intensity Qmult Qdiv.
Definition get_snr_q := get_snr Qmult Qdiv.

(* ---- voltage streams: deviations add in quadrature.  Variance-level abstraction (squares tracked). ---- *)
Record vstate := { own_var : list Q; bg_var : Q }.      (* one entry per antenna stream of a polarisation, and the shared background *)
Inductive vop := StreamNoise (ant : nat) (v_std : Q) | BackgroundNoise (v_std : Q).
Fixpoint upd (l : list Q) (i : nat) (f : Q -> Q) : list Q :=
  match l, i with [], _ => [] | x :: r, O => f x :: r | x :: r, S i' => x :: upd r i' f end.
Definition vstep (s : vstate) (o : vop) : vstate :=
  match o with
  | StreamNoise a v => {| own_var := upd (own_var s) a (fun x => x + v * v); bg_var := bg_var s |}
  | BackgroundNoise v => {| own_var := own_var s; bg_var := bg_var s + v * v |}
  end.
Definition total_var (s : vstate) (a : nat) : Q := nth a (own_var s) 0 + bg_var s.
Local Close Scope Q_scope.

(* ---------------- binary64 twin ---------------- *)
Local Open Scope float_scope.
Definition f0 : float := 0.
Definition fis0 (x : float) : bool := PrimFloat.eqb x 0.
Definition chi2_std_f (x_mean k : float) : float := PrimFloat.sqrt (2 * k) * x_mean / k.
Definition gen_noise_f := gen_noise PrimFloat.mul PrimFloat.div PrimFloat.ltb chi2_std_f.
Definition from_obs_f := from_obs f0 PrimFloat.mul PrimFloat.div PrimFloat.ltb chi2_std_f.
Definition fstep_f := fstep f0 fis0 PrimFloat.add.
Definition fresh_f (n : nat) : fstate float := {| data := repeat f0 n; nmean := f0; nstd := f0 |}.
Definition intensity_f (snr sigma : float) (tchans : Z) : float := get_intensity PrimFloat.mul PrimFloat.div snr sigma (PrimFloat.sqrt (of_Z tchans)).
Definition snr_f (i sigma : float) (tchans : Z) : float := get_snr PrimFloat.mul PrimFloat.div i sigma (PrimFloat.sqrt (of_Z tchans)).
(* DataStream.add_noise: noise_std = sqrt(noise_std**2 + v_std**2); get_total_noise_std = sqrt(noise_std**2 + bg**2) *)
Definition quad_f (a b : float) : float := PrimFloat.sqrt (a * a + b * b).
Record vstate_f := { own_f : list float; bg_f : float }.
Inductive vop_f := StreamNoiseF (ant : nat) (v : float) | BackgroundNoiseF (v : float).
Fixpoint updf (l : list float) (i : nat) (f : float -> float) : list float :=
  match l, i with [], _ => [] | x :: r, O => f x :: r | x :: r, S i' => x :: updf r i' f end.
Definition vstep_f (s : vstate_f) (o : vop_f) : vstate_f :=
  match o with
  | StreamNoiseF a v => {| own_f := updf (own_f s) a (fun x => quad_f x v); bg_f := bg_f s |}
  | BackgroundNoiseF v => {| own_f := own_f s; bg_f := quad_f (bg_f s) v |}
  end.
Definition totals_f (s : vstate_f) : list float := map (fun x => quad_f x (bg_f s)) (own_f s).

(* ---- executable trace of a frame history, observed as integers (for the correspondence check) ---- *)
Definition req_code (r : req float) : Z * (Z * Z) * (Z * Z) :=
  match r with
  | RIntegers n => (0%Z, obs (of_Z (Z.of_nat n)), obs 0)
  | RChoice t => (1%Z, obs (of_Z (Z.of_nat t)), obs 0)
  | RChi2 k => (2%Z, obs k, obs 0)
  | RNormal l s => (3%Z, obs l, obs s)
  end.
Inductive hop :=
  | HNoise (kind : nkind float) (draws : list float) (est : float * float)
  | HObs (means stds mins : list float) (ok : okind) (idx : list nat) (draws : list float) (est : float * float)
  | HZero
  | HSignal (sig : list float).
Definition hrow : Type := Z * list (Z * (Z * Z) * (Z * Z)) * list (Z * Z) * list (Z * Z) * ((Z * Z) * (Z * Z)) * bool.
Definition row_of (status : Z) (o : option (outcome float)) (was_param : bool) (st : fstate float) : hrow :=
  (status, match o with Some o => map req_code (reqs o) | None => [] end,
   match o with Some o => map obs (noise o) | None => [] end, map obs (data st), (obs (nmean st), obs (nstd st)), was_param).
Definition hstep (k : float) (acc : fstate float * list hrow) (h : hop) : fstate float * list hrow :=
  let '(st, rows) := acc in
  let wp := set_to_param fis0 st in
  match h with
  | HNoise kind draws est => let o := gen_noise_f k kind draws in let st' := fstep_f st (ONoise o est) in (st', rows ++ [row_of 0 (Some o) wp st'])
  | HObs means stds mins ok idx draws est =>
      match from_obs_f k means stds mins ok idx draws with
      | Some o => let st' := fstep_f st (ONoise o est) in (st', rows ++ [row_of 0 (Some o) wp st'])
      | None => (st, rows ++ [row_of 1 None wp st])
      end
  | HZero => let st' := fstep_f st OZero in (st', rows ++ [row_of 0 None wp st'])
  | HSignal sig => let st' := fstep_f st (OSignal sig) in (st', rows ++ [row_of 0 None wp st'])
  end.
Definition htrace (k : float) (st0 : fstate float) (ops : list hop) : list hrow := snd (fold_left (hstep k) ops (st0, [])).
Definition vtrace (nant : nat) (ops : list vop_f) : list (list (Z * Z) * (Z * Z) * list (Z * Z)) :=
  snd (fold_left (fun '(s, rows) o => let s' := vstep_f s o in (s', rows ++ [(map obs (own_f s'), obs (bg_f s'), map obs (totals_f s'))]))
                 ops ({| own_f := repeat f0 nant; bg_f := f0 |}, [])).
