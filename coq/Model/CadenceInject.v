(* C16 -- Cadence.add_signal / overwrite_times / slew_times / consolidate (setigen/cadence.py).
   The time axis of a frame is a list over an arbitrary carrier A; [shift] is "add the frame's start
   offset" (for doubles: ts + x).  No algebraic law of [shift] is assumed: the repaired loop puts the
   original object back instead of subtracting the offset again. *)
From Coq Require Import List Arith ZArith QArith Lia Bool.
Import ListNotations.

Section Inject.
Variable A : Type.
Variables (shift unshift : A -> A -> A) (minus : A -> A -> A).

Record cframe := { ts : list A; t_start : A; tag : nat }.

(* offset of frame m relative to the cadence's first frame *)
Definition offset_of (fs : list cframe) (f : cframe) : option A :=
  match fs with [] => None | f0 :: _ => Some (minus (t_start f) (t_start f0)) end.

(* what single-frame injection sees while frame f is processed *)
Definition visible_ts (off : A) (f : cframe) : list A := map (fun t => shift t off) (ts f).

(* injection into one frame may raise (e.g. from a user callback); [fails k] = the k-th frame raises.
   It reads the (shifted) time axis and changes only the frame's data, which is not tracked here. *)
Inductive outcome := Done | Raised (k : nat).

(* repaired loop: ts := ts + off ; try: inject ; finally: ts := the original axis *)
Fixpoint inject_all (fails : nat -> bool) (k : nat) (fs : list cframe) : list cframe * outcome :=
  match fs with
  | [] => ([], Done)
  | f :: r =>
      if fails k then (f :: r, Raised k)
      else let '(r', o) := inject_all fails (S k) r in (f :: r', o)
  end.

(* the unrepaired loop: ts += off ; inject ; ts -= off, with nothing restored when inject raises *)
Definition sh_frame (off : A) (f : cframe) : cframe := {| ts := map (fun t => shift t off) (ts f); t_start := t_start f; tag := tag f |}.
Definition unsh_frame (off : A) (f : cframe) : cframe := {| ts := map (fun t => unshift t off) (ts f); t_start := t_start f; tag := tag f |}.
Fixpoint inject_all_unrepaired (t0 : A) (fails : nat -> bool) (k : nat) (fs : list cframe) : list cframe * outcome :=
  match fs with
  | [] => ([], Done)
  | f :: r =>
      let off := minus (t_start f) t0 in
      if fails k then (sh_frame off f :: r, Raised k)
      else let '(r', o) := inject_all_unrepaired t0 fails (S k) r in (unsh_frame off (sh_frame off f) :: r', o)
  end.
End Inject.

(* ---------------- exact-arithmetic statements: continuity, slew times, consolidation ---------------- *)
Local Open Scope Q_scope.
Definition nq (n : nat) : Q := inject_Z (Z.of_nat n).
Record qframe := { T : nat; dt : Q; q_start : Q }.
Definition q_ts (f : qframe) (i : nat) : Q := nq i * dt f.
Definition q_stop (f : qframe) : Q := q_start f + nq (T f) * dt f.
(* time handed to the path / time-profile callables for row i of frame f in a cadence starting at t0 *)
Definition cadence_time (t0 : Q) (f : qframe) (i : nat) : Q := q_ts f i + (q_start f - t0).

(* overwrite_times: frame i+1 starts t_slew after frame i stops *)
Fixpoint overwrite (t_slew : Q) (prev_stop : Q) (fs : list qframe) : list qframe :=
  match fs with
  | [] => []
  | f :: r => let f' := {| T := T f; dt := dt f; q_start := prev_stop + t_slew |} in f' :: overwrite t_slew (q_stop f') r
  end.
Definition overwrite_times (t_slew : Q) (fs : list qframe) : list qframe :=
  match fs with [] => [] | f :: r => f :: overwrite t_slew (q_stop f) r end.
Fixpoint slew_times (fs : list qframe) : list Q :=
  match fs with
  | f :: ((g :: _) as r) => (q_start g - q_stop f) :: slew_times r
  | _ => []
  end.
(* consolidate: absolute times of every row, frame after frame *)
Definition consolidated_ts (fs : list qframe) : list Q :=
  concat (map (fun f => map (fun i => q_ts f i + q_start f) (seq 0 (T f))) fs).
