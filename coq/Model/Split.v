(* C19 -- splitting utilities (setigen/split_utils.py).
   split_waterfall_generator: piece i covers file channels [i*s, i*s + fchans);
   split_array: the two nested while loops over rectangles, modelled literally (with fuel). *)
From Coq Require Import List Arith ZArith QArith Lia Bool PrimFloat.
From SV Require Import Base.F64.
Import ListNotations.
Local Open Scope nat_scope.

(* ---------------- sub-band splitting ---------------- *)
(* number of pieces and their channel ranges (index based: no accumulated frequencies) *)
Definition n_pieces (nchans fchans s : nat) : nat := if nchans <? fchans then 0 else (nchans - fchans) / s + 1.
Definition piece (fchans s i : nat) : nat * nat := (i * s, i * s + fchans).
Definition pieces (nchans fchans s : nat) : list (nat * nat) := map (piece fchans s) (seq 0 (n_pieces nchans fchans s)).

(* the frequencies handed to the reader for piece i (header fch1, foff in MHz), exact *)
Local Open Scope Q_scope.
Definition nq (n : nat) : Q := inject_Z (Z.of_nat n).
Definition piece_freqs (fch1 foff : Q) (fchans s i : nat) : Q * Q :=
  (fch1 + nq (i * s) * foff, fch1 + nq (i * s + fchans) * foff).
Local Close Scope Q_scope.

(* what the unrepaired generator did in doubles: f_stop accumulates f_shift*foff; loop while |f_stop - fch1| <= |nchans*foff| *)
Local Open Scope float_scope.
Fixpoint count_loop_f (fuel : nat) (fch1 bound step f_stop : float) : nat :=
  match fuel with
  | O => O
  | S k => if PrimFloat.leb (fabs (f_stop - fch1)) bound then S (count_loop_f k fch1 bound step (f_stop + step)) else O
  end.
Definition n_pieces_unrepaired_f (fch1 foff : float) (nchans fchans s : Z) : nat :=
  count_loop_f (S (Z.to_nat nchans)) fch1 (fabs (of_Z nchans * foff)) (of_Z s * foff) (fch1 + of_Z fchans * foff).
Local Close Scope float_scope.
Local Open Scope nat_scope.

(* ---------------- array tiling ---------------- *)
Definition rect := (nat * nat * nat * nat)%type.     (* y_start, y_stop, x_start, x_stop *)

(* inner loop:  while x_in_bound: x_start += f_shift; x_stop = min(x_stop + f_shift, W); append *)
Fixpoint xloop (fuel W fs y0 y1 x0 x1 : nat) : list rect :=
  match fuel with
  | O => []
  | S f => if x1 <? W then
             let x0' := x0 + fs in let x1' := Nat.min (x1 + fs) W in
             (y0, y1, x0', x1') :: xloop f W fs y0 y1 x0' x1'
           else []
  end.

(* outer loop, entered right after the first tile of a row has been appended *)
Fixpoint yloop (fuel H W tw ts fs y0 y1 : nat) : list rect :=
  match fuel with
  | O => []
  | S f =>
      let rest := xloop (S W) W fs y0 y1 0 (Nat.min tw W) in
      if y1 <? H then
        let y0' := y0 + ts in let y1' := Nat.min (y1 + ts) H in
        rest ++ (y0', y1', 0, Nat.min tw W) :: yloop f H W tw ts fs y0' y1'
      else rest
  end.

Definition split_rects (H W th tw ts fs : nat) : list rect :=
  (0, Nat.min th H, 0, Nat.min tw W) :: yloop (S H) H W tw ts fs 0 (Nat.min th H).

Definition height (r : rect) : nat := let '(y0, y1, _, _) := r in y1 - y0.
Definition width (r : rect) : nat := let '(_, _, x0, x1) := r in x1 - x0.
Definition trim (th tw : nat) (t_trim f_trim : bool) (l : list rect) : list rect :=
  filter (fun r => (negb t_trim || Nat.eqb (height r) th) && (negb f_trim || Nat.eqb (width r) tw)) l.

(* closed form for shifts equal to the tile sizes *)
Definition cdivn (a b : nat) : nat := (a + b - 1) / b.
Definition tile (H W th tw r c : nat) : rect := (r * th, Nat.min ((r + 1) * th) H, c * tw, Nat.min ((c + 1) * tw) W).
Definition tiles (H W th tw : nat) : list rect :=
  flat_map (fun r => map (fun c => tile H W th tw r c) (seq 0 (cdivn W tw))) (seq 0 (cdivn H th)).
Definition inside (y x : nat) (r : rect) : bool := let '(y0, y1, x0, x1) := r in (y0 <=? y) && (y <? y1) && (x0 <=? x) && (x <? x1).
