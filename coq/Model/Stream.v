(* C10 -- DataStream timeline (setigen/voltage/data_stream.py).
   Time is counted in sample periods (Z): a stream's clock t_start is [clock] * dt.
   The stream's generator is an oracle consumed sequentially: [rngpos] standard-normal draws have
   been taken so far; every noise source of the stream draws from that same generator, one
   source after the other, n draws each per request.

   A request is described by (clock before, n, first draw index of each noise source):
   sample k of the request is evaluated at time (clock + k) * dt and its noise from source s is
   mean_s + std_s * draw (first_s + k). *)
From Coq Require Import List ZArith Lia Bool.
Import ListNotations.
Local Open Scope Z_scope.

Record stream := { clock : Z; start_obs : bool; rngpos : Z; nsrc : Z }.

Definition req := (Z * Z * list Z)%type.   (* clock before, n, first draw index per noise source *)

Definition firsts (pos n : Z) (k : nat) : list Z := map (fun s => pos + Z.of_nat s * n) (seq 0 k).

Definition get (s : stream) (n : Z) : req * stream :=
  ((clock s, n, firsts (rngpos s) n (Z.to_nat (nsrc s))),
   {| clock := clock s + n; start_obs := false; rngpos := rngpos s + nsrc s * n; nsrc := nsrc s |}).

Definition set_time (s : stream) (t : Z) : stream :=
  {| clock := t; start_obs := true; rngpos := rngpos s; nsrc := nsrc s |}.
Definition add_time (s : stream) (t : Z) : stream := set_time s (clock s + t).
Definition reset_start (s : stream) : stream := add_time s 0.
(* update_noise(m): probes m samples, then restores the clock and the start flag *)
Definition update_noise (s : stream) (m : Z) : stream :=
  let s' := snd (get s m) in
  {| clock := clock s; start_obs := start_obs s; rngpos := rngpos s'; nsrc := nsrc s |}.
Definition add_noise (s : stream) : stream :=
  {| clock := clock s; start_obs := start_obs s; rngpos := rngpos s; nsrc := nsrc s + 1 |}.

Inductive op := Get (n : Z) | SetTime (t : Z) | AddTime (t : Z) | ResetStart | UpdateNoise (m : Z) | AddNoise.

Definition step (s : stream) (o : op) : option req * stream :=
  match o with
  | Get n => let '(r, s') := get s n in (Some r, s')
  | SetTime t => (None, set_time s t)
  | AddTime t => (None, add_time s t)
  | ResetStart => (None, reset_start s)
  | UpdateNoise m => (None, update_noise s m)
  | AddNoise => (None, add_noise s)
  end.

Fixpoint run (s : stream) (ops : list op) : list req * stream :=
  match ops with
  | [] => ([], s)
  | o :: r => let '(x, s') := step s o in
              let '(xs, s'') := run s' r in
              (match x with Some q => q :: xs | None => xs end, s'')
  end.

(* per-sample expansion of a request: (time index, draw index per source) *)
Definition expand (r : req) : list (Z * list Z) :=
  let '(c, n, fs) := r in
  map (fun k => (c + Z.of_nat k, map (fun f => f + Z.of_nat k) fs)) (seq 0 (Z.to_nat n)).
Definition samples (rs : list req) : list (Z * list Z) := concat (map expand rs).

Definition fresh (t0 : Z) (k : Z) : stream := {| clock := t0; start_obs := true; rngpos := 0; nsrc := k |}.

(* ---- constant-drift signal: phase in cycles (the code multiplies by 2*pi and takes the cosine);
        negated for descending bands ---- *)
From Coq Require Import QArith.
Local Open Scope Q_scope.
Definition chirp_cycles (f_start fch1 drift : Q) (ascending : bool) (t : Q) : Q :=
  let p := (f_start - fch1) * t + (1#2) * drift * t * t in
  if ascending then p else - p.
