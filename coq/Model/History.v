(* C12 -- what a recording writes depends only on its arguments: the header dictionary flow of
   RawVoltageBackend.record (mutable default argument, caller-supplied dictionaries) made explicit
   as a heap of dictionary objects; and copy isolation of frames as a heap of cells. *)
From Coq Require Import List ZArith Lia Bool.
Import ListNotations.
Local Open Scope Z_scope.

(* a dictionary object as far as record() reads and writes it *)
Record hdict := { user_cards : list nat;        (* caller's cards (abstract ids) *)
                  extra_cards : list nat;       (* cards a previous record() left behind (template, config) *)
                  pktidx : option Z; pktstart : option Z }.
Definition heap := list hdict.                    (* object id = position; object 0 is the default argument {} *)

Record rcfg := { nblocks : Z; spb : Z; cfg_cards : list nat }.
(* what the recording writes that depends on the dictionary: cards of the first header, and the
   PKTIDX of every block, PKTSTART, PKTSTOP *)
Record rout := { o_cards : list nat; o_pktidx0 : Z; o_pktstart : Z; o_pktstop : Z }.

Definition out_of (d : hdict) (c : rcfg) : rout :=
  let p0 := match pktidx d with Some p => p | None => 0 end in
  let ps := match pktstart d with Some p => p | None => p0 end in
  {| o_cards := user_cards d ++ extra_cards d ++ cfg_cards c; o_pktidx0 := p0; o_pktstart := ps;
     o_pktstop := ps + nblocks c * spb c |}.

Fixpoint hset (h : heap) (i : nat) (d : hdict) : heap :=
  match h, i with
  | [], _ => []
  | _ :: r, O => d :: r
  | x :: r, S k => x :: hset r k d
  end.
Definition hget (h : heap) (i : nat) : hdict :=
  nth i h {| user_cards := []; extra_cards := []; pktidx := None; pktstart := None |}.

(* record() works on a private copy of the dictionary it is given: nothing in the heap changes *)
Definition record (h : heap) (obj : nat) (c : rcfg) : rout * heap := (out_of (hget h obj) c, h).

(* the unrepaired code updated the object in place: cards accumulate, PKTIDX ends after the last block *)
Definition record_unrepaired (h : heap) (obj : nat) (c : rcfg) : rout * heap :=
  let d := hget h obj in
  let o := out_of d c in
  (o, hset h obj {| user_cards := user_cards d; extra_cards := extra_cards d ++ cfg_cards c;
                    pktidx := Some (o_pktidx0 o + nblocks c * spb c); pktstart := Some (o_pktstart o) |}).

Definition call := (nat * rcfg)%type.
Fixpoint run (rec : heap -> nat -> rcfg -> rout * heap) (h : heap) (calls : list call) : list rout * heap :=
  match calls with
  | [] => ([], h)
  | (obj, c) :: r => let '(o, h') := rec h obj c in let '(os, h'') := run rec h' r in (o :: os, h'')
  end.

(* ---------------- copy isolation: a heap of cells, deep copy allocates fresh cells ---------------- *)
Section Cells.
Variable V : Type.
Definition cells := list V.
Definition alloc (m : cells) (vs : list V) : cells * list nat := (m ++ vs, seq (length m) (length vs)).
Definition read (m : cells) (d : V) (l : nat) : V := nth l m d.
Fixpoint write (m : cells) (l : nat) (v : V) : cells :=
  match m, l with
  | [], _ => []
  | _ :: r, O => v :: r
  | x :: r, S k => x :: write r k v
  end.
(* an object = the list of cells it reaches; copy = fresh cells with the same contents *)
Definition deep_copy (m : cells) (d : V) (obj : list nat) : cells * list nat := alloc m (map (read m d) obj).
End Cells.
