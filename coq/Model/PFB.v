(* C08 -- polyphase filterbank front end and the tail cache of PolyphaseFilterbank.channelize
   (setigen/voltage/polyphase_filterbank.py).

   Section PFB is generic in the sample type and in the per-window function [fir]
   (routing of windows: which input samples feed which output row).  [fir_z] is the concrete
   weighted sum over Z used for exact evaluation:  row t, branch b =
   sum_{tau<taps} x[(t+tau)*nb + b] * h[tau*nb + b]. *)
From Coq Require Import List Arith ZArith Lia.
Import ListNotations.

Section PFB.
Variables (A Row : Type) (fir : list A -> Row).
Variables (taps nb : nat).
Definition win := taps * nb.

Definition window (xs : list A) (t : nat) : list A := firstn win (skipn (t * nb) xs).
(* W = int(len / taps / nb); (W - 1) * taps output rows *)
Definition nrows (len : nat) : nat := (len / win - 1) * taps.
Definition rows (xs : list A) : list Row :=
  map (fun t => fir (window xs t)) (seq 0 (nrows (length xs))).
Definition lastn (n : nat) (xs : list A) := skipn (length xs - n) xs.

(* channelize(x, cache=True): x := cache ++ x ; cache := x[-win:] ; frontend(x) *)
Definition chan (cache : option (list A)) (x : list A) : list Row * option (list A) :=
  let x' := match cache with Some c => c ++ x | None => x end in
  (rows x', Some (lastn win x')).
(* channelize(x, cache=False): neither reads nor writes the cache *)
Definition chan_nocache (cache : option (list A)) (x : list A) : list Row * option (list A) :=
  (rows x, cache).

Fixpoint run (cache : option (list A)) (chunks : list (list A)) : list Row :=
  match chunks with
  | [] => []
  | c :: cs => let '(r, cache') := chan cache c in r ++ run cache' cs
  end.

(* several filterbank objects used in an interleaved fashion: a call names the object *)
Fixpoint run_multi (caches : nat -> option (list A)) (calls : list (nat * bool * list A)) : list (list Row) :=
  match calls with
  | [] => []
  | (o, use_cache, c) :: cs =>
      let '(r, cache') := (if use_cache then chan else chan_nocache) (caches o) c in
      r :: run_multi (fun k => if Nat.eqb k o then cache' else caches k) cs
  end.
End PFB.

(* ---------------- concrete exact instance ---------------- *)
Local Open Scope Z_scope.
Definition zsum (l : list Z) : Z := fold_right Z.add 0 l.
Definition fir_z (taps nb : nat) (h : list Z) (w : list Z) : list Z :=
  map (fun b => zsum (map (fun tau => nth (tau * nb + b) w 0 * nth (tau * nb + b) h 0) (seq 0 taps))) (seq 0 nb).

Definition rows_z (taps nb : nat) (h x : list Z) : list (list Z) := rows Z (list Z) (fir_z taps nb h) taps nb x.
Definition run_z (taps nb : nat) (h : list Z) (chunks : list (list Z)) : list (list Z) :=
  run Z (list Z) (fir_z taps nb h) taps nb None chunks.
Definition run_multi_z (taps nb : nat) (h : list Z) (calls : list (nat * bool * list Z)) : list (list (list Z)) :=
  run_multi Z (list Z) (fir_z taps nb h) taps nb (fun _ => None) calls.

(* DFT over the branch index with an abstract twiddle table (exact carrier C, e.g. Gaussian
   rationals); the implementation's FFT is validated numerically against this definition *)
Section DFT.
Variables (C : Type) (czero : C) (cadd cmul : C -> C -> C) (ofZ : Z -> C) (omega : nat -> nat -> C).
Definition dft (row : list Z) (k : nat) : C :=
  fold_right cadd czero (map (fun b => cmul (omega b k) (ofZ (nth b row 0))) (seq 0 (length row))).
Definition spectrum (nb : nat) (row : list Z) : list C := map (dft row) (seq 0 (nb / 2)).
End DFT.
