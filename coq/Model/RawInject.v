(* C14 -- injection onto existing RAW (RawVoltageBackend.from_data / _read_next_block and the
   input branch of collect_data_block). *)
From Coq Require Import List ZArith QArith Lia Bool.
From SV Require Import Base.PySeq Model.Backend Model.RawLayout.
Import ListNotations.
Local Open Scope Z_scope.

(* decoded input block: input_voltages[row, tau * npols + pol] *)
Definition in_index (npols tau pol : Z) : Z := tau * npols + pol.
(* _read_next_block reads R of (tau, pol) from raw column  q*pol + (q*npols)*tau  (and I from +1 when q = 2) *)
Definition read_col (q npols tau pol : Z) : Z := q * pol + (q * npols) * tau.
(* collect_data_block looks the input sample up at t_idx // 2 (8-bit) or t_idx (4-bit), t_idx being the
   output column of the real part *)
Definition lookup_index (q t_idx : Z) : Z := if q =? 2 then t_idx / 2 else t_idx.

(* number of blocks written: at most the input's *)
Definition out_blocks (requested : option Z) (input_blocks : Z) : Z :=
  match requested with None => input_blocks | Some n => Z.min n input_blocks end.

(* header size assumed for the input file (from_data) *)
Definition in_header_size (ncards : Z) (dio : bool) : Z :=
  if dio then 512 * cdiv (80 * ncards) 512 else 80 * ncards.

(* ---- gain of the synthetic signal ----
   custom deviation handed to the first requantisation, call after call.  [stds] is the filterbank's
   stored channelised unit-noise deviation, [ts] the digitiser's target deviation. *)
Local Open Scope Q_scope.
Definition gain_used (stds ts : Q) (digitize : bool) : Q := if digitize then stds * ts else stds.
Fixpoint gains (stds ts : Q) (digitize : bool) (calls : nat) : list Q :=
  match calls with O => [] | S n => gain_used stds ts digitize :: gains stds ts digitize n end.
(* the unrepaired code multiplied the filterbank's stored array in place: the stored value itself grows *)
Fixpoint gains_unrepaired (stds ts : Q) (digitize : bool) (calls : nat) : list Q :=
  match calls with
  | O => []
  | S n => let s' := if digitize then stds * ts else stds in s' :: gains_unrepaired s' ts digitize n
  end.
