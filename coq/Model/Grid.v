(* C05 -- frame axes and frequency/index conversion (setigen/frame.py: _update_fs, _update_ts,
   get_index, get_frequency and the derived quantities), over exact rationals (theorems) and as
   binary64 kernels that repeat numpy's operations in numpy's order (bit-exact twins). *)
From Coq Require Import List ZArith QArith Qround Lia PrimFloat.
From SV Require Import Base.Rounding Base.F64.
Import ListNotations.

(* ---------------- exact ---------------- *)
Local Open Scope Q_scope.
Definition zq (z : Z) : Q := inject_Z z.

(* np.linspace(start, stop, num, endpoint=False)[j] *)
Definition linspace_q (start stop : Q) (num j : Z) : Q := zq j * ((stop - start) / zq num) + start.

Record geom := { F : Z; T : Z; df : Q; dt : Q; fch1 : Q; ascending : bool }.

(* frequency of memory column j (the axis is stored increasing for both orientations) *)
Definition fmin_q (g : geom) : Q :=
  if ascending g then fch1 g
  else linspace_q (fch1 g) (fch1 g - zq (F g) * df g) (F g) (F g - 1).
Definition fs_q (g : geom) (j : Z) : Q :=
  if ascending g then linspace_q (fch1 g) (fch1 g + zq (F g) * df g) (F g) j
  else linspace_q (fch1 g) (fch1 g - zq (F g) * df g) (F g) (F g - 1 - j).
Definition fmax_q (g : geom) : Q := if ascending g then fs_q g (F g - 1) else fch1 g.
Definition ts_q (g : geom) (i : Z) : Q := linspace_q 0 (zq (T g) * dt g) (T g) i.

Definition get_frequency_q (fmin d : Q) (j : Z) : Q := fmin + d * zq j.
Definition get_index_q (fmin d f : Q) : Z := rhe ((f - fmin) / d).
Definition chi2_df_q (g : geom) : Z := (4 * rhe (df g * dt g))%Z.
Definition unit_drift_q (g : geom) : Q := df g / dt g.
Definition drift_rate_q (g : geom) (a b : Z) : Q := zq (b - a) * df g / (zq (T g) * dt g).
Definition t_stop_q (g : geom) (t_start : Q) : Q := t_start + zq (T g) * dt g.
Definition fmid_q (g : geom) : Q := (fmin_q g + fmax_q g) / 2.

(* ---------------- binary64 twins ---------------- *)
Local Open Scope float_scope.
Definition linspace_f (start stop : float) (num j : Z) : float := of_Z j * ((stop - start) / of_Z num) + start.
Definition fs_f (F_ : Z) (df_ fch1_ : float) (asc : bool) (j : Z) : float :=
  if asc then linspace_f fch1_ (fch1_ + of_Z F_ * df_) F_ j
  else linspace_f fch1_ (fch1_ - of_Z F_ * df_) F_ (F_ - 1 - j).
Definition fmin_f (F_ : Z) (df_ fch1_ : float) (asc : bool) : float :=
  if asc then fch1_ else fs_f F_ df_ fch1_ false 0.
Definition ts_f (T_ : Z) (dt_ : float) (i : Z) : float := linspace_f 0 (of_Z T_ * dt_) T_ i.
Definition get_index_f (fmin_ df_ f : float) : Z := to_Z_trunc (rint ((f - fmin_) / df_)).
Definition get_frequency_f (fmin_ df_ : float) (j : Z) : float := fmin_ + df_ * of_Z j.
(* 4 * round(df * dt): Python round() of a double, half to even *)
Definition chi2_df_f (df_ dt_ : float) : Z := (4 * to_Z_trunc (rint (df_ * dt_)))%Z.
