(* C13 -- Frame.add_constant_signal: bounding box, sub-step count and delegation to add_signal.
   Channel units: c0 = (f_start - fmin)/df, w = width/df, D = drift*dt/df per time step. *)
From Coq Require Import List Arith ZArith QArith Qround Qabs Lia Bool.
From SV Require Import Base.Tab Base.Rounding Model.Signal.
Import ListNotations.
Local Open Scope Q_scope.

(* px_drift_offset: the centre moves over T-1 steps, one more with smearing *)
Definition sweep_steps (Tn : nat) (smearing : bool) : Z := if smearing then Z.of_nat Tn else (Z.of_nat Tn - 1)%Z.

Definition qmin (a b : Q) : Q := if Qle_bool a b then a else b.
Definition qmax (a b : Q) : Q := if Qle_bool a b then b else a.

(* bounding box [lo, hi) in channels before clipping to the frame: the swept centre +- two widths,
   rounded outwards *)
Definition box_lo (c0 w pdo : Q) : Z := Qfloor (c0 + qmin pdo 0 - 2 * Qabs w).
Definition box_hi (c0 w pdo : Q) : Z := (Qceiling (c0 + qmax pdo 0 + 2 * Qabs w) + 1)%Z.

(* Doppler smearing sub-steps: max(1, ceil(|drift| / unit_drift_rate)) = max(1, ceil(|D|)) *)
Definition substeps (D : Q) : Z := Z.max 1 (Qceiling (Qabs D)).

Definition box_profile (width : Q) : Q -> Q -> Q := fun f fc => if Qlt_le_dec (Qabs (f - fc)) (width / 2) then 1 else 0.

Definition add_constant_signal (fr : frame) (f_start drift level width : Q) (fp : Q -> Q -> Q) (smearing : bool)
  : result (frame * list (list Q)) :=
  let c0 := (f_start - fmin fr) / df fr in
  let w := width / df fr in
  let D := drift * dt fr / df fr in
  let pdo := D * inject_Z (sweep_steps (T fr) smearing) in
  let lo := clampZ (box_lo c0 w pdo) (F fr) in
  let hi := clampZ (box_hi c0 w pdo) (F fr) in
  add_signal fr (CFun (fun t => f_start + drift * t)) (CScal level) fp (Some (CScal 1))
             (Some (fs fr lo, fs fr hi))
             {| integrate_path := false; integrate_t := false; integrate_f := false; smear := smearing;
                t_sub := 1; f_sub := 1; n_smear := Z.to_nat (substeps D) |}.
