(* C18 -- executable model of setigen.cadence.Cadence / OrderedCadence as a
   guarded Python list with order labels kept in the frames' metadata.

   Objects come from a pool: [Frame id cls] is a setigen Frame whose
   (df, dt, fchans, fmin) tuple is abstracted to the class number [cls];
   [Other id] is anything that is not a Frame.  Labels (metadata key
   "order_label") live in a global store id -> label because the same frame
   object can be a member of several cadences.

   MutableSequence mixins are expanded as CPython defines them:
     append(v)  = insert(len(self), v)
     extend(vs) = for v in vs: append(v)        (stops at the first raise)
     pop(i)     = v = self[i]; del self[i]; return v                        *)
From Coq Require Import List ZArith Lia Bool.
From SV Require Import Base.PySeq.
Import ListNotations.
Open Scope Z_scope.

Inductive obj := Frame (id : nat) (cls : nat) | Other (id : nat).
Inductive err := TypeError | AttributeError | IndexError.

Definition oid (o : obj) : nat := match o with Frame i _ => i | Other i => i end.
Definition cls_of (o : obj) : option nat := match o with Frame _ c => Some c | Other _ => None end.

Definition labels := list (nat * Z).
Fixpoint lookup (m : labels) (i : nat) : option Z :=
  match m with
  | [] => None
  | (k, v) :: r => if Nat.eqb k i then Some v else lookup r i
  end.
Definition set_label (m : labels) (i : nat) (c : Z) : labels := (i, c) :: m.

Record cad := { frames : list obj; order : list Z; ordered : bool }.
Record world := { cd : cad; lab : labels }.

Inductive op :=
| Insert (i : Z) (v : obj)
| Append (v : obj)
| Extend (vs : list obj)
| SetItem (i : Z) (v : obj)
| DelItem (i : Z)
| DelSlice (lo hi : option Z)
| Pop (i : Z)
| GetInt (i : Z)
| GetSlice (lo hi : option Z)
| GetIdx (idx : list Z)
| SetOrder (o : list Z)
| ByLabel (c : Z).

(* Cadence._check *)
Definition check (s : list obj) (v : obj) : option err :=
  match v with
  | Other _ => Some TypeError
  | Frame _ c => match s with
                 | [] => None
                 | f :: _ => if match cls_of f with Some c0 => Nat.eqb c c0 | None => false end
                             then None else Some AttributeError
                 end
  end.

(* label an unlabelled frame that is about to sit at position [pos] (ordered cadences only);
   None = order[pos] raises IndexError (order string shorter than the position) *)
Definition label_for (w : world) (v : obj) (pos : nat) : option labels :=
  if ordered (cd w) then
    match lookup (lab w) (oid v) with
    | Some _ => Some (lab w)
    | None => match nth_error (order (cd w)) pos with
              | Some c => Some (set_label (lab w) (oid v) c)
              | None => None
              end
    end
  else Some (lab w).

Definition with_frames (w : world) (fs : list obj) (l : labels) : world :=
  {| cd := {| frames := fs; order := order (cd w); ordered := ordered (cd w) |}; lab := l |}.

(* result of an operation: new world, returned frames (for getters), error *)
Definition res := (world * list obj * option err)%type.
Definition ok (w : world) (r : list obj) : res := (w, r, None).
Definition fail (w : world) (e : err) : res := (w, [], Some e).

Definition do_insert (w : world) (i : Z) (v : obj) : res :=
  let s := frames (cd w) in
  match check s v with
  | Some e => fail w e
  | None =>
    let pos := Z.to_nat (clamp_insert (zlen s) i) in
    match label_for w v pos with
    | None => fail w IndexError
    | Some l => ok (with_frames w (ins pos v s) l) []
    end
  end.

Fixpoint do_extend (w : world) (vs : list obj) : res :=
  match vs with
  | [] => ok w []
  | v :: r => match do_insert w (zlen (frames (cd w))) v with
              | (w', _, None) => do_extend w' r
              | (w', _, Some e) => fail w' e
              end
  end.

Definition do_setitem (w : world) (i : Z) (v : obj) : res :=
  let s := frames (cd w) in
  match check s v with
  | Some e => fail w e
  | None =>
    match norm_index (zlen s) i with
    | None => fail w IndexError
    | Some n => match label_for w v n with
                | None => fail w IndexError
                | Some l => ok (with_frames w (upd n v s) l) []
                end
    end
  end.

Fixpoint relabel (l : labels) (fs : list obj) (o : list Z) : labels * bool :=
  match fs with
  | [] => (l, true)
  | f :: fr => match o with
               | [] => (l, false)
               | c :: orr => relabel (set_label l (oid f) c) fr orr
               end
  end.

Fixpoint by_label_filter (l : labels) (c : Z) (fs : list obj) : list obj :=
  match fs with
  | [] => []
  | f :: r => match lookup l (oid f) with
              | Some c' => if Z.eqb c' c then f :: by_label_filter l c r else by_label_filter l c r
              | None => by_label_filter l c r
              end
  end.

Fixpoint get_idx (s : list obj) (idx : list Z) : option (list obj) :=
  match idx with
  | [] => Some []
  | i :: r => match norm_index (zlen s) i with
              | None => None
              | Some n => match nth_error s n, get_idx s r with
                          | Some v, Some vs => Some (v :: vs)
                          | _, _ => None
                          end
              end
  end.

Definition step (w : world) (o : op) : res :=
  let s := frames (cd w) in
  match o with
  | Insert i v => do_insert w i v
  | Append v => do_insert w (zlen s) v
  | Extend vs => do_extend w vs
  | SetItem i v => do_setitem w i v
  | DelItem i => match norm_index (zlen s) i with
                 | Some n => ok (with_frames w (del n s) (lab w)) []
                 | None => fail w IndexError
                 end
  | DelSlice lo hi => ok (with_frames w (pydelslice s lo hi) (lab w)) []
  | Pop i => match norm_index (zlen s) i with
             | Some n => match nth_error s n with
                         | Some v => ok (with_frames w (del n s) (lab w)) [v]
                         | None => fail w IndexError
                         end
             | None => fail w IndexError
             end
  | GetInt i => match norm_index (zlen s) i with
                | Some n => match nth_error s n with
                            | Some v => ok w [v]
                            | None => fail w IndexError
                            end
                | None => fail w IndexError
                end
  | GetSlice lo hi => ok w (pyslice s lo hi)
  | GetIdx idx => match get_idx s idx with
                  | Some r => ok w r
                  | None => fail w IndexError
                  end
  | SetOrder o' =>
      let '(l, complete) := relabel (lab w) s o' in
      let w' := {| cd := {| frames := s; order := o'; ordered := ordered (cd w) |}; lab := l |} in
      if complete then ok w' [] else fail w' IndexError
  | ByLabel c => ok w (by_label_filter (lab w) c s)
  end.

Definition init (is_ordered : bool) (o : list Z) (l : labels) : world :=
  {| cd := {| frames := []; order := o; ordered := is_ordered |}; lab := l |}.

Definition wstep (w : world) (o : op) : world := fst (fst (step w o)).
Definition run (w : world) (ops : list op) : world := fold_left wstep ops w.

(* ---------------- rendering for the correspondence check ---------------- *)
Definition err_code (e : option err) : Z :=
  match e with None => 0 | Some TypeError => 1 | Some AttributeError => 2 | Some IndexError => 3 end.

(* observation after each op: (error code, returned ids, member ids, labels of the pool ids) *)
Definition observe (pool : list nat) (r : res) : Z * list Z * list Z * list Z :=
  let '(w, ret, e) := r in
  (err_code e,
   map (fun o => Z.of_nat (oid o)) ret,
   map (fun o => Z.of_nat (oid o)) (frames (cd w)),
   map (fun i => match lookup (lab w) i with Some c => c | None => -1 end) pool).

Fixpoint trace (pool : list nat) (w : world) (ops : list op) : list (Z * list Z * list Z * list Z) :=
  match ops with
  | [] => []
  | o :: r => let x := step w o in observe pool x :: trace pool (fst (fst x)) r
  end.
