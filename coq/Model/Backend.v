(* C20 / C02 -- integer accounting of RawVoltageBackend (setigen/voltage/backend.py):
   constructor sizes, the sub-block plan of collect_data_block, the sample requests it
   issues to the antenna, record()'s length resolution and reported totals, and the
   stand-alone helpers.  All quantities are integers (Z); the float expressions the code
   uses for them are modelled separately as binary64 kernels (F64 section below). *)
From Coq Require Import List ZArith Lia Bool PrimFloat.
From SV Require Import Base.PySeq Base.F64.
Import ListNotations.
Local Open Scope Z_scope.

Record cfg := {
  nants : Z; npols : Z; nbits : Z; nchans : Z; taps : Z; nb : Z;
  block_size : Z; blocks_per_file : Z }.

(* 2 * num_pols * num_bits // 8 *)
Definition bps (c : cfg) : Z := (2 * npols c * nbits c) / 8.
Definition obsnchan (c : cfg) : Z := nchans c * nants c.
(* constructor assertion *)
Definition admitted (c : cfg) : bool :=
  (block_size c mod (nants c * nchans c * taps c * bps c) =? 0).
Definition spb (c : cfg) : Z := block_size c / (nants c * nchans c * bps c).
Definition win (c : cfg) : Z := taps c * nb c.

(* ---- collect_data_block's partition of the T spectra of a block ---- *)
(* w = T / taps windows per block; requested number of sub-blocks nsub *)
Definition ws_of (w nsub : Z) : Z := cdiv w nsub.                 (* W - 1 *)
Definition nsub_eff (w nsub : Z) : Z := cdiv w (ws_of w nsub).      (* recomputed num_subblocks *)
Definition sub_windows (w nsub : Z) (s : Z) : Z :=
  let ws := ws_of w nsub in
  if negb (w mod ws =? 0) && (s =? nsub_eff w nsub - 1) then w mod ws else ws.
Definition plan (w nsub : Z) : list Z :=
  map (fun s => sub_windows w nsub (Z.of_nat s)) (seq 0 (Z.to_nat (nsub_eff w nsub))).

(* samples requested from the antenna, sub-block by sub-block; the very first request of an
   observation (start_obs) carries one extra window to prime the PFB *)
Definition requests (c : cfg) (nsub : Z) (start : bool) : list Z :=
  let w := spb c / taps c in
  match plan w nsub with
  | [] => []
  | k :: r => (win c * (if start then k + 1 else k)) :: map (fun k => win c * k) r
  end.
Definition zsuml (l : list Z) : Z := fold_right Z.add 0 l.

(* num_subblocks is overwritten by the recomputed value and carried to the next block *)
Fixpoint block_requests (c : cfg) (nsub : Z) (start : bool) (nblocks : nat) : list (list Z) :=
  match nblocks with
  | O => []
  | S n => requests c nsub start :: block_requests c (nsub_eff (spb c / taps c) nsub) false n
  end.

(* ---- record(): reported totals (integer semantics) ---- *)
Definition total_samples (c : cfg) (nblocks : Z) : Z := nblocks * spb c * nb c.
Definition pktstop (c : cfg) (pktstart nblocks : Z) : Z := pktstart + nblocks * spb c.
Definition num_files (c : cfg) (nblocks : Z) : Z := cdiv nblocks (blocks_per_file c).
Definition blocks_in_file (c : cfg) (nblocks i : Z) : Z :=
  if (i =? num_files c nblocks - 1) && negb (nblocks mod blocks_per_file c =? 0)
  then nblocks mod blocks_per_file c else blocks_per_file c.

(* record(): how many blocks are recorded.  requested = explicit num_blocks (or get_num_blocks(obs_length)),
   input = blocks available in the input RAW data of a from_data backend.  None = ValueError. *)
Definition effective_blocks (requested input : option Z) : option Z :=
  match requested, input with
  | Some n, Some m => Some (Z.min n m)
  | Some n, None => Some n
  | None, Some m => Some m
  | None, None => None
  end.

(* ---- stand-alone helpers ---- *)
Definition get_block_size (nants' tchans_per_block nbits' npols' nchans' fftlength int_factor : Z) : Z :=
  let bps' := (2 * npols' * nbits') / 8 in
  (tchans_per_block * fftlength * int_factor) * (nchans' * nants') * bps'.

(* ---------------- binary64 kernels (what the code computes with floats) ---------------- *)
Local Open Scope float_scope.
Definition f_tbin (nb_ : Z) (sample_rate : float) : float := of_Z nb_ / sample_rate.
Definition f_time_per_block (spb_ nb_ : Z) (sr : float) : float := of_Z spb_ * f_tbin nb_ sr.
(* int(obs_length * abs(chan_bw) * num_antennas * num_chans * bytes_per_sample / block_size) *)
Definition f_get_num_blocks (obs_length sr : float) (nb_ nants_ nchans_ bps_ block_size_ : Z) : Z :=
  let chan_bw := 1 / f_tbin nb_ sr in
  to_Z_trunc (((((obs_length * fabs chan_bw) * of_Z nants_) * of_Z nchans_) * of_Z bps_) / of_Z block_size_).
(* obs_length = num_blocks * time_per_block ; the pre-fix expression int(obs_length / tbin) * nb *)
Definition f_obs_length (nblocks spb_ nb_ : Z) (sr : float) : float := of_Z nblocks * f_time_per_block spb_ nb_ sr.
Definition f_total_samples_float (nblocks spb_ nb_ : Z) (sr : float) : Z :=
  (to_Z_trunc (f_obs_length nblocks spb_ nb_ sr / f_tbin nb_ sr) * nb_)%Z.
