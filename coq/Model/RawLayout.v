(* C02 / C14 -- where collect_data_block puts each requantised sample in the block array, the
   GUPPI RAW layout it has to realise, and the 4-bit nibble packing / unpacking.

   q = num_bits / 4 = bytes per complex sample (2 for 8-bit: re, im; 1 for 4-bit: packed);
   bps = q * npols = bytes per time sample per channel. *)
From Coq Require Import List ZArith Lia Bool.
From SV Require Import Base.PySeq Model.Backend.
Import ListNotations.
Local Open Scope Z_scope.

Section Layout.
Variables (q npols nchans nants sT : Z).     (* sT = spectra in a full sub-block = taps * ws *)
Definition bpsz := q * npols.

(* --- what the code computes (sub-block s holds [len] spectra; k-th spectrum of the sub-block) --- *)
Definition w_row (a c : Z) := a * nchans + c.                                   (* c_idx *)
Definition w_col (s p k comp : Z) := s * (sT * bpsz) + q * p + k * (q * npols) + comp.  (* t_idx (+1 for im) *)
Definition w_tau (s k : Z) := s * sT + k.                                         (* spectrum index in the block *)

(* --- the GUPPI RAW layout: channel-major, then time, then polarisation, then re/im --- *)
Definition spec_row (a c : Z) := a * nchans + c.
Definition spec_col (tau p comp : Z) := tau * bpsz + q * p + comp.
End Layout.

(* index lists as the code builds them, for the correspondence with logged writes *)
Definition zrange (n : Z) : list Z := map Z.of_nat (seq 0 (Z.to_nat n)).
Definition c_idx (nchans a : Z) : list Z := map (fun c => a * nchans + c) (zrange nchans).
Definition t_idx (q npols sT s p len : Z) : list Z :=
  map (fun k => s * (sT * (q * npols)) + q * p + k * (q * npols)) (zrange len).

(* all (sub-block, antenna, pol) writes of one block: (rows, R-columns, first spectrum, count) *)
Definition block_writes (c : cfg) (nsub : Z) : list (list Z * list Z * Z * Z) :=
  let tps := taps c in
  let w := spb c / tps in
  let qq := nbits c / 4 in
  let sT := tps * ws_of w nsub in
  concat (map (fun s =>
    let len := tps * sub_windows w nsub (Z.of_nat s) in
    concat (map (fun a => map (fun p =>
      (c_idx (nchans c) a, t_idx qq (npols c) sT (Z.of_nat s) p len, Z.of_nat s * sT, len))
      (zrange (npols c))) (zrange (nants c))))
    (seq 0 (Z.to_nat (nsub_eff w nsub)))).

(* --- 4-bit packing (collect_data_block) and unpacking (_read_next_block) --- *)
Definition encode4 (R I : Z) : Z := R * 16 + (if I <? 0 then I + 16 else I).
Definition decode4 (Q : Z) : Z * Z :=
  let R := Q / 16 in                       (* Python floor division *)
  let I := Q - 16 * R in
  (R, if 8 <=? I then I - 16 else I).
(* the independent reader: high nibble = real, low nibble = imaginary, two's complement *)
Definition nib (u : Z) : Z := if 8 <=? u then u - 16 else u.
Definition decode4_std (byte : Z) : Z * Z :=
  let u := byte mod 256 in (nib (u / 16), nib (u mod 16)).
