(* C01 / C06 -- Frame.add_signal (setigen/frame.py) over exact rationals.
   Components arrive as a callable, an array or a scalar; callables are Gallina functions Q -> Q
   (the harness supplies polynomials / boxes so that the implementation's doubles are exact).
   The frame is (T, F, df, dt, fmin, data); its axes are fs j = fmin + j*df and ts i = i*dt (C05). *)
From Coq Require Import List Arith ZArith QArith Qround Lia Bool.
From SV Require Import Base.Tab Base.Rounding.
Import ListNotations.
Local Open Scope Q_scope.

Definition nq (n : nat) : Q := inject_Z (Z.of_nat n).

(* t0 = ts[0]: 0 for a stand-alone frame; Cadence.add_signal (or the user) may shift the frame's own time axis *)
Record frame := { T : nat; F : nat; df : Q; dt : Q; fmin : Q; t0 : Q; data : list (list Q) }.
Definition fs (fr : frame) (j : nat) : Q := fmin fr + nq j * df fr.
Definition ts (fr : frame) (i : nat) : Q := t0 fr + nq i * dt fr.

Inductive comp := CFun (f : Q -> Q) | CArr (l : list Q) | CScal (c : Q).
Inductive err := ValueError | TypeError | IndexError.
Inductive result (A : Type) := Ok (a : A) | Err (e : err).
Arguments Ok {A} _. Arguments Err {A} _.

Record opts := { integrate_path : bool; integrate_t : bool; integrate_f : bool; smear : bool;
                 t_sub : nat; f_sub : nat; n_smear : nat }.

(* ---- bounding range -> Python slice [lo, hi) of the columns (repaired: always 0 <= lo <= hi <= F) ---- *)
Definition clampZ (z : Z) (n : nat) : nat := Z.to_nat (Z.min (Z.max z 0) (Z.of_nat n)).
Definition get_index (fr : frame) (f : Q) : Z := rhe ((f - fmin fr) / df fr).
Definition bounds (fr : frame) (br : option (Q * Q)) : nat * nat :=
  match br with
  | None => (O, F fr)
  | Some (b0, b1) =>
      let lo := clampZ (get_index fr b0) (F fr) in
      let hi := clampZ (get_index fr b1) (F fr) in
      (lo, Nat.max lo hi)
  end.

Definition qsum (l : list Q) : Q := fold_right Qplus 0 l.
Definition qmean (l : list Q) : Q := qsum l / nq (length l).

(* ---- normalisation of the components ---- *)
(* frequency grid the signal is computed on: columns lo..hi-1, or f_sub times finer from fs[lo] *)
Definition rgrid (fr : frame) (o : opts) (lo n : nat) : list Q :=
  if integrate_f o then tab (n * f_sub o)%nat (fun k => fs fr lo + nq k * (df fr / nq (f_sub o)))
  else tab n (fun j => fs fr (lo + j)%nat).

(* mean of f over the t_sub sub-samples of time bin i: ts[0] + linspace(0, n*dt, n*t_sub, endpoint=False) *)
Definition submean (fr : frame) (o : opts) (f : Q -> Q) (i : nat) : Q :=
  qmean (tab (t_sub o) (fun k => f (t0 fr + nq (i * t_sub o + k)%nat * (dt fr / nq (t_sub o))))).

Definition t_values (fr : frame) (o : opts) (tp : comp) : result (list Q) :=
  match tp with
  | CFun f => Ok (if integrate_t o then tab (T fr) (submean fr o f) else tab (T fr) (fun i => f (ts fr i)))
  | CArr l => if Nat.eqb (length l) (T fr) then Ok l else Err ValueError
  | CScal c => Ok (repeat c (T fr))
  end.

Definition teff (fr : frame) (o : opts) : nat := if smear o then S (T fr) else T fr.
Definition path_values (fr : frame) (o : opts) (p : comp) : result (list Q) :=
  match p with
  | CFun f => Ok (if integrate_path o then tab (teff fr o) (submean fr o f) else tab (teff fr o) (fun i => f (ts fr i)))
  | CArr l => if Nat.eqb (length l) (teff fr o) then Ok l else Err ValueError     (* T+1 values for smearing *)
  | CScal c => Ok (repeat c (teff fr o))
  end.

Definition bp_values (grid : list Q) (bp : option comp) : result (list Q) :=
  match bp with
  | None => Ok (repeat 1 (length grid))
  | Some (CFun b) => Ok (map b grid)
  | Some (CArr l) => if Nat.eqb (length l) (length grid) then Ok l else Err ValueError
  | Some (CScal c) => Ok (repeat c (length grid))
  end.

(* ---- the signal on the grid ---- *)
Definition pixel_plain (fp : Q -> Q -> Q) (tv pv bv grid : list Q) (i j : nat) : Q :=
  nth i tv 0 * fp (nth j grid 0) (nth i pv 0) * nth j bv 0.

(* Doppler smearing: n copies; the path is advanced by dpath after each copy (path_tt += dpath_tt) *)
Fixpoint smear_loop (fp : Q -> Q -> Q) (t f b : Q) (n : nat) (k : nat) (acc p dp : Q) : Q :=
  match k with
  | O => acc
  | S k' => smear_loop fp t f b n k' (acc + t * fp f p / nq n * b) (p + dp) dp
  end.
Definition pixel_smear (fp : Q -> Q -> Q) (n : nat) (tv pv bv grid : list Q) (i j : nat) : Q :=
  let p := nth i pv 0 in
  let dp := (nth (S i) pv 0 - p) / nq n in
  smear_loop fp (nth i tv 0) (nth j grid 0) (nth j bv 0) n n 0 p dp.

(* integrate_f_profile: mean over the f_sub grid points of each column *)
Definition fmean (o : opts) (px : nat -> nat -> Q) (i j : nat) : Q :=
  if integrate_f o then qmean (tab (f_sub o) (fun k => px i (j * f_sub o + k)%nat)) else px i j.

(* ---- putting it together ---- *)
(* Python:  data[:, lo:hi] += signal   on one row *)
Definition add_slice (lo hi : nat) (row srow : list Q) : list Q :=
  firstn lo row ++ map (fun k => nth (lo + k)%nat row 0 + nth k srow 0) (seq 0 (hi - lo)%nat) ++ skipn hi row.
Definition pad_row (Fn lo hi : nat) (srow : list Q) : list Q :=
  repeat 0 lo ++ firstn (hi - lo)%nat srow ++ repeat 0 (Fn - hi)%nat.

Definition add_signal (fr : frame) (path tp : comp) (fp : Q -> Q -> Q) (bp : option comp)
           (br : option (Q * Q)) (o : opts) : result (frame * list (list Q)) :=
  let '(lo, hi) := bounds fr br in
  let n := (hi - lo)%nat in
  let grid := rgrid fr o lo n in
  match t_values fr o tp, path_values fr o path, bp_values grid bp with
  | Ok tv, Ok pv, Ok bv =>
      let px := if smear o then pixel_smear fp (n_smear o) tv pv bv grid else pixel_plain fp tv pv bv grid in
      let sig := mk (T fr) n (fmean o px) in
      Ok ({| T := T fr; F := F fr; df := df fr; dt := dt fr; fmin := fmin fr; t0 := t0 fr;
             data := map (fun i => add_slice lo hi (nth i (data fr) []) (nth i sig [])) (seq 0 (T fr)) |},
          map (fun i => pad_row (F fr) lo hi (nth i sig [])) (seq 0 (T fr)))
  | Err e, _, _ => Err e
  | _, Err e, _ => Err e
  | _, _, Err e => Err e
  end.

(* the statement's right-hand side for callable components, no options *)
Definition spec_pixel (fr : frame) (p tpf : Q -> Q) (fp : Q -> Q -> Q) (b : Q -> Q) (i j : nat) : Q :=
  tpf (ts fr i) * fp (fs fr j) (p (ts fr i)) * b (fs fr j).

Definition no_opts : opts := {| integrate_path := false; integrate_t := false; integrate_f := false; smear := false;
                                t_sub := 1; f_sub := 1; n_smear := 1 |}.
