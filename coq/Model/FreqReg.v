(* C07 -- voltage frequency registration (backend._header_populate_configuration,
   raw_utils.get_raw_params, waterfall.get_pfb_waterfall) over exact rationals.
   Frequencies in Hz; the header stores MHz (factor 1e-6, modelled as the rational 1/10^6). *)
From Coq Require Import ZArith QArith Qround Lia.
Local Open Scope Q_scope.

Definition mhz : Q := 1 # 1000000.
Definition zq (z : Z) : Q := inject_Z z.

(* signed channel bandwidth: +sr/nb ascending, -sr/nb descending *)
Definition chan_bw (sr : Q) (nb : Z) (ascending : bool) : Q :=
  let b := sr / zq nb in if ascending then b else - b.

Record hdr := { CHAN_BW : Q; OBSBW : Q; OBSFREQ : Q; OBSNCHAN : Z; TBIN : Q }.

Definition header (fch1 cbw : Q) (start_chan nchans nants : Z) (sr : Q) (nb : Z) : hdr :=
  {| CHAN_BW := cbw * mhz;
     OBSBW := cbw * zq nchans * mhz;
     OBSFREQ := ((zq start_chan + (zq nchans - 1) / 2) * cbw + fch1) * mhz;
     OBSNCHAN := (nchans * nants)%Z;
     TBIN := zq nb / sr |}.

(* what any GUPPI reader computes for recorded coarse channel j, from the header alone (MHz) *)
Definition reader_chan_centre (h : hdr) (j : Z) : Q :=
  OBSFREQ h - OBSBW h / 2 + (zq j + (1#2)) * CHAN_BW h.

(* get_raw_params: antenna fch1 recovered from the header and the same first-channel index *)
Definition raw_params_fch1 (h : hdr) (start_chan nchans : Z) : Q :=
  let cbw := CHAN_BW h / mhz in
  OBSFREQ h / mhz - (zq start_chan + (zq nchans - 1) / 2) * cbw.
Definition raw_params_chan_bw (h : hdr) : Q := CHAN_BW h / mhz.

(* fine channelisation of one coarse channel with an FFT of length L followed by fftshift and
   concatenation over channels: DFT bin m of coarse channel c lands at global fine index c*L + shift m *)
Definition shift (L m : Z) : Z := (m + L / 2) mod L.
(* baseband offset (in units of cbw/L) of DFT bin m: bins above L/2 are negative frequencies *)
Definition bin_offset (L m : Z) : Z := if (m <? (L + 1) / 2)%Z then m else (m - L)%Z.     (* even L: m = L/2 (Nyquist) counts as negative *)
Definition coarse_centre (fch1 cbw : Q) (start_chan c : Z) : Q := fch1 + zq (start_chan + c) * cbw.
(* frequency axis a frame built on the reduced product carries: first fine bin + g * df *)
(* after fftshift the zero-offset bin of a coarse channel sits at position L/2 (integer division) for even and odd L alike *)
Definition fine_label (fch1 cbw : Q) (start_chan L g : Z) : Q :=
  (fch1 + zq start_chan * cbw - zq (L / 2) * (cbw / zq L)) + zq g * (cbw / zq L).

(* shape of the reducer's output: (T // fftlength) // int_factor rows, nchans * fftlength columns *)
Definition reducer_shape (T nchans fftlength int_factor : Z) : Z * Z :=
  ((T / fftlength / int_factor)%Z, (nchans * fftlength)%Z).
