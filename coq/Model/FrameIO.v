(* C03 -- saving a frame as filterbank / HDF5 through blimpy and loading it back (setigen/frame.py:
   _update_waterfall, save_fil / save_h5, Frame(waterfall=...); setigen/waterfall_utils.py helpers).
   blimpy is modelled environment: the writer takes nchans / the data block from the Waterfall's
   container and data, fch1 from the container's band edge; the reader derives the shape from the header. *)
From Coq Require Import List Arith ZArith QArith Qround Lia Bool PrimFloat.
From SV Require Import Base.Tab Base.Rounding Base.F64.
Import ListNotations.
Local Open Scope Q_scope.

Definition nq (n : nat) : Q := inject_Z (Z.of_nat n).
Definition mhz : Q := 1 # 1000000.

(* ---------------- header <-> frame geometry ---------------- *)
Record geom := { F : nat; T : nat; df : Q; dt : Q; fch1 : Q; ascending : bool; t_start : Q; source : nat }.
Record header := { h_fch1 : Q; h_foff : Q; h_nchans : nat; h_tsamp : Q; h_tstart : Q; h_source : nat; h_nints : nat }.

Definition to_header (g : geom) : header :=
  {| h_fch1 := fch1 g * mhz; h_foff := (if ascending g then df g else - df g) * mhz; h_nchans := F g;
     h_tsamp := dt g; h_tstart := t_start g; h_source := source g; h_nints := T g |}.
Definition of_header (h : header) : geom :=
  {| F := h_nchans h; T := h_nints h; df := Qabs.Qabs (h_foff h) / mhz; dt := h_tsamp h; fch1 := h_fch1 h / mhz;
     ascending := Qle_bool 0 (h_foff h) && negb (Qeq_bool (h_foff h) 0); t_start := h_tstart h; source := h_source h |}.

(* file order of the channels: the frame keeps frequencies increasing in memory; a descending file stores them reversed *)
Definition to_file_row (asc : bool) (row : list Q) : list Q := if asc then row else rev row.
Definition of_file_row (asc : bool) (row : list Q) : list Q := if asc then row else rev row.
(* sky frequency (Hz) of file column j according to the header, and of memory column k according to the frame *)
Definition file_freq (h : header) (j : nat) : Q := (h_fch1 h + nq j * h_foff h) / mhz.
Definition fmin (g : geom) : Q := if ascending g then fch1 g else fch1 g - nq (F g - 1) * df g.
Definition frame_freq (g : geom) (k : nat) : Q := fmin g + nq k * df g.

(* ---------------- shape bookkeeping over histories ---------------- *)
(* what matters for the writer: the shape the frame has, and the shape its Waterfall's container claims (if any) *)
Record fstate := { shape : nat * nat; wf_shape : option (nat * nat) }.
Inductive op := GetWaterfall | Copy | Slice (w : nat) | Dedrift (w : nat) | SaveOp.

(* _update_waterfall (repaired): the container is refreshed from the frame on every call *)
Definition update_wf (s : fstate) : fstate := {| shape := shape s; wf_shape := Some (shape s) |}.
(* unrepaired: refreshed only when the frame had no Waterfall yet *)
Definition update_wf_unrepaired (s : fstate) : fstate :=
  match wf_shape s with None => {| shape := shape s; wf_shape := Some (shape s) |} | Some _ => s end.

(* derived frames inherit a deep copy of the parent's Waterfall (check_waterfall = update if present) *)
Definition derive (upd : fstate -> fstate) (s : fstate) (w : nat) : fstate :=
  let parent_wf := match wf_shape s with None => None | Some _ => wf_shape (upd s) end in
  {| shape := (fst (shape s), w); wf_shape := parent_wf |}.

Definition step (upd : fstate -> fstate) (s : fstate) (o : op) : fstate * option (nat * nat) :=
  match o with
  | GetWaterfall => (upd s, None)
  | Copy => (upd s, None)                       (* copy() calls get_waterfall() on the original *)
  | Slice w => (derive upd s w, None)
  | Dedrift w => (derive upd s w, None)
  | SaveOp => let s' := upd s in (s', wf_shape s')     (* the writer uses the container's shape *)
  end.
Fixpoint run (upd : fstate -> fstate) (s : fstate) (ops : list op) : fstate * list (option (nat * nat)) :=
  match ops with
  | [] => (s, [])
  | o :: r => let '(s', w) := step upd s o in let '(s'', ws) := run upd s' r in (s'', w :: ws)
  end.

(* ---------------- stand-alone helpers: axes of exactly the file's counts ---------------- *)
Definition helper_fs (h : header) : list Q := tab (h_nchans h) (fun j => h_fch1 h + nq j * h_foff h).
Definition helper_ts (h : header) : list Q := tab (h_nints h) (fun i => nq i * h_tsamp h).
(* the unrepaired helpers used np.arange(start, start + n*step, step), whose length numpy computes in doubles *)
Local Open Scope float_scope.
Definition arange_len_f (start step : float) (n : Z) : Z :=
  to_Z_trunc (fceil (((start + of_Z n * step) - start) / step)).
