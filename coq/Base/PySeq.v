(* CPython sequence semantics used by several models: index normalisation,
   list.insert clamping, slices with optional bounds (step 1), del / set item. *)
From Coq Require Import List ZArith Lia Bool.
Import ListNotations.
Open Scope Z_scope.

Definition zlen {A} (l : list A) : Z := Z.of_nat (length l).

(* list.insert(i, v): position actually used *)
Definition clamp_insert (len i : Z) : Z :=
  if i <? 0 then Z.max 0 (len + i) else Z.min i len.

(* l[i], del l[i], l[i] = v : None = IndexError *)
Definition norm_index (len i : Z) : option nat :=
  let j := if i <? 0 then len + i else i in
  if (0 <=? j) && (j <? len) then Some (Z.to_nat j) else None.

(* slice bound normalisation, step = 1 (PySlice_AdjustIndices) *)
Definition norm_bound (len : Z) (b : option Z) (dflt : Z) : Z :=
  match b with
  | None => dflt
  | Some i => if i <? 0 then Z.max 0 (len + i) else Z.min i len
  end.

Definition ins {A} (n : nat) (v : A) (l : list A) := firstn n l ++ v :: skipn n l.
Definition del {A} (n : nat) (l : list A) := firstn n l ++ skipn (S n) l.
Definition upd {A} (n : nat) (v : A) (l : list A) := firstn n l ++ v :: skipn (S n) l.

(* l[lo:hi] and del l[lo:hi] *)
Definition pyslice {A} (l : list A) (lo hi : option Z) : list A :=
  let n := zlen l in
  let a := norm_bound n lo 0 in
  let b := norm_bound n hi n in
  firstn (Z.to_nat (b - a)) (skipn (Z.to_nat a) l).
Definition pydelslice {A} (l : list A) (lo hi : option Z) : list A :=
  let n := zlen l in
  let a := norm_bound n lo 0 in
  let b := norm_bound n hi n in
  if b <=? a then l else firstn (Z.to_nat a) l ++ skipn (Z.to_nat b) l.

Definition pyinsert {A} (l : list A) (i : Z) (v : A) : list A :=
  ins (Z.to_nat (clamp_insert (zlen l) i)) v l.

(* Python floor division and modulo coincide with Z.div / Z.modulo. *)
Definition cdiv (a b : Z) : Z := (a + b - 1) / b.

Lemma clamp_insert_range len i : 0 <= len -> 0 <= clamp_insert len i <= len.
Proof. intros H. unfold clamp_insert. destruct (i <? 0) eqn:E; lia. Qed.

Lemma norm_index_range len i n : norm_index len i = Some n -> (Z.of_nat n < len).
Proof.
  unfold norm_index. destruct ((0 <=? _) && (_ <? len)) eqn:E; [|discriminate].
  intros H; inversion H; subst. apply andb_true_iff in E. destruct E as [E1 E2].
  apply Z.leb_le in E1. apply Z.ltb_lt in E2. lia.
Qed.

Lemma ins_length {A} n (v : A) l : length (ins n v l) = S (length l).
Proof. unfold ins. rewrite app_length. cbn [length]. rewrite Nat.add_succ_r.
  rewrite <- app_length, firstn_skipn. reflexivity. Qed.

Lemma ins_end {A} (v : A) l : ins (length l) v l = l ++ [v].
Proof. unfold ins. now rewrite firstn_all, skipn_all. Qed.

Lemma In_ins {A} n (v x : A) l : In x (ins n v l) -> x = v \/ In x l.
Proof.
  unfold ins. intros H. apply in_app_or in H. destruct H as [H|[H|H]].
  - right. rewrite <- (firstn_skipn n l). apply in_or_app. now left.
  - now left.
  - right. rewrite <- (firstn_skipn n l). apply in_or_app. now right.
Qed.
Lemma In_del {A} n (x : A) l : In x (del n l) -> In x l.
Proof.
  unfold del. intros H. apply in_app_or in H. destruct H as [H|H].
  - rewrite <- (firstn_skipn n l). apply in_or_app. now left.
  - rewrite <- (firstn_skipn (S n) l). apply in_or_app. now right.
Qed.
Lemma In_upd {A} n (v x : A) l : In x (upd n v l) -> x = v \/ In x l.
Proof.
  unfold upd. intros H. apply in_app_or in H. destruct H as [H|[H|H]].
  - right. rewrite <- (firstn_skipn n l). apply in_or_app. now left.
  - now left.
  - right. rewrite <- (firstn_skipn (S n) l). apply in_or_app. now right.
Qed.

Lemma In_firstn {A} n (x : A) l : In x (firstn n l) -> In x l.
Proof. intros H. rewrite <- (firstn_skipn n l). apply in_or_app. now left. Qed.
Lemma In_skipn {A} n (x : A) l : In x (skipn n l) -> In x l.
Proof. intros H. rewrite <- (firstn_skipn n l). apply in_or_app. now right. Qed.
Lemma In_pydelslice {A} (x : A) l lo hi : In x (pydelslice l lo hi) -> In x l.
Proof.
  unfold pydelslice. destruct (_ <=? _); [trivial|]. intros H. apply in_app_or in H. destruct H as [H|H].
  - eapply In_firstn; eauto.
  - eapply In_skipn; eauto.
Qed.
Lemma In_pyslice {A} (x : A) l lo hi : In x (pyslice l lo hi) -> In x l.
Proof. unfold pyslice. intros H. apply In_firstn in H. eapply In_skipn; eauto. Qed.

Lemma nth_error_ins {A} n (v : A) l : (n <= length l)%nat -> nth_error (ins n v l) n = Some v.
Proof.
  intros H. unfold ins. rewrite nth_error_app2; rewrite firstn_length_le by lia; [|lia].
  now rewrite Nat.sub_diag.
Qed.
Lemma nth_error_upd {A} n (v : A) l : (n < length l)%nat -> nth_error (upd n v l) n = Some v.
Proof.
  intros H. unfold upd. rewrite nth_error_app2; rewrite firstn_length_le by lia; [|lia].
  now rewrite Nat.sub_diag.
Qed.
