(* matrices as lists of rows; tabulation and pixel access *)
From Coq Require Import List Arith Lia.
Import ListNotations.

Definition tab {A} (n : nat) (f : nat -> A) : list A := map f (seq 0 n).
Definition mk {A} (T F : nat) (f : nat -> nat -> A) : list (list A) := tab T (fun i => tab F (fun j => f i j)).
Definition nth2 {A} (d : A) (M : list (list A)) (i j : nat) : A := nth j (nth i M []) d.

Lemma tab_length {A} n (f : nat -> A) : length (tab n f) = n.
Proof. unfold tab. now rewrite map_length, seq_length. Qed.

Lemma nth_tab {A} n (f : nat -> A) k d : k < n -> nth k (tab n f) d = f k.
Proof.
  intros H. unfold tab. rewrite (nth_indep _ d (f 0)) by (now rewrite map_length, seq_length).
  rewrite map_nth. f_equal. now rewrite seq_nth.
Qed.

Lemma nth2_mk {A} T F (f : nat -> nat -> A) i j d : i < T -> j < F -> nth2 d (mk T F f) i j = f i j.
Proof. intros Hi Hj. unfold nth2, mk. rewrite nth_tab by assumption. now apply nth_tab. Qed.

Lemma nth_firstn_lt {A} (l : list A) n i d : i < n -> nth i (firstn n l) d = nth i l d.
Proof.
  revert l i. induction n as [|n IH]; intros l i H; [lia|].
  destruct l as [|a l]; [reflexivity|]. destruct i as [|i]; [reflexivity|]. cbn. apply IH. lia.
Qed.
Lemma nth_skipn_add {A} (l : list A) n i d : nth i (skipn n l) d = nth (n + i) l d.
Proof.
  revert l. induction n as [|n IH]; intros l; [reflexivity|].
  destruct l as [|a l]; [now destruct i|]. cbn. apply IH.
Qed.
