(* binary64 helpers on Coq's primitive floats, mirroring what numpy / CPython do:
   np.round / np.around / np.rint (half to even), np.floor, np.ceil, int() truncation,
   conversion of an integral double to Z.  Only PrimFloat / Uint63 are imported. *)
From Coq Require Import ZArith PrimFloat Uint63.
Open Scope float_scope.

Definition two52 : float := 0x1p+52.

Definition fabs (x : float) : float := PrimFloat.abs x.
Definition fneg (x : float) : float := PrimFloat.opp x.

(* round to nearest integer, ties to even (default rounding mode makes the +-2^52 trick exact) *)
Definition rint (x : float) : float :=
  let a := fabs x in
  if PrimFloat.ltb a two52 then
    let r := (a + two52) - two52 in
    if PrimFloat.ltb x 0 then fneg r else r
  else x.

Definition ffloor (x : float) : float :=
  let r := rint x in if PrimFloat.ltb x r then r - 1 else r.
Definition fceil (x : float) : float :=
  let r := rint x in if PrimFloat.ltb r x then r + 1 else r.
Definition ftrunc (x : float) : float :=
  if PrimFloat.ltb x 0 then fceil x else ffloor x.

(* exact value of a finite double as  mantissa * 2^exp  (mantissa : Z, exp : Z) *)
Definition decompose (x : float) : Z * Z :=
  let '(m, e) := frshiftexp (fabs x) in
  let mant := Uint63.to_Z (normfr_mantissa m) in
  let ex := (Uint63.to_Z e - 2101 - 53)%Z in
  ((if PrimFloat.ltb x 0 then - mant else mant)%Z, ex).

(* Z value of a double after truncation toward zero (Python int()) *)
Definition to_Z_trunc (x : float) : Z :=
  let '(m, e) := decompose x in
  if (0 <=? e)%Z then Z.shiftl m e
  else Z.quot m (Z.shiftl 1 (- e)).

(* observable encoding of a double for the harness: (mantissa, exponent) with x = m * 2^e *)
Definition obs (x : float) : Z * Z := decompose x.

Definition of_Z (z : Z) : float :=
  (* exact for |z| < 2^53; larger values are split so that the result is the correctly
     rounded sum only when it is representable -- used on integers below 2^53 only *)
  if (0 <=? z)%Z then PrimFloat.of_uint63 (Uint63.of_Z z)
  else fneg (PrimFloat.of_uint63 (Uint63.of_Z (- z))).

Definition fmax (a b : float) : float := if PrimFloat.ltb a b then b else a.
Definition fmin (a b : float) : float := if PrimFloat.ltb b a then b else a.
(* np.clip(x, lo, hi) = minimum(maximum(x, lo), hi) *)
Definition fclip (x lo hi : float) : float := fmin (fmax x lo) hi.
