(* Exact (rational) versions of the rounding functions the code uses:
   np.round / np.around / round()  = round half to even   (rhe)
   np.floor, np.ceil, int() truncation.                                     *)
From Coq Require Import ZArith QArith Qround Qabs Lia Lqa.
Open Scope Q_scope.

Definition rhe (q : Q) : Z :=
  let f := Qfloor q in
  let r := q - inject_Z f in
  match Qcompare r (1#2) with
  | Lt => f
  | Gt => (f + 1)%Z
  | Eq => if Z.even f then f else (f + 1)%Z
  end.

Definition qtrunc (q : Q) : Z := if Qle_bool 0 q then Qfloor q else Qceiling q.

Global Instance rhe_proper : Proper (Qeq ==> eq) rhe.
Proof.
  intros a b E. unfold rhe. rewrite (Qfloor_comp _ _ E).
  assert (E2 : a - inject_Z (Qfloor b) == b - inject_Z (Qfloor b)) by (rewrite E; reflexivity).
  rewrite (Qcompare_comp _ _ E2 (1#2) (1#2) (Qeq_refl _)). reflexivity.
Qed.

Lemma rhe_Z (z : Z) : rhe (inject_Z z) = z.
Proof.
  unfold rhe. rewrite Qfloor_Z.
  assert (E : inject_Z z - inject_Z z == 0) by ring.
  rewrite (Qcompare_comp _ _ E (1#2) (1#2) (Qeq_refl _)). reflexivity.
Qed.

Lemma rhe_near q : Qabs (q - inject_Z (rhe q)) <= 1#2.
Proof.
  unfold rhe. set (f := Qfloor q).
  assert (H1 := Qfloor_le q). assert (H2 := Qlt_floor q). fold f in H1, H2.
  rewrite inject_Z_plus in H2. change (inject_Z 1) with 1 in H2.
  destruct (Qcompare (q - inject_Z f) (1#2)) eqn:C.
  - apply Qeq_alt in C. destruct (Z.even f); [|rewrite inject_Z_plus; change (inject_Z 1) with 1];
    apply Qabs_Qle_condition; split; lra.
  - apply Qlt_alt in C. apply Qabs_Qle_condition; split; lra.
  - apply Qgt_alt in C. rewrite inject_Z_plus. change (inject_Z 1) with 1. apply Qabs_Qle_condition; split; lra.
Qed.

(* bounds of rhe in terms of the floor *)
Lemma rhe_floor_bounds q : (Qfloor q <= rhe q <= Qfloor q + 1)%Z.
Proof. unfold rhe. destruct (Qcompare _ _); [destruct (Z.even _)| |]; lia. Qed.

Lemma Qfloor_mono a b : a <= b -> (Qfloor a <= Qfloor b)%Z.
Proof. apply Qfloor_resp_le. Qed.

(* round-half-even is monotone *)
Lemma rhe_mono a b : a <= b -> (rhe a <= rhe b)%Z.
Proof.
  intros H. pose proof (Qfloor_mono a b H) as HF.
  pose proof (rhe_floor_bounds a) as Ba. pose proof (rhe_floor_bounds b) as Bb.
  destruct (Z.eq_dec (Qfloor a) (Qfloor b)) as [E|NE].
  - (* same floor: compare fractional parts *)
    unfold rhe. rewrite <- E. set (f := Qfloor a) in *.
    destruct (Qcompare (a - inject_Z f) (1#2)) eqn:Ca;
    destruct (Qcompare (b - inject_Z f) (1#2)) eqn:Cb;
    first [apply Qeq_alt in Ca | apply Qlt_alt in Ca | apply Qgt_alt in Ca];
    first [apply Qeq_alt in Cb | apply Qlt_alt in Cb | apply Qgt_alt in Cb];
    try (destruct (Z.even f)); try lia; exfalso; lra.
  - lia.
Qed.

