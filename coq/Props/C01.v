(* C01 -- the injected signal is the pointwise product of its four components (+ integration, smearing). *)
From Coq Require Import List Arith ZArith QArith.
From SV Require Import Base.Tab Model.Signal Proofs.Signal.
Import ListNotations.
Local Open Scope Q_scope.

Theorem c01_plain : forall fr p tpf fp b br fr' ret i j, wf fr ->
  add_signal fr (CFun p) (CFun tpf) fp (Some (CFun b)) br no_opts = Ok (fr', ret) ->
  (i < T fr)%nat -> (fst (bounds fr br) <= j < snd (bounds fr br))%nat ->
  nth2 0 ret i j = tpf (ts fr i) * fp (fs fr j) (p (ts fr i)) * b (fs fr j).
Proof. exact plain_formula. Qed.
Print Assumptions c01_plain.

Theorem c01_forms : forall fr f c,
  t_values fr no_opts (CArr (tab (T fr) (fun i => f (ts fr i)))) = t_values fr no_opts (CFun f) /\
  path_values fr no_opts (CArr (tab (T fr) (fun i => f (ts fr i)))) = path_values fr no_opts (CFun f) /\
  t_values fr no_opts (CScal c) = t_values fr no_opts (CFun (fun _ => c)) /\
  path_values fr no_opts (CScal c) = path_values fr no_opts (CFun (fun _ => c)) /\
  (forall grid, bp_values grid None = bp_values grid (Some (CScal 1))).
Proof. exact forms_agree. Qed.
Print Assumptions c01_forms.

(* ... and under every option: with smearing (one more value) and with sub-sample integration (the mean of copies of c is c) *)
Theorem c01_constant_function : forall fr o c,
  (integrate_path o = false -> path_values fr o (CFun (fun _ => c)) = path_values fr o (CScal c)) /\
  (integrate_t o = false -> t_values fr o (CFun (fun _ => c)) = t_values fr o (CScal c)) /\
  ((0 < t_sub o)%nat -> exists l, path_values fr o (CFun (fun _ => c)) = Ok l /\ length l = teff fr o /\ forall i, (i < teff fr o)%nat -> (nth i l 0 == c)%Q) /\
  ((0 < t_sub o)%nat -> exists l, t_values fr o (CFun (fun _ => c)) = Ok l /\ length l = T fr /\ forall i, (i < T fr)%nat -> (nth i l 0 == c)%Q).
Proof. exact constant_function. Qed.
Print Assumptions c01_constant_function.

Theorem c01_smear_array_path : forall fr o l,
  path_values fr o (CArr l) = (if Nat.eqb (length l) (if smear o then S (T fr) else T fr) then Ok l else Err ValueError).
Proof. exact smear_array_path. Qed.
Print Assumptions c01_smear_array_path.

(* Doppler smearing = mean over n copies whose centres are p, p + dp, p + 2dp, ... with dp = (p_next - p)/n *)
Theorem c01_smear : forall fp n tv pv bv grid i j,
  pixel_smear fp n tv pv bv grid i j ==
  qsum (map (fun m => nth i tv 0 * fp (nth j grid 0) (iter_add (nth i pv 0) ((nth (S i) pv 0 - nth i pv 0) / nq n) m) / nq n * nth j bv 0) (seq 0 n)).
Proof. exact smear_formula. Qed.
Print Assumptions c01_smear.

Theorem c01_smear_centres : forall p dp m, iter_add p dp m == p + nq m * dp.
Proof. exact iter_add_closed. Qed.
Print Assumptions c01_smear_centres.

Theorem c01_smear_one : forall fp tv pv bv grid i j, pixel_smear fp 1 tv pv bv grid i j == pixel_plain fp tv pv bv grid i j.
Proof. exact smear_one. Qed.
Print Assumptions c01_smear_one.

(* outside the bounding range the returned array is zero (shared with C06) *)
Theorem c01_outside_zero : forall fr path tp fp bp br o fr' ret, wf fr -> add_signal fr path tp fp bp br o = Ok (fr', ret) ->
  forall i j, (i < T fr)%nat -> (j < F fr)%nat -> ~ (fst (bounds fr br) <= j < snd (bounds fr br))%nat ->
  nth2 0 (data fr') i j = nth2 0 (data fr) i j /\ nth2 0 ret i j = 0.
Proof. exact untouched. Qed.
Print Assumptions c01_outside_zero.

Example c01_example :
  let fr := {| T := 2; F := 5; df := 2; dt := 1; fmin := 100; t0 := 0; data := mk 2 5 (fun _ _ => 0) |} in
  let box := fun f fc => if Qle_bool (Qabs.Qabs (f - fc)) 1 then 1 else 0 in
  match add_signal fr (CFun (fun t => 102 + 2 * t)) (CScal 3) box None (Some (102, 108)) no_opts with
  | Ok (_, r) => map (map Qred) r = [[0;3;0;0;0];[0;0;3;0;0]]
  | Err _ => False
  end.
Proof. vm_compute. reflexivity. Qed.
