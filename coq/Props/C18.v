(* C18 -- a cadence is a consistency-guarded list of frames with stable order labels.
   Only statements; each is closed by [exact] of a lemma from Proofs/CadenceList.v. *)
From Coq Require Import List ZArith Bool.
From SV Require Import Base.PySeq Model.CadenceList Proofs.CadenceList.
Import ListNotations.
Open Scope Z_scope.

(* every reachable cadence (any operation sequence, any length) holds only Frames of one
   (df, dt, fchans, fmin) class *)
Theorem c18_guard_inv : forall b o l ops,
  exists c, Forall (fun x => cls_of x = Some c) (frames (cd (run (init b o l) ops))).
Proof. exact guard_invariant_init. Qed.
Print Assumptions c18_guard_inv.

(* an accepted operation does exactly what a plain Python list does; a rejected one
   (other than extend / set_order) changes nothing, labels included *)
Theorem c18_refines_list : forall w o, is_extend o = false ->
  match step w o with
  | (w', _, None) => pylist_step (frames (cd w)) o = Some (frames (cd w'))
  | (w', _, Some _) => is_setorder o = false -> w' = w
  end.
Proof. exact refines_list. Qed.
Print Assumptions c18_refines_list.

Theorem c18_extend_prefix : forall vs w, exists k,
  frames (cd (fst (fst (do_extend w vs)))) = frames (cd w) ++ firstn k vs /\
  (snd (do_extend w vs) = None -> k = length vs).
Proof. exact extend_prefix. Qed.
Print Assumptions c18_extend_prefix.

Theorem c18_getters : forall w,
  (forall i, match step w (GetInt i) with
             | (_, r, None) => exists n, norm_index (zlen (frames (cd w))) i = Some n /\ nth_error (frames (cd w)) n = Some (hd (Other 0) r) /\ length r = 1%nat
             | (_, _, Some e) => e = IndexError
             end) /\
  (forall lo hi, step w (GetSlice lo hi) = (w, pyslice (frames (cd w)) lo hi, None)).
Proof. exact getters_refine. Qed.
Print Assumptions c18_getters.

Theorem c18_labels_stable : forall w o, is_setorder o = false ->
  forall j c, lookup (lab w) j = Some c -> lookup (lab (wstep w o)) j = Some c.
Proof. exact labels_stable. Qed.
Print Assumptions c18_labels_stable.

Theorem c18_label_at_position : forall w o v,
  ordered (cd w) = true -> lookup (lab w) (oid v) = None ->
  (exists i, o = Insert i v \/ o = SetItem i v) \/ o = Append v ->
  match step w o with
  | (w', _, None) => exists pos c, nth_error (frames (cd w')) pos = Some v /\
                                  nth_error (order (cd w')) pos = Some c /\
                                  lookup (lab w') (oid v) = Some c
  | (_, _, Some _) => True
  end.
Proof. exact label_at_position. Qed.
Print Assumptions c18_label_at_position.

Theorem c18_all_labelled : forall ops w, ordered (cd w) = true -> AllLabelled w -> AllLabelled (run w ops).
Proof. exact all_labelled. Qed.
Print Assumptions c18_all_labelled.

Theorem c18_by_label : forall l c s,
  by_label_filter l c s = filter (fun f => match lookup l (oid f) with Some c' => Z.eqb c' c | None => false end) s.
Proof. exact by_label_spec. Qed.
Print Assumptions c18_by_label.

(* non-vacuity: a concrete ordered cadence history exercising accept, reject, clamp and labels *)
Example c18_example :
  let ops := [Append (Frame 1 0); Append (Other 9); Insert 100 (Frame 2 0); Insert (-100) (Frame 3 0);
              Append (Frame 4 1); SetItem 1 (Frame 5 0); DelItem (-1); Pop 0] in
  trace [1;2;3;4;5]%nat (init true [65;66;65;67;65;68] []) ops =
  [ (0, [], [1], [65;-1;-1;-1;-1]);
    (1, [], [1], [65;-1;-1;-1;-1]);
    (0, [], [1;2], [65;66;-1;-1;-1]);
    (0, [], [3;1;2], [65;66;65;-1;-1]);
    (2, [], [3;1;2], [65;66;65;-1;-1]);
    (0, [], [3;5;2], [65;66;65;-1;66]);
    (0, [], [3;5], [65;66;65;-1;66]);
    (0, [3], [5], [65;66;65;-1;66]) ].
Proof. vm_compute. reflexivity. Qed.
