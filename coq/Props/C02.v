(* C02 -- recorded RAW samples = reference pipeline, whatever the partitioning. *)
From Coq Require Import List ZArith Lia Bool.
From SV Require Import Base.PySeq Model.Backend Model.RawLayout Model.PFB Proofs.PFB Proofs.RawLayout.
From SV Require Import Kernels.Gen02 Proofs.K02.
Import ListNotations.
Local Open Scope Z_scope.

(* q = 2: 8-bit (re, im bytes); q = 1: 4-bit (one packed byte).  (sT, n', last) as produced by the
   sub-block plan (c02_plan).  Every write of collect_data_block lands on the cell the GUPPI RAW
   layout (channel-major, time, polarisation, re/im) assigns to that sample ... *)
Theorem c02_write_sound : forall q npols nchans nants sT n' last,
  1 <= q -> 1 <= npols -> 1 <= nchans -> 1 <= nants -> 1 <= sT -> 1 <= n' -> 1 <= last <= sT ->
  forall s a p c k comp, valid q npols nchans nants sT n' last s a p c k comp ->
  0 <= w_row nchans a c < nants * nchans /\
  0 <= w_tau sT s k < T sT n' last /\
  w_row nchans a c = spec_row nchans a c /\
  w_col q npols sT s p k comp = spec_col q npols (w_tau sT s k) p comp /\
  0 <= w_col q npols sT s p k comp < T sT n' last * bpsz q npols.
Proof. exact write_sound. Qed.
Print Assumptions c02_write_sound.

(* ... every cell of the block is written (nothing of np.empty survives) ... *)
Theorem c02_cover : forall q npols nchans nants sT n' last,
  1 <= q -> 1 <= npols -> 1 <= nchans -> 1 <= nants -> 1 <= sT -> 1 <= n' -> 1 <= last <= sT ->
  forall row col, 0 <= row < nants * nchans -> 0 <= col < T sT n' last * bpsz q npols ->
  exists s a p c k comp, valid q npols nchans nants sT n' last s a p c k comp /\
    row = w_row nchans a c /\ col = w_col q npols sT s p k comp.
Proof. exact cover_full. Qed.
Print Assumptions c02_cover.

(* ... and distinct samples never share a cell *)
Theorem c02_layout_injective : forall q npols, 1 <= q -> 1 <= npols ->
  forall tau p comp tau' p' comp',
  0 <= p < npols -> 0 <= comp < q -> 0 <= p' < npols -> 0 <= comp' < q ->
  spec_col q npols tau p comp = spec_col q npols tau' p' comp' -> tau = tau' /\ p = p' /\ comp = comp'.
Proof. exact spec_col_inj_full. Qed.
Print Assumptions c02_layout_injective.

Theorem c02_plan : forall tps w nsub, 1 <= tps -> 1 <= w -> 1 <= nsub ->
  let ws := ws_of w nsub in
  let n' := nsub_eff w nsub in
  let lastw := if (w mod ws =? 0) then ws else w mod ws in
  T (tps * ws) n' (tps * lastw) = tps * w /\ 1 <= tps * ws /\ 1 <= n' /\ 1 <= tps * lastw <= tps * ws.
Proof. exact plan_T. Qed.
Print Assumptions c02_plan.

Theorem c02_nibbles : forall R I, -8 <= R <= 7 -> -8 <= I <= 7 ->
  -128 <= encode4 R I <= 127 /\ decode4 (encode4 R I) = (R, I) /\ decode4_std (encode4 R I) = (R, I).
Proof. exact nibble_roundtrip. Qed.
Print Assumptions c02_nibbles.

(* the stream cut at ANY request sizes that are positive multiples of taps*nb (sub-block, block and
   file boundaries included) channelises to the spectra of the whole stream, in order *)
Theorem c02_time_order : forall (A Row : Type) (fir : list A -> Row) (taps nb : nat),
  (0 < taps)%nat -> (0 < nb)%nat ->
  forall sizes (xs : list A), sizes <> [] -> length xs = list_sum sizes ->
  Forall (fun n => exists k, (1 <= k)%nat /\ n = (k * PFB.win taps nb)%nat) sizes ->
  PFB.run A Row fir taps nb None (split sizes xs) = PFB.rows A Row fir taps nb xs.
Proof. exact time_order. Qed.
Print Assumptions c02_time_order.

Theorem c02_partition_independent : forall (A Row : Type) (fir : list A -> Row) (taps nb : nat),
  (0 < taps)%nat -> (0 < nb)%nat ->
  forall sizes1 sizes2 (xs : list A), sizes1 <> [] -> sizes2 <> [] ->
  length xs = list_sum sizes1 -> length xs = list_sum sizes2 ->
  Forall (fun n => exists k, (1 <= k)%nat /\ n = (k * PFB.win taps nb)%nat) sizes1 ->
  Forall (fun n => exists k, (1 <= k)%nat /\ n = (k * PFB.win taps nb)%nat) sizes2 ->
  PFB.run A Row fir taps nb None (split sizes1 xs) = PFB.run A Row fir taps nb None (split sizes2 xs).
Proof. exact partition_independent. Qed.
Print Assumptions c02_partition_independent.

(* the sub-block plan expressions of the CURRENT source (Kernels/Gen02.v, regenerated on every run): W - 1, subblock_T and the recomputed
   num_subblocks are the model's ws_of, taps * ws_of and nsub_eff, for a block of w whole PFB windows *)
Theorem c02_source_plan : forall taps w nsub, 1 <= taps -> 1 <= w -> 1 <= nsub ->
  src_windows_per_subblock (taps * w) taps nsub = ws_of w nsub + 1 /\
  src_subblock_T (ws_of w nsub + 1) taps = taps * ws_of w nsub /\
  src_num_subblocks (taps * w) (taps * ws_of w nsub) = nsub_eff w nsub.
Proof. exact k02_plan. Qed.
Print Assumptions c02_source_plan.

Example c02_example :
  let c := {| nants := 2; npols := 2; nbits := 4; nchans := 3; taps := 2; nb := 8; block_size := 2*3*2*10; blocks_per_file := 2 |} in
  spb c = 10 /\ plan 5 3 = [2;2;1] /\
  map (fun w => let '(r, t, tau0, n) := w in (hd 0 r, t, tau0, n)) (firstn 3 (block_writes c 3)) =
    [ (0, [0;2;4;6], 0, 4); (0, [1;3;5;7], 0, 4); (3, [0;2;4;6], 0, 4) ] /\
  nth 9 (block_writes c 3) ([], [], 0, 0) = ([0;1;2], [17;19], 8, 2).
Proof. vm_compute. repeat split. Qed.
