(* C11 -- synthetic noise has the requested distribution; SNR bookkeeping is consistent.
   Exact-rational statements (moments, floor, inverse, quadrature) and statements about the binary64
   instance of the same generic model that the correspondence check runs against the implementation. *)
From Coq Require Import List ZArith QArith Bool PrimFloat.
From SV Require Import Base.Rounding Model.Grid Model.Noise Proofs.Noise.
From SV Require Import Kernels.Gen11 Proofs.K11.
Import ListNotations.

(* chi-squared noise: unit draws of mean k and variance 2k (the generator's contract) give noise of mean
   x_mean and variance 2 x_mean^2 / k, for every k <> 0 and every number of draws *)
Theorem c11_chi2_moments : forall x_mean k draws, draws <> [] -> ~ (k == 0)%Q -> (qmean draws == k)%Q -> (qvar draws == 2 * k)%Q ->
  (qmean (chi2_noise_q x_mean k draws) == x_mean)%Q /\ (qvar (chi2_noise_q x_mean k draws) == chi2_var x_mean k)%Q.
Proof. exact chi2_scaling. Qed.
Print Assumptions c11_chi2_moments.

(* scaling any sample by c scales its mean by c and its variance by c^2 (no assumption on the sample) *)
Theorem c11_moments_scale : forall c l, l <> [] ->
  (qmean (map (fun x => x * c) l) == c * qmean l)%Q /\ (qvar (map (fun x => x * c) l) == c * c * qvar l)%Q.
Proof. exact moments_scale. Qed.
Print Assumptions c11_moments_scale.

Theorem c11_floor : forall x_min draws, Forall (fun v => (x_min <= v)%Q) (truncated_q x_min draws).
Proof. exact truncated_floor. Qed.
Print Assumptions c11_floor.
Theorem c11_floor_keeps_above : forall x_min draws i, (i < length draws)%nat -> (x_min <= nth i draws 0)%Q ->
  nth i (truncated_q x_min draws) 0%Q = nth i draws 0%Q.
Proof. exact truncated_above. Qed.
Print Assumptions c11_floor_keeps_above.

(* the returned array is what was added (binary64 instance) *)
Theorem c11_returned_is_added : forall (st : fstate float) o est, length (data st) = length (noise o) ->
  let st' := fstep_f st (ONoise o est) in
  length (data st') = length (data st) /\
  forall i dflt, (i < length (data st))%nat -> nth i (data st') dflt = PrimFloat.add (nth i (data st) dflt) (nth i (noise o) dflt).
Proof. intros st o est. exact (returned_is_added PrimFloat.add (data st) (noise o)). Qed.
Print Assumptions c11_returned_is_added.

Theorem c11_first_noise_sets_params : forall (st : fstate float) o est, set_to_param fis0 st = true ->
  let st' := fstep_f st (ONoise o est) in nmean st' = p_mean o /\ nstd st' = p_std o.
Proof. exact (first_noise_sets_params fis0 PrimFloat.add). Qed.
Print Assumptions c11_first_noise_sets_params.
Theorem c11_later_noise_reestimates : forall (st : fstate float) o est, set_to_param fis0 st = false ->
  let st' := fstep_f st (ONoise o est) in nmean st' = fst est /\ nstd st' = snd est.
Proof. exact (later_noise_reestimates fis0 PrimFloat.add). Qed.
Print Assumptions c11_later_noise_reestimates.
Theorem c11_fresh_is_empty : forall n, set_to_param fis0 (fresh_f n) = true.
Proof. intros n. reflexivity. Qed.
Print Assumptions c11_fresh_is_empty.
Theorem c11_zero_data_resets : forall st : fstate float,
  set_to_param fis0 (fstep_f st OZero) = true /\ Forall (fun v => v = f0) (data (fstep_f st OZero)).
Proof. exact (zero_data_resets f0 fis0 eq_refl). Qed.
Print Assumptions c11_zero_data_resets.
Theorem c11_signal_keeps_estimates : forall (st : fstate float) sig,
  nmean (fstep_f st (OSignal sig)) = nmean st /\ nstd (fstep_f st (OSignal sig)) = nstd st.
Proof. exact (signal_keeps_estimates PrimFloat.add). Qed.
Print Assumptions c11_signal_keeps_estimates.
(* any history ending in zero_data, signals only, then noise: the estimates are that noise's parameters *)
Theorem c11_history : forall (st : fstate float) pre mid o est, forallb is_signal mid = true ->
  let st' := fold_left fstep_f (pre ++ OZero :: mid ++ [ONoise o est]) st in nmean st' = p_mean o /\ nstd st' = p_std o.
Proof. exact (zero_then_noise_sets_params f0 fis0 PrimFloat.add eq_refl). Qed.
Print Assumptions c11_history.

(* tables (binary64 instance) *)
Theorem c11_table_shared : forall k means stds mins wm i draws o,
  from_obs_f k means stds mins (OShared wm) [i] draws = Some o -> (i < length means)%nat ->
  p_mean o = nth i means f0 /\ p_std o = nth i stds f0 /\ In (p_mean o) means /\ In (p_std o) stds /\
  In (RNormal (p_mean o) (p_std o)) (reqs o) /\ In (RIntegers (length means)) (reqs o) /\
  (if wm then noise o = truncated PrimFloat.ltb (nth i mins f0) draws /\ In (nth i mins f0) mins else noise o = draws).
Proof. exact (from_obs_shared_entries f0 PrimFloat.mul PrimFloat.div PrimFloat.ltb chi2_std_f). Qed.
Print Assumptions c11_table_shared.
Theorem c11_table_shared_lengths : forall k means stds mins wm i draws,
  length means <> length stds -> from_obs_f k means stds mins (OShared wm) [i] draws = None.
Proof. exact (from_obs_shared_needs_equal_lengths f0 PrimFloat.mul PrimFloat.div PrimFloat.ltb chi2_std_f). Qed.
Print Assumptions c11_table_shared_lengths.
Theorem c11_table_indep : forall k means stds mins wm idx draws o,
  from_obs_f k means stds mins (OIndep wm) idx draws = Some o ->
  Forall (fun i => i < length means /\ i < length stds /\ (wm = true -> i < length mins))%nat idx ->
  In (p_std o) stds /\ (In (p_mean o) means \/ p_mean o = p_std o) /\ In (RNormal (p_mean o) (p_std o)) (reqs o) /\
  (if wm then exists mn, In mn mins /\ noise o = truncated PrimFloat.ltb mn draws else noise o = draws).
Proof. exact (from_obs_indep_entries f0 PrimFloat.mul PrimFloat.div PrimFloat.ltb chi2_std_f). Qed.
Print Assumptions c11_table_indep.
Theorem c11_table_chi2 : forall k means stds mins i draws o,
  from_obs_f k means stds mins OChi2 [i] draws = Some o -> (i < length means)%nat ->
  In (p_mean o) means /\ p_mean o = nth i means f0 /\ noise o = chi2_noise PrimFloat.mul PrimFloat.div (p_mean o) k draws /\
  p_std o = chi2_std_f (p_mean o) k /\ reqs o = [RChoice 0; RChi2 k].
Proof. exact (from_obs_chi2_entry f0 PrimFloat.mul PrimFloat.div PrimFloat.ltb chi2_std_f). Qed.
Print Assumptions c11_table_chi2.

Theorem c11_snr_inverse : forall s sigma r, ~ (sigma == 0)%Q -> ~ (r == 0)%Q ->
  (get_snr_q (get_intensity_q s sigma r) sigma r == s)%Q /\ (get_intensity_q (get_snr_q s sigma r) sigma r == s)%Q /\
  (get_intensity_q s sigma r * r == s * sigma)%Q.
Proof. exact snr_inverse. Qed.
Print Assumptions c11_snr_inverse.

Theorem c11_quadrature : forall a ops s, (a < length (own_var s))%nat ->
  (total_var (fold_left vstep ops s) a == total_var s a + qsum (map (sq_for a) ops))%Q.
Proof. exact quadrature. Qed.
Print Assumptions c11_quadrature.
Theorem c11_background_shared : forall s v a, (total_var (vstep s (BackgroundNoise v)) a == total_var s a + v * v)%Q.
Proof. exact background_shared. Qed.
Print Assumptions c11_background_shared.
Theorem c11_own_is_private : forall s v a b, a <> b -> (total_var (vstep s (StreamNoise a v)) b == total_var s b)%Q.
Proof. exact own_is_private. Qed.
Print Assumptions c11_own_is_private.

(* the scalar expressions of the CURRENT source (Kernels/Gen11.v, regenerated on every run) are the model's *)
Theorem c11_source_kernels : forall s i sigma r, ~ (sigma == 0)%Q -> ~ (r == 0)%Q ->
  (src_get_intensity s sigma r == get_intensity_q s sigma r)%Q /\ (src_get_snr i sigma r == get_snr_q i sigma r)%Q.
Proof. exact k11_all. Qed.
Print Assumptions c11_source_kernels.
Theorem c11_source_chi2_df : forall df dt, src_chi2_df df dt = (4 * rhe (df * dt))%Z.
Proof. exact k_chi2_df. Qed.
Print Assumptions c11_source_chi2_df.
Theorem c11_source_stream_noise : forall s v a, (a < length (own_var s))%nat ->
  (nth a (own_var (vstep s (StreamNoise a v))) 0 == nth a (own_var s) 0 + v * v)%Q /\
  forall sd, (sd * sd == nth a (own_var s) 0)%Q -> (src_stream_noise_var sd v == nth a (own_var (vstep s (StreamNoise a v))) 0)%Q.
Proof. exact k_stream_noise_var. Qed.
Print Assumptions c11_source_stream_noise.

Theorem c11_source_chi2_std : forall m k r, (0 < k)%Z -> (r * r == 2 * inject_Z k)%Q ->
  (src_chi2_std m k r * src_chi2_std m k r == chi2_var m (inject_Z k))%Q /\ (src_chi2_std_obs m k r == src_chi2_std m k r)%Q.
Proof. exact k_chi2_std. Qed.
Print Assumptions c11_source_chi2_std.
(* noise drawn with no arrays given: every column entry of the bundled table is (table row) * dt / obs_dt -- the same for the three
   columns, the table itself at the observation's resolution, proportional to dt, and order-preserving (a floor below a mean stays below) *)
Theorem c11_source_default_table : forall row dt,
  (src_obs_mean_entry row dt == default_entry row dt)%Q /\ (src_obs_std_entry row dt == default_entry row dt)%Q /\ (src_obs_min_entry row dt == default_entry row dt)%Q.
Proof. exact k_obs_entries. Qed.
Print Assumptions c11_source_default_table.
Theorem c11_default_table_scaling : forall row row' dt c,
  (default_entry row obs_dt == row)%Q /\ (default_entry row (c * dt) == c * default_entry row dt)%Q /\
  ((0 <= dt)%Q -> (row <= row')%Q -> (default_entry row dt <= default_entry row' dt)%Q).
Proof. intros row row' dt c. exact (conj (default_entry_at_obs_dt row) (conj (default_entry_homogeneous row dt c) (default_entry_monotone row row' dt))). Qed.
Print Assumptions c11_default_table_scaling.

Example c11_example :
  (* a sample with mean 4 and variance 8 (k = 4): [0; 4; 4; 8] -> mean 4, var 8 *)
  let u := [0; 4; 4; 8]%Q in
  (Qeq_bool (qmean u) 4 && Qeq_bool (qvar u) 8 && Qeq_bool (qmean (chi2_noise_q 10 4 u)) 10 && Qeq_bool (qvar (chi2_noise_q 10 4 u)) (chi2_var 10 4) = true) /\
  truncated_q 1 [3; -2; 1]%Q = [3; 1; 1]%Q /\
  (let st := fold_left fstep_f [ONoise (gen_noise_f 4 (Gauss 5 2) [1; 2]) (9, 9); OSignal [1; 1]; ONoise (gen_noise_f 4 (Gauss 1 1) [0; 0]) (7, 3)]%float (fresh_f 2) in
   (nmean st, nstd st) = (7, 3)%float) /\
  set_to_param fis0 (fresh_f 3) = true /\
  (chi2_df_f 2 3 = 24)%Z.
Proof. vm_compute. repeat split. Qed.
