(* C10 -- one continuous timeline however requests are chunked. *)
From Coq Require Import List ZArith QArith Bool.
From SV Require Import Model.Stream Proofs.Stream.
Import ListNotations.

Theorem c10_concat : forall ns s, (nsrc s = 0 \/ nsrc s = 1)%Z -> Forall (fun n => (0 <= n)%Z) ns ->
  samples (fst (run s (map Get ns))) =
  expand (clock s, fold_right Z.add 0%Z ns, firsts (rngpos s) (fold_right Z.add 0%Z ns) (Z.to_nat (nsrc s))).
Proof. exact concat_requests. Qed.
Print Assumptions c10_concat.

Theorem c10_sample_time : forall s n k, (k < Z.to_nat n)%nat ->
  nth k (map fst (expand (fst (get s n)))) 0%Z = (clock s + Z.of_nat k)%Z.
Proof. exact sample_time. Qed.
Print Assumptions c10_sample_time.

Theorem c10_clock : forall ops s, clock (snd (run s ops)) = clock_after (clock s) ops.
Proof. exact clock_algebra. Qed.
Print Assumptions c10_clock.

Theorem c10_update_noise_transparent : forall s m,
  clock (update_noise s m) = clock s /\ start_obs (update_noise s m) = start_obs s /\
  rngpos (update_noise s m) = (rngpos s + nsrc s * m)%Z /\ nsrc (update_noise s m) = nsrc s.
Proof. exact update_noise_transparent. Qed.
Print Assumptions c10_update_noise_transparent.

Theorem c10_chirp : forall f_start fch1 drift asc t h, ~ h == 0 ->
  (chirp_cycles f_start fch1 drift asc (t + h) - chirp_cycles f_start fch1 drift asc (t - h)) / (2 * h)
  == (if asc then 1 else -1) * ((f_start - fch1) + drift * t).
Proof. exact chirp_frequency. Qed.
Print Assumptions c10_chirp.

(* the statement of the property is FALSE of the faithful model for two or more noise sources on one
   stream (they share one generator); known finding D21 *)
Theorem c10_two_noise_sources_refuted : exists s a b, (nsrc s = 2)%Z /\ (0 <= a)%Z /\ (0 <= b)%Z /\
  samples (fst (run s [Get a; Get b])) <> samples (fst (run s [Get (a + b)%Z])).
Proof. exact two_sources_refuted. Qed.
Print Assumptions c10_two_noise_sources_refuted.

Example c10_example :
  fst (run (fresh 10 1) [Get 3; UpdateNoise 5; Get 2; SetTime 100; Get 2]) =
  [(10, 3, [0]); (13, 2, [8]); (100, 2, [10])]%Z.
Proof. vm_compute. reflexivity. Qed.
