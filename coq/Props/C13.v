(* C13 -- the constant-signal helper injects the same signal as general injection. *)
From Coq Require Import List Arith ZArith QArith Qround Qabs.
From SV Require Import Base.Tab Base.Rounding Model.Signal Model.ConstSignal Proofs.Signal Proofs.ConstSignal.
From SV Require Import Kernels.Gen13 Proofs.K13.
Import ListNotations.
Local Open Scope Q_scope.

(* every channel j within half a width of the signal centre -- wherever the centre is during the sweep,
   sub-steps of Doppler smearing included -- lies inside the helper's bounding box: for every width
   (also far below one channel), either drift sign, any start position *)
Theorem c13_support_in_box : forall c0 w pdo c (j : Z),
  c0 + qmin pdo 0 <= c <= c0 + qmax pdo 0 ->
  Qabs (inject_Z j - c) < Qabs w * (1#2) ->
  (box_lo c0 w pdo <= j < box_hi c0 w pdo)%Z.
Proof. exact support_in_box. Qed.
Print Assumptions c13_support_in_box.

Theorem c13_sweep : forall c0 D n s, 0 <= s <= n ->
  c0 + qmin (D * n) 0 <= c0 + D * s <= c0 + qmax (D * n) 0.
Proof. exact sweep_between. Qed.
Print Assumptions c13_sweep.

(* inside the box the helper's value is the general (unbounded) injection's value, pixel for pixel *)
Theorem c13_equal_inside : forall fr path tp fp bp br o frb retb fru retu i j,
  wf fr -> integrate_f o = false -> simple_bp bp ->
  add_signal fr path tp fp bp br o = Ok (frb, retb) ->
  add_signal fr path tp fp bp None o = Ok (fru, retu) ->
  (i < T fr)%nat -> (fst (bounds fr br) <= j < snd (bounds fr br))%nat ->
  nth2 0 retb i j = nth2 0 retu i j.
Proof. exact bounded_eq_unbounded. Qed.
Print Assumptions c13_equal_inside.

(* sub-steps = max(1, ceil(|drift|/unit drift)): at least one, no sub-step moves more than one channel, one for zero drift *)
Theorem c13_substeps : forall D, (1 <= substeps D)%Z /\ Qabs D <= inject_Z (substeps D) /\ (D == 0 -> substeps D = 1%Z).
Proof. exact substeps_spec. Qed.
Print Assumptions c13_substeps.

(* a non-drifting smeared signal (one sub-step) equals the unsmeared one *)
Theorem c13_zero_drift_smear : forall fp tv pv bv grid i j, pixel_smear fp 1 tv pv bv grid i j == pixel_plain fp tv pv bv grid i j.
Proof. exact smear_one. Qed.
Print Assumptions c13_zero_drift_smear.

(* drift -d sweeps the mirror image of drift +d about the start position *)
Theorem c13_mirror : forall pdo : Q, qmin (- pdo) 0 == - qmax pdo 0 /\ qmax (- pdo) 0 == - qmin pdo 0.
Proof. exact box_mirror. Qed.
Print Assumptions c13_mirror.

(* the sub-step expression of the CURRENT source (Kernels/Gen13.v, regenerated on every run) is the model's *)
Theorem c13_source_substeps : forall drift unit, ~ (unit == 0)%Q -> (0 < unit)%Q ->
  src_smearing_subsamples drift unit = substeps (drift / unit).
Proof. exact k_smearing_subsamples. Qed.
Print Assumptions c13_source_substeps.

(* the helper's bounding-box expressions of the CURRENT source (centre, width and sweep in channels, outward rounding, clamping) are the model's *)
Theorem c13_source_box : forall f_start fmin df dt width drift (Tn : nat), (0 < df)%Q -> (1 <= Tn)%nat ->
  let c0 := ((f_start - fmin) / df)%Q in
  let w := (width / df)%Q in
  let D := (drift * dt / df)%Q in
  (src_px_start f_start fmin df == c0)%Q /\
  (src_px_width_offset width df == 2 * Qabs w)%Q /\
  (src_px_drift_offset drift dt df (Z.of_nat Tn) == D * inject_Z (sweep_steps Tn false))%Q /\
  (src_px_drift_offset drift dt df (Z.of_nat Tn) + src_px_drift_smear_extra drift dt df == D * inject_Z (sweep_steps Tn true))%Q /\
  (forall pdo pwo, (pwo == 2 * Qabs w)%Q ->
     src_bounding_start_index c0 pdo pwo = box_lo c0 w pdo /\ src_bounding_stop_index c0 pdo pwo = box_hi c0 w pdo).
Proof. exact k13_box. Qed.
Print Assumptions c13_source_box.
Theorem c13_source_clamp : forall start stop (Fn : nat),
  Z.to_nat (src_bounding_min_index start (Z.of_nat Fn)) = Signal.clampZ start Fn /\
  Z.to_nat (src_bounding_max_index stop (Z.of_nat Fn)) = Signal.clampZ stop Fn.
Proof. exact k13_clamp. Qed.
Print Assumptions c13_source_clamp.

Example c13_example :
  (* width 0.4 channel, start 0.49 channel above channel 10, drift 0.1 ch/step over 4 rows: pixel (3,11) is in the box *)
  let c0 := 1049#100 in let w := 2#5 in let pdo := 3#10 in
  (box_lo c0 w pdo =? 9)%Z && (box_hi c0 w pdo =? 13)%Z && (substeps (- (5#2)) =? 3)%Z && (substeps 0 =? 1)%Z = true.
Proof. vm_compute. reflexivity. Qed.
