(* C20 -- block, length and sample accounting. *)
From Coq Require Import List ZArith QArith Qround Qabs Bool.
From SV Require Import Base.PySeq Model.Backend Proofs.Backend.
From SV Require Import Kernels.Gen20 Proofs.K20.
Import ListNotations.

Theorem c20_spb_exact : forall c, (1 <= nants c)%Z -> (1 <= nchans c)%Z -> (1 <= taps c)%Z -> (1 <= bps c)%Z ->
  admitted c = true ->
  (spb c * (nants c * nchans c * bps c) = block_size c)%Z /\ (spb c mod taps c = 0)%Z /\
  (spb c = taps c * (spb c / taps c))%Z.
Proof. exact spb_exact. Qed.
Print Assumptions c20_spb_exact.

(* every requested sub-block count >= 1 (divisor or not, larger than the number of windows or not)
   yields positive sub-blocks, only the last possibly short, that add up to the block *)
Theorem c20_plan_sum : forall w nsub, (1 <= w)%Z -> (1 <= nsub)%Z ->
  zsuml (plan w nsub) = w /\
  Forall (fun k => (1 <= k <= ws_of w nsub)%Z) (plan w nsub) /\
  length (plan w nsub) = Z.to_nat (nsub_eff w nsub) /\ (1 <= nsub_eff w nsub)%Z.
Proof. exact plan_sum. Qed.
Print Assumptions c20_plan_sum.

Theorem c20_block_draws : forall c nsub start, (1 <= taps c)%Z -> (1 <= spb c / taps c)%Z -> (1 <= nsub)%Z ->
  (spb c = taps c * (spb c / taps c))%Z ->
  zsuml (requests c nsub start) = (spb c * nb c + (if start then win c else 0))%Z.
Proof. exact requests_sum. Qed.
Print Assumptions c20_block_draws.

(* a recording of n blocks draws exactly n*spb*nb samples (+ one taps*nb warm-up window when n >= 1) *)
Theorem c20_drawn : forall c, (1 <= taps c)%Z -> (1 <= spb c / taps c)%Z -> (spb c = taps c * (spb c / taps c))%Z ->
  forall n nsub start, (1 <= nsub)%Z ->
  zsuml (map zsuml (block_requests c nsub start n)) =
  (Z.of_nat n * (spb c * nb c) + (if start then (if n then 0 else win c) else 0))%Z.
Proof. exact recording_draws. Qed.
Print Assumptions c20_drawn.

Theorem c20_files : forall c n, (1 <= blocks_per_file c)%Z -> (1 <= n)%Z ->
  zsuml (map (fun i => blocks_in_file c n (Z.of_nat i)) (seq 0 (Z.to_nat (num_files c n)))) = n.
Proof. exact files_sum. Qed.
Print Assumptions c20_files.

Theorem c20_helper_block_size : forall na tpb nbits_ npols_ nch ffl intf taps_ nb_ bpf,
  (1 <= na)%Z -> (1 <= nch)%Z -> (1 <= (2 * npols_ * nbits_) / 8)%Z ->
  let c := {| nants := na; npols := npols_; nbits := nbits_; nchans := nch; taps := taps_; nb := nb_;
              block_size := get_block_size na tpb nbits_ npols_ nch ffl intf; blocks_per_file := bpf |} in
  spb c = (tpb * ffl * intf)%Z.
Proof. exact helper_block_size. Qed.
Print Assumptions c20_helper_block_size.

Theorem c20_duration : forall (obs tpb : Q), (0 < tpb)%Q ->
  let n := Qfloor (obs / tpb)%Q in
  (inject_Z n * tpb <= obs /\ obs < (inject_Z n + 1) * tpb)%Q.
Proof. exact duration_bracket. Qed.
Print Assumptions c20_duration.

(* a recording never has more blocks than requested nor than its input RAW data holds *)
Theorem c20_effective_blocks : forall requested input n, effective_blocks requested input = Some n ->
  (forall m, input = Some m -> n <= m)%Z /\ (forall k, requested = Some k -> n <= k)%Z /\
  (forall k, requested = Some k -> (forall m, input = Some m -> k <= m)%Z -> n = k) /\
  (requested = None -> input = Some n).
Proof. exact effective_blocks_spec. Qed.
Print Assumptions c20_effective_blocks.
Theorem c20_effective_blocks_error : forall requested input, effective_blocks requested input = None <-> (requested = None /\ input = None).
Proof. exact effective_blocks_none. Qed.
Print Assumptions c20_effective_blocks_error.

(* the accounting expressions of the CURRENT source (Kernels/Gen20.v, regenerated on every run) are the model's *)
Theorem c20_source_get_num_blocks : forall obs cbw tbin nants nchans bps_ spb_,
  (0 <= obs)%Q -> (0 < tbin)%Q -> (1 <= nants)%Z -> (1 <= nchans)%Z -> (1 <= bps_)%Z -> (1 <= spb_)%Z -> (Qabs cbw == / tbin)%Q ->
  src_get_num_blocks obs cbw nants nchans bps_ (spb_ * (nants * nchans * bps_)) = Qfloor (obs / (inject_Z spb_ * tbin))%Q.
Proof. exact k_get_num_blocks. Qed.
Print Assumptions c20_source_get_num_blocks.
Theorem c20_source_kernels : forall c n start spb_ tbin,
  src_bytes_per_sample (npols c) (nbits c) = bps c /\ src_samples_per_block (block_size c) (nants c) (nchans c) (bps c) = spb c /\
  src_total_obs_num_samples n (spb c) (nb c) = total_samples c n /\ src_pktstop start n (spb c) = pktstop c start n /\
  (src_record_obs_length n (src_time_per_block spb_ tbin) == inject_Z (n * spb_) * tbin)%Q.
Proof. exact k20_all. Qed.
Print Assumptions c20_source_kernels.

Example c20_example :
  let c := {| nants := 1; npols := 2; nbits := 8; nchans := 64; taps := 8; nb := 1024; block_size := 20480; blocks_per_file := 2 |}%Z in
  admitted c = true /\ spb c = 80%Z /\ plan 10 4 = [3;3;3;1]%Z /\
  block_requests c 4 true 2 = [[32768; 24576; 24576; 8192]; [24576; 24576; 24576; 8192]]%Z /\
  plan 10 32 = [1;1;1;1;1;1;1;1;1;1]%Z /\ plan 5 3 = [2;2;1]%Z.
Proof. vm_compute. repeat split. Qed.
