(* C09 -- quantisers: range, monotonicity, formula, zero variance, prefix, refresh schedule. *)
From Coq Require Import List ZArith QArith Bool.
From SV Require Import Base.Rounding Model.Quant Proofs.Quant.
Import ListNotations.
Open Scope Q_scope.

Theorem c09_range : forall b tm ts dm ds x, (1 <= b)%Z ->
  (qlo b <= quantize_real b tm ts dm ds x <= qhi b)%Z.
Proof. exact range. Qed.
Print Assumptions c09_range.

Theorem c09_monotone : forall b tm ts dm ds x y, 0 <= ts -> 0 <= ds -> x <= y ->
  (quantize_real b tm ts dm ds x <= quantize_real b tm ts dm ds y)%Z.
Proof. exact monotone. Qed.
Print Assumptions c09_monotone.

Theorem c09_formula : forall b tm ts dm ds x, ~ ds == 0 ->
  quantize_real b tm ts dm ds x = clipZ (qlo b) (qhi b) (rhe ((ts / ds) * (x - dm) + tm)).
Proof. exact formula. Qed.
Print Assumptions c09_formula.

Theorem c09_zero_var : forall b tm ts dm ds x, ds == 0 ->
  quantize_real b tm ts dm ds x = clipZ (qlo b) (qhi b) (rhe tm).
Proof. exact zero_variance. Qed.
Print Assumptions c09_zero_var.

Theorem c09_prefix : forall (A : Type) num (v : list A),
  stats_prefix num v = firstn num v /\ (length (stats_prefix num v) <= num)%nat.
Proof. exact @prefix_spec. Qed.
Print Assumptions c09_prefix.

(* call n after a (re)start made when the object had already served [ncalls q0] calls uses the
   statistics of call  ncalls q0 + (n - n mod p)  for p > 0, and of call ncalls q0 otherwise *)
Theorem c09_refresh : forall q0 p n, idx q0 = 0%Z -> period q0 = p ->
  used_at q0 n = (ncalls q0 + (if (0 <? p)%Z then Z.to_nat (Z.of_nat n - Z.of_nat n mod p)%Z else 0))%nat.
Proof. exact refresh_schedule. Qed.
Print Assumptions c09_refresh.

Theorem c09_refreshes_iff : forall q0 p n, idx q0 = 0%Z -> period q0 = p ->
  used_at q0 n = (ncalls q0 + n)%nat <-> ((0 < p)%Z /\ (Z.of_nat n mod p = 0)%Z) \/ ((p <= 0)%Z /\ n = O).
Proof. exact refreshes_iff. Qed.
Print Assumptions c09_refreshes_iff.

Theorem c09_complex : forall c,
  cstep c = ((fst (qstep (fst c)), fst (qstep (snd c))), (snd (qstep (fst c)), snd (qstep (snd c)))).
Proof. exact complex_independent. Qed.
Print Assumptions c09_complex.

(* non-vacuity *)
Example c09_example_schedule :
  qrun (fresh 3) [Quant;Quant;Quant;Quant;Quant;Reset;Quant;Quant;Quant;Quant] = [0;0;0;3;3;5;5;5;8]%nat
  /\ qrun (fresh (-1)) [Quant;Quant;Quant;Reset;Quant;Quant] = [0;0;0;3;3]%nat
  /\ qrun (fresh 0) [Quant;Quant;Quant] = [0;0;0]%nat.
Proof. vm_compute. repeat split. Qed.
Example c09_example_values :
  map (quantize_real 4 0 2 1 (1#2)) [ -10; -1; 1#2; 1; 9#8; 5#4; 3 ] = [ -8; -8; -2; 0; 0; 1; 7 ]%Z.
Proof. vm_compute. reflexivity. Qed.
