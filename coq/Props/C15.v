(* C15 -- array antennas see the shared background delayed by their configured delays. *)
From Coq Require Import List Arith ZArith.
From SV Require Import Model.AntArray Proofs.AntArray.
Import ListNotations.

(* for any sample type and sum, any delay d <= maxd, any (re)start t0 and any sequence of request
   sizes each larger than the largest delay: the concatenated output is own[k] + bg[k + maxd - d]
   for k = t0, t0+1, ... -- with nothing carried over from before the set_time *)
Theorem c15_alignment : forall (A : Type) (own bg : nat -> A) (add : A -> A -> A) (maxd d : nat),
  d <= maxd -> forall s t0 n reqs, maxd < n -> Forall (fun n => maxd < n) reqs ->
  concat (run A own bg add maxd d s (SetTime t0 :: map Get (n :: reqs)))
  = map (fun k => add (own k) (bg (k + maxd - d))) (seq t0 (list_sum (n :: reqs))).
Proof. exact alignment_run. Qed.
Print Assumptions c15_alignment.

Theorem c15_reset : forall (A : Type) (own bg : nat -> A) (add : A -> A -> A) (maxd d : nat) s t ops,
  run A own bg add maxd d s (SetTime t :: ops) = run A own bg add maxd d (reset A t) ops.
Proof. exact reset_forgets. Qed.
Print Assumptions c15_reset.

(* zero delay for every antenna (the omitted default): plain sum of the two streams *)
Corollary c15_default_zero : forall (A : Type) (own bg : nat -> A) (add : A -> A -> A) s t0 n reqs,
  0 < n -> Forall (fun n => 0 < n) reqs ->
  concat (run A own bg add 0 0 s (SetTime t0 :: map Get (n :: reqs)))
  = map (fun k => add (own k) (bg (k + 0 - 0))) (seq t0 (list_sum (n :: reqs))).
Proof. intros. apply alignment_run; auto. Qed.
Print Assumptions c15_default_zero.

Example c15_example :
  run Z (fun k => Z.of_nat k) (fun k => (1000 + Z.of_nat k)%Z) Z.add 3 1 (reset Z 0) [Get 5; Get 4; SetTime 100; Get 4]
  = [[1002;1004;1006;1008;1010]; [1012;1014;1016;1018]; [1202;1204;1206;1208]]%Z.
Proof. vm_compute. reflexivity. Qed.
