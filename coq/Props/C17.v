(* C17 -- derived frames (slice, de-drift, integrate) keep data and axis registration. *)
From Coq Require Import List Arith ZArith QArith Qabs.
From SV Require Import Base.Tab Base.Rounding Model.Derived Proofs.Derived.
Import ListNotations.
Local Open Scope Q_scope.

Theorem c17_slice : forall fr l r i j, wf fr -> (l < r <= F fr)%nat -> (i < T fr)%nat -> (j < r - l)%nat ->
  nth2 0 (data (get_slice fr l r)) i j = nth2 0 (data fr) i (l + j) /\
  fs (get_slice fr l r) j == fs fr (l + j).
Proof. exact slice_pixels. Qed.
Print Assumptions c17_slice.

Theorem c17_slice_meta : forall fr l r, (l < r)%nat ->
  let s := get_slice fr l r in
  T s = T fr /\ F s = (r - l)%nat /\ df s = df fr /\ dt s = dt fr /\ ascending s = ascending fr /\
  t_start s = t_start fr /\ source s = source fr /\
  (ascending fr = true -> fch1 s = fs fr l) /\ (ascending fr = false -> fch1 s == fs fr (r - 1)).
Proof. exact slice_meta. Qed.
Print Assumptions c17_slice_meta.

Theorem c17_dedrift_shift : forall fr d out i j, wf fr -> 0 < dt fr -> 0 < df fr -> dedrift fr d = Ok out ->
  (i < T fr)%nat -> (j < F out)%nat ->
  let mo := max_offset fr d in let off := offset fr d i in
  (F out = (F fr - mo)%nat) /\ ((off <= mo)%nat) /\ ((mo < F fr)%nat) /\
  (nth2 0 (data out) i j = (if Qle_bool 0 d then nth2 0 (data fr) i (off + j)%nat else nth2 0 (data fr) i (mo - off + j)%nat)).
Proof. exact dedrift_shift. Qed.
Print Assumptions c17_dedrift_shift.

Theorem c17_dedrift_row0 : forall fr d out j, wf fr -> 0 < dt fr -> 0 < df fr -> dedrift fr d = Ok out ->
  (0 < T fr)%nat -> (j < F out)%nat ->
  let src := if Qle_bool 0 d then j else (max_offset fr d + j)%nat in
  nth2 0 (data out) 0 j = nth2 0 (data fr) 0 src /\ fs out j == fs fr src.
Proof. exact dedrift_row0. Qed.
Print Assumptions c17_dedrift_row0.

Theorem c17_dedrift_reject : forall fr d, dedrift fr d = Err <-> (F fr <= max_offset fr d)%nat.
Proof. exact dedrift_reject. Qed.
Print Assumptions c17_dedrift_reject.

Theorem c17_dedrift_straightens : forall fr d i, 0 <= Qabs d * nq i * dt fr / df fr ->
  Qabs ((Qabs d * nq i * dt fr / df fr) - nq (offset fr d i)) <= 1#2.
Proof. exact dedrift_straightens. Qed.
Print Assumptions c17_dedrift_straightens.

Theorem c17_meta_inherited : forall fr d out, dedrift fr d = Ok out ->
  T out = T fr /\ df out = df fr /\ dt out = dt fr /\ ascending out = ascending fr /\ t_start out = t_start fr /\ source out = source fr.
Proof. exact dedrift_meta. Qed.
Print Assumptions c17_meta_inherited.

Theorem c17_integrate : forall fr m,
  (forall i, wf fr -> (i < T fr)%nat -> nth i (timeseries fr m) 0 = (let s := qsum (nth i (data fr) []) in if m then s / nq (F fr) else s)) /\
  (forall j, (j < F fr)%nat -> nth j (spectrum fr m) 0 = (let s := qsum (column (data fr) j) in if m then s / nq (T fr) else s)).
Proof. intros fr m. exact (conj (fun i => timeseries_value fr m i) (fun j => spectrum_value fr m j)). Qed.
Print Assumptions c17_integrate.

Example c17_example :
  let fr := {| T := 3; F := 6; df := 2; dt := 1; fmin := 100; ascending := false; t_start := 7; source := 1;
               data := [[1;2;3;4;5;6];[7;8;9;10;11;12];[13;14;15;16;17;18]] |} in
  match dedrift fr 2, dedrift fr (-2) with
  | Ok a, Ok b => data a = [[1;2;3];[8;9;10];[15;16;17]] /\ data b = [[4;5;6];[9;10;11];[14;15;16]] /\
                  Qeq_bool (fmin a) 100 && Qeq_bool (fmin b) 106 = true
  | _, _ => False
  end.
Proof. vm_compute. repeat split. Qed.
