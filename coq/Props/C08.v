(* C08 -- polyphase filterbank = FIR + DFT definition, invariant to chunking. *)
From Coq Require Import List Arith ZArith Lia.
From SV Require Import Model.PFB Proofs.PFB.
Import ListNotations.

(* feeding a stream in consecutive chunks, each a positive multiple of taps*nb samples, returns
   exactly the rows of the one-shot call -- for ANY per-window function (so also for doubles) *)
Theorem c08_chunking : forall (A Row : Type) (fir : list A -> Row) (taps nb : nat),
  0 < taps -> 0 < nb -> forall c cs,
  admissible A taps nb c -> Forall (admissible A taps nb) cs ->
  run A Row fir taps nb None (c :: cs) = rows A Row fir taps nb (concat (c :: cs)).
Proof. exact chunking_from_start. Qed.
Print Assumptions c08_chunking.

Theorem c08_count : forall (A Row : Type) (fir : list A -> Row) (taps nb : nat),
  0 < taps -> 0 < nb -> forall c cs,
  admissible A taps nb c -> Forall (admissible A taps nb) cs ->
  length (run A Row fir taps nb None (c :: cs)) = (length (concat (c :: cs)) / win taps nb - 1) * taps.
Proof. exact chunk_count. Qed.
Print Assumptions c08_count.

(* several filterbank objects threaded through interleaved calls (cache on or off per call):
   what object o returns is what it returns when used alone *)
Theorem c08_objects_independent : forall (A Row : Type) (fir : list A -> Row) (taps nb o : nat) calls c1 c2,
  c1 o = c2 o ->
  sel A o calls (run_multi A Row fir taps nb c1 calls) = run_multi A Row fir taps nb c2 (proj A o calls).
Proof. exact objects_independent. Qed.
Print Assumptions c08_objects_independent.

(* row t, branch b = sum over taps of window-weighted samples starting at sample t*nb *)
Theorem c08_definition : forall taps nb h x t b, (t < nrows taps nb (length x))%nat -> (b < nb)%nat ->
  nth b (nth t (rows_z taps nb h x) []) 0%Z =
  zsum (map (fun tau => (nth ((t + tau) * nb + b) x 0 * nth (tau * nb + b) h 0)%Z) (seq 0 taps)).
Proof. exact frontend_definition. Qed.
Print Assumptions c08_definition.

Theorem c08_linear : forall taps nb h w1 w2 w a c,
  (forall i, nth i w 0%Z = (a * nth i w1 0 + c * nth i w2 0)%Z) ->
  forall b, (b < nb)%nat ->
  nth b (fir_z taps nb h w) 0%Z = (a * nth b (fir_z taps nb h w1) 0 + c * nth b (fir_z taps nb h w2) 0)%Z.
Proof. exact fir_z_linear. Qed.
Print Assumptions c08_linear.

Example c08_example :
  let h := [1;2;3;4;5;6]%Z in
  let x := [1;0;0;0;1;0;0;0;1;1;1;1;2;2;2;2;0;1;0;1;5;5;5;5]%Z in
  run_z 2 3 h [firstn 12 x; skipn 12 x] = rows_z 2 3 h x /\ length (rows_z 2 3 h x) = 6.
Proof. vm_compute. split; reflexivity. Qed.
