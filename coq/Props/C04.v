(* C04 -- recorded files are well-formed GUPPI RAW and all readers agree on framing. *)
From Coq Require Import List Arith ZArith Bool String Ascii.
From SV Require Import Model.Header Proofs.Header Model.Backend Proofs.Backend.
From SV Require Import Kernels.Gen04 Proofs.K04.
Import ListNotations.
Local Open Scope string_scope.

Theorem c04_card_len : forall key v, String.length key <= 8 -> fits v -> String.length (format_line key v) = 80.
Proof. exact card_len. Qed.
Print Assumptions c04_card_len.
(* no card the writer emits can be mistaken for the terminator, whatever its keyword (ENDTIME, END_MJD, ... included): byte 8 of a
   card is '=', byte 8 of the END card is a blank.  So the hypothesis "no card equals END" of c04_emit_parse holds of every header
   the writer produces, and a reader has to compare the whole card (or at least "END" followed by a blank), not a prefix. *)
Theorem c04_card_is_not_end : forall key v, String.length key <= 8 ->
  format_line key v <> end_card /\ String.get 8 (format_line key v) = Some "="%char /\ String.get 8 end_card = Some " "%char.
Proof. intros key v Hk. exact (conj (card_not_end key v Hk) (conj (card_byte8 key v Hk) eq_refl)). Qed.
Print Assumptions c04_card_is_not_end.

(* zero padding up to the next multiple of 512 iff DIRECTIO, none when already aligned *)
Theorem c04_padding : forall n,
  (80 * n + pad_len n true) mod 512 = 0 /\ pad_len n true < 512 /\ pad_len n false = 0 /\
  ((80 * n) mod 512 = 0 -> pad_len n true = 0).
Proof. intros n. exact (conj (pad_aligned n) (conj (pad_lt n true) (conj (pad_none n) (pad_zero_when_aligned n)))). Qed.
Print Assumptions c04_padding.

(* an independent reader (80-byte cards to END, header-relative padding, BLOCSIZE data bytes) recovers
   exactly the blocks written -- for every number of cards, i.e. every header length modulo 512 *)
Theorem c04_emit_parse : forall (B : Type) (beq : B -> B -> bool),
  (forall a b : B, reflect (a = b) (beq a b)) ->
  forall (zero : B) (END : list B), List.length END = 80 ->
  forall (directio_of : list (list B) -> bool) (blocsize_of : list (list B) -> nat) (bs : list (block B)) (fuel : nat),
  Forall (wf_block B END blocsize_of) bs -> List.length bs < fuel ->
  parse_file B beq END directio_of blocsize_of fuel (emit_file B zero END directio_of bs) = Some bs.
Proof. exact parse_emit_file. Qed.
Print Assumptions c04_emit_parse.

Theorem c04_owned_keys : forall c p d,
  let f := populate c p d in
  lookup f "NBITS" = Some (h_nbits c) /\ lookup f "CHAN_BW" = Some (h_chan_bw c) /\
  lookup f "NPOL" = Some (h_npol c) /\ lookup f "BLOCSIZE" = Some (h_blocsize c) /\
  lookup f "SCANLEN" = Some (h_scanlen c) /\ lookup f "TBIN" = Some (h_tbin c) /\
  lookup f "OBSNCHAN" = Some (h_obsnchan c) /\ lookup f "OBSBW" = Some (h_obsbw c) /\
  lookup f "OBSFREQ" = Some (h_obsfreq c) /\
  (h_is_array c = true -> lookup f "NANTS" = Some (h_nants c)) /\
  (h_is_array c = false -> lookup f "NANTS" = match lookup d "NANTS" with Some _ => Some (h_nants c) | None => None end).
Proof. exact owned_keys. Qed.
Print Assumptions c04_owned_keys.

Theorem c04_user_cards_preserved : forall c p d k, ~ In k reserved -> lookup (populate c p d) k = lookup d k.
Proof. exact user_cards_preserved. Qed.
Print Assumptions c04_user_cards_preserved.

Theorem c04_template_keeps_user : forall tpl d k w, lookup d k = Some w -> lookup (add_template tpl d) k = Some w.
Proof. exact template_keeps_user. Qed.
Print Assumptions c04_template_keeps_user.

(* the library's block counters return the number of blocks written, file by file and in total *)
Theorem c04_readers_agree : forall nfull bpf lastn ncards dio bs, 1 <= bpf -> 1 <= lastn -> 1 <= ncards ->
  let step := header_size ncards dio + bs in
  total_blocks (repeat (bpf * step) nfull ++ [lastn * step])%list ncards dio bs = bpf * nfull + lastn.
Proof. exact total_blocks_exact. Qed.
Print Assumptions c04_readers_agree.

(* blocks are distributed blocks-per-file at a time (shared with C20) *)
Theorem c04_files : forall c n, (1 <= blocks_per_file c)%Z -> (1 <= n)%Z ->
  zsuml (map (fun i => Backend.blocks_in_file c n (Z.of_nat i)) (seq 0 (Z.to_nat (Backend.num_files c n)))) = n.
Proof. exact files_sum. Qed.
Print Assumptions c04_files.

(* the padding expression of the CURRENT source (Kernels/Gen04.v, regenerated on every run) is the model's *)
Theorem c04_source_padding : forall n, Z.of_nat (pad_len n true) = src_header_padding (Z.of_nat n).
Proof. exact k_header_padding. Qed.
Print Assumptions c04_source_padding.

Example c04_example :
  format_line "NBITS" (Num "8") = "NBITS   =                    8                                                  " /\
  format_line "BACKEND" (Enc "'GUPPI   '") = "BACKEND = 'GUPPI   '                                                            " /\
  format_line "SRC_NAME" (Str "X") = "SRC_NAME= 'X       '                                                            " /\
  pad_len 83 true = 16 /\ pad_len 32 true = 0 /\ pad_len_unrepaired 32 true = 512 /\ pad_len 83 false = 0.
Proof. vm_compute. repeat split. Qed.
