(* C16 -- cadence injection is time-continuous and leaves frame time axes intact. *)
From Coq Require Import List Arith ZArith QArith Bool PrimFloat.
From SV Require Import Model.CadenceInject Proofs.CadenceInject.
Import ListNotations.

(* afterwards -- and also when the injection raises on the k-th frame, for every k -- every frame's time
   axis is the very same object as before; no arithmetic law of the carrier is used (holds for doubles) *)
Theorem c16_ts_restored : forall (A : Type) (fails : nat -> bool) fs k, fst (inject_all A fails k fs) = fs.
Proof. exact ts_restored. Qed.
Print Assumptions c16_ts_restored.

Theorem c16_raises_at_first : forall (A : Type) (fails : nat -> bool) fs k,
  match snd (inject_all A fails k fs) with
  | Done => forall i, (i < length fs)%nat -> fails (k + i)%nat = false
  | Raised j => (k <= j < k + length fs)%nat /\ fails j = true /\ forall i, (k <= i < j)%nat -> fails i = false
  end.
Proof. exact raises_at_first. Qed.
Print Assumptions c16_raises_at_first.

(* the add-then-subtract loop (finding D5) cannot restore doubles, and leaves the shift in place on a raise *)
Theorem c16_unrepaired_refuted : exists (x o : float), PrimFloat.eqb (PrimFloat.sub (PrimFloat.add x o) o) x = false.
Proof. exact unrepaired_drifts. Qed.
Print Assumptions c16_unrepaired_refuted.

Theorem c16_offset : forall t0 f i, (cadence_time t0 f i == nq i * dt f + (q_start f - t0))%Q.
Proof. exact offset_times. Qed.
Print Assumptions c16_offset.

Theorem c16_seamless : forall t0 f g gap, (dt g == dt f)%Q -> (q_start g == q_stop f + gap)%Q -> (0 < T f)%nat ->
  (cadence_time t0 g 0 == cadence_time t0 f (T f - 1) + dt f + gap)%Q.
Proof. exact seamless. Qed.
Print Assumptions c16_seamless.

Theorem c16_overwrite : forall t_slew fs, Forall (fun s => (s == t_slew)%Q) (slew_times (overwrite_times t_slew fs)).
Proof. exact overwrite_slew. Qed.
Print Assumptions c16_overwrite.

Theorem c16_consolidate : forall fs, length (consolidated_ts fs) = fold_right (fun f n => (T f + n)%nat) 0%nat fs.
Proof. exact consolidate_length. Qed.
Print Assumptions c16_consolidate.

Example c16_example :
  let fs := [ {| T := 2; dt := 5; q_start := 100 |}; {| T := 3; dt := 5; q_start := 7 |}; {| T := 1; dt := 5; q_start := 0 |} ] in
  map Qred (slew_times (overwrite_times 4 fs)) = [4; 4]%Q /\
  map Qred (consolidated_ts (overwrite_times 4 fs)) = [100; 105; 114; 119; 124; 133]%Q /\
  snd (inject_all nat (fun k => Nat.eqb k 1) 0 [ {| ts := [1;2]%nat; t_start := 0%nat; tag := 0 |}; {| ts := [3]%nat; t_start := 9%nat; tag := 1 |} ]) = Raised 1.
Proof. vm_compute. repeat split. Qed.
