(* C14 -- injection onto existing RAW: exact decode, same framing, stationary gain. *)
From Coq Require Import List ZArith QArith Bool.
From SV Require Import Base.PySeq Model.Backend Model.RawLayout Model.RawInject Proofs.RawLayout Proofs.RawInject.
Import ListNotations.

(* decode: the reader takes sample (tau, pol) from the cell the GUPPI layout assigns to it, and the
   4-bit unpacking inverts the packing (shared with C02) *)
Theorem c14_read_col : forall q npols tau pol, read_col q npols tau pol = spec_col q npols tau pol 0.
Proof. exact read_col_layout. Qed.
Print Assumptions c14_read_col.

Theorem c14_decode_nibbles : forall R I, (-8 <= R <= 7)%Z -> (-8 <= I <= 7)%Z ->
  (-128 <= encode4 R I <= 127)%Z /\ decode4 (encode4 R I) = (R, I) /\ decode4_std (encode4 R I) = (R, I).
Proof. exact nibble_roundtrip. Qed.
Print Assumptions c14_decode_nibbles.

(* each synthetic spectrum is added to the decoded input sample of the same spectrum and polarisation,
   in every sub-block of every plan, for both bit depths *)
Theorem c14_block_is_sum : forall q npols sT s p k, (q = 1 \/ q = 2)%Z -> (1 <= npols)%Z -> (0 <= p < npols)%Z ->
  lookup_index q (w_col q npols sT s p k 0) = in_index npols (w_tau sT s k) p.
Proof. exact lookup_same_sample. Qed.
Print Assumptions c14_block_is_sum.

Theorem c14_framing_blocks : forall req n, (0 <= n)%Z ->
  (out_blocks req n <= n)%Z /\ (forall r, req = Some r -> (out_blocks req n <= r)%Z).
Proof. exact out_blocks_le. Qed.
Print Assumptions c14_framing_blocks.

Theorem c14_gain_stationary : forall stds ts dig n, Forall (fun g => g = gain_used stds ts dig) (gains stds ts dig n).
Proof. exact gain_stationary. Qed.
Print Assumptions c14_gain_stationary.

(* the in-place update of the filterbank's stored deviation (finding D13) is not stationary *)
Theorem c14_gain_unrepaired_refuted : exists stds ts,
  ~ Forall (fun g => g == gain_used stds ts true) (gains_unrepaired stds ts true 2).
Proof. exact gain_unrepaired_refuted. Qed.
Print Assumptions c14_gain_unrepaired_refuted.

Example c14_example :
  lookup_index 2 (w_col 2 2 4 1 1 3 0) = in_index 2 7 1 /\ lookup_index 1 (w_col 1 2 4 1 1 3 0) = in_index 2 7 1 /\
  out_blocks (Some 5%Z) 2 = 2%Z /\ out_blocks None 3 = 3%Z /\ in_header_size 32 true = 2560%Z /\ in_header_size 33 true = 3072%Z /\
  gains_unrepaired 1 2 true 3 = [2; 2*2; 2*2*2]%Q.
Proof. vm_compute. repeat split. Qed.
