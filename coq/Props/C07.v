(* C07 -- voltage frequency registration: the written header locates every tone. *)
From Coq Require Import ZArith QArith.
From SV Require Import Model.FreqReg Proofs.FreqReg Model.Stream Proofs.Stream.
From SV Require Import Kernels.Gen10 Proofs.K10 Model.Stream.
From SV Require Import Kernels.Gen07 Proofs.K07.
Local Open Scope Q_scope.

Theorem c07_header_locates_channel : forall fch1 cbw start_chan nchans nants sr nb j,
  reader_chan_centre (header fch1 cbw start_chan nchans nants sr nb) j
  == coarse_centre fch1 cbw start_chan j * mhz.
Proof. exact header_locates_channel. Qed.
Print Assumptions c07_header_locates_channel.

Theorem c07_params_roundtrip : forall fch1 cbw start_chan nchans nants sr nb,
  raw_params_fch1 (header fch1 cbw start_chan nchans nants sr nb) start_chan nchans == fch1 /\
  raw_params_chan_bw (header fch1 cbw start_chan nchans nants sr nb) == cbw.
Proof. exact params_roundtrip. Qed.
Print Assumptions c07_params_roundtrip.

Theorem c07_orientation : forall sr nb asc, 0 < sr -> (0 < nb)%Z ->
  (0 < chan_bw sr nb asc * mhz <-> asc = true).
Proof. exact orientation_sign. Qed.
Print Assumptions c07_orientation.

Theorem c07_fine_bin : forall fch1 cbw start_chan L c m, (0 < L)%Z -> (0 <= m < L)%Z ->
  fine_label fch1 cbw start_chan L (c * L + shift L m)
  == coarse_centre fch1 cbw start_chan c + zq (bin_offset L m) * (cbw / zq L).
Proof. exact fine_bin_label. Qed.
Print Assumptions c07_fine_bin.

Theorem c07_fine_label_even : forall fch1 cbw start_chan L g, (0 < L)%Z -> (L mod 2 = 0)%Z ->
  fine_label fch1 cbw start_chan L g == (fch1 + zq start_chan * cbw - cbw / 2) + zq g * (cbw / zq L).
Proof. exact fine_label_even. Qed.
Print Assumptions c07_fine_label_even.

Theorem c07_fine_bins_uniform : forall fch1 cbw start_chan L g, ~ zq L == 0 ->
  fine_label fch1 cbw start_chan L (g + 1) - fine_label fch1 cbw start_chan L g == cbw / zq L.
Proof. exact fine_bins_uniform. Qed.
Print Assumptions c07_fine_bins_uniform.

(* a chirp's instantaneous frequency (central phase difference) is f_start - fch1 + drift*t, negated
   for descending bands -- shared with C10 *)
Theorem c07_chirp : forall f_start fch1 drift asc t h, ~ h == 0 ->
  (chirp_cycles f_start fch1 drift asc (t + h) - chirp_cycles f_start fch1 drift asc (t - h)) / (2 * h)
  == (if asc then 1 else -1) * ((f_start - fch1) + drift * t).
Proof. exact chirp_frequency. Qed.
Print Assumptions c07_chirp.

(* the centre-frequency expressions of the CURRENT source (Kernels/Gen07.v, regenerated on every run) are the model's *)
Theorem c07_source_header : forall fch1 cbw start_chan nchans nants sr nb,
  let h := header fch1 cbw start_chan nchans nants sr nb in
  (OBSFREQ h == src_hdr_obsfreq fch1 cbw start_chan nchans)%Q /\ (CHAN_BW h == src_hdr_chan_bw cbw)%Q /\
  (OBSBW h == src_hdr_obsbw cbw nchans)%Q /\ OBSNCHAN h = src_hdr_obsnchan nchans nants.
Proof. exact k07_header. Qed.
Print Assumptions c07_source_header.
Theorem c07_source_kernels : forall fch1 cbw start_chan nchans nants sr nb h,
  (OBSFREQ (header fch1 cbw start_chan nchans nants sr nb) == src_center_freq fch1 cbw start_chan nchans * mhz)%Q /\
  (raw_params_fch1 h start_chan nchans == src_raw_params_fch1 (OBSFREQ h / mhz) (CHAN_BW h / mhz) start_chan nchans)%Q.
Proof. exact k07_all. Qed.
Print Assumptions c07_source_kernels.

(* the chirp written by the CURRENT source (Kernels/Gen10.v): its cosine argument is 2*pi times the phase in cycles whose central difference is the
   instantaneous frequency of c07_chirp *)
Theorem c07_source_chirp : forall f_start fch1 drift t phase pi asc,
  (src_chirp_arg f_start fch1 drift t phase pi asc == 2 * pi * chirp_cycles f_start fch1 drift asc t + phase)%Q.
Proof. exact k10_chirp. Qed.
Print Assumptions c07_source_chirp.

Example c07_example :
  let h := header (6000000000#1) (- (1000000#1)) 5 4 1 (64000000#1) 64 in
  Qeq_bool (reader_chan_centre h 0) (5995#1) && Qeq_bool (reader_chan_centre h 3) (5992#1) &&
  Qeq_bool (raw_params_fch1 h 5 4) (6000000000#1) && Qeq_bool (fine_label 0 8 0 4 6) (8) &&
  (let '(r, c) := reducer_shape 64 4 16 2 in (r =? 2)%Z && (c =? 64)%Z) = true.
Proof. vm_compute. reflexivity. Qed.
