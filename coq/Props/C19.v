(* C19 -- splitting utilities tile the band and the array exactly. *)
From Coq Require Import List Arith ZArith QArith Bool PrimFloat.
From SV Require Import Base.Rounding Base.F64 Model.Split Proofs.Split.
From SV Require Import Kernels.Gen19 Proofs.K19.
Import ListNotations.
Local Open Scope nat_scope.

(* exactly floor((nchans - fchans)/s) + 1 pieces; every piece lies inside the file; one more would not *)
Theorem c19_piece_count : forall nchans fchans s, 1 <= s -> fchans <= nchans ->
  let n := n_pieces nchans fchans s in
  n = (nchans - fchans) / s + 1 /\
  (forall i, i < n -> snd (piece fchans s i) <= nchans) /\
  nchans < snd (piece fchans s n).
Proof. exact piece_count. Qed.
Print Assumptions c19_piece_count.

(* piece i is handed frequencies that the reader rounds to channels [i*s, i*s + fchans), for every header
   frequency and resolution of either sign (orientation) *)
Theorem c19_piece_channels : forall fch1 foff fchans s i, ~ (foff == 0)%Q ->
  let '(fa, fb) := piece_freqs fch1 foff fchans s i in
  rhe ((fa - fch1) / foff)%Q = Z.of_nat (fst (piece fchans s i)) /\ rhe ((fb - fch1) / foff)%Q = Z.of_nat (snd (piece fchans s i)).
Proof. exact piece_selects. Qed.
Print Assumptions c19_piece_channels.

(* the two nested while loops of split_array, with shifts equal to the tile sizes, yield exactly the grid of
   tiles in row-major order (and terminate: the fuel is never exhausted) *)
Theorem c19_tiles : forall H W th tw, 1 <= th -> 1 <= tw -> 1 <= H -> 1 <= W ->
  split_rects H W th tw th tw = tiles H W th tw.
Proof. exact split_rects_tiles. Qed.
Print Assumptions c19_tiles.

(* every element lies in exactly one tile: the tile (y / th, x / tw), which exists *)
Theorem c19_tiles_partition : forall H W th tw y x r c, 1 <= th -> 1 <= tw -> y < H -> x < W ->
  inside y x (tile H W th tw r c) = true <-> (r = y / th /\ c = x / tw).
Proof. exact tile_partition. Qed.
Print Assumptions c19_tiles_partition.

Theorem c19_tile_exists : forall H W th tw y x, 1 <= th -> 1 <= tw -> y < H -> x < W ->
  y / th < cdivn H th /\ x / tw < cdivn W tw.
Proof. exact tile_exists. Qed.
Print Assumptions c19_tile_exists.

Theorem c19_trim : forall H W th tw r c, 1 <= th -> 1 <= tw -> r * th < H -> c * tw < W ->
  (Nat.eqb (height (tile H W th tw r c)) th = true <-> (r + 1) * th <= H) /\
  (Nat.eqb (width (tile H W th tw r c)) tw = true <-> (c + 1) * tw <= W).
Proof. exact trim_full. Qed.
Print Assumptions c19_trim.

(* the piece-count and window-edge expressions of the CURRENT source (Kernels/Gen19.v, regenerated on every run) are the model's *)
Theorem c19_source_pieces : forall nchans fchans s fch1 foff i, (fchans <= nchans)%nat -> (1 <= s)%nat ->
  src_num_splits (Z.of_nat nchans) (Z.of_nat fchans) (Z.of_nat s) = Z.of_nat (n_pieces nchans fchans s) /\
  (fst (piece_freqs fch1 foff fchans s i) == src_piece_f_start fch1 foff (Z.of_nat i) (Z.of_nat s))%Q /\
  (snd (piece_freqs fch1 foff fchans s i) == src_piece_f_stop (src_piece_f_start fch1 foff (Z.of_nat i) (Z.of_nat s)) foff (Z.of_nat fchans))%Q.
Proof. exact k19_all. Qed.
Print Assumptions c19_source_pieces.

Example c19_example :
  n_pieces 2560 256 256 = 10 /\ n_pieces 1000 256 100 = 8 /\ pieces 10 4 3 = [(0,4);(3,7);(6,10)] /\
  split_rects 5 7 2 3 2 3 = [(0,2,0,3);(0,2,3,6);(0,2,6,7);(2,4,0,3);(2,4,3,6);(2,4,6,7);(4,5,0,3);(4,5,3,6);(4,5,6,7)] /\
  trim 2 3 true true (split_rects 5 7 2 3 2 3) = [(0,2,0,3);(0,2,3,6);(2,4,0,3);(2,4,3,6)].
Proof. vm_compute. repeat split. Qed.
