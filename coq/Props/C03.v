(* C03 -- save / load through .fil / .h5 preserves data and axis registration.
   blimpy / h5py are modelled environment (see DESIGN.md); these theorems cover setigen's side of the contract. *)
From Coq Require Import List Arith ZArith QArith Bool PrimFloat.
From SV Require Import Base.Tab Base.F64 Model.FrameIO Proofs.FrameIO.
Import ListNotations.
Local Open Scope Q_scope.

Theorem c03_header_roundtrip : forall g, 0 < df g ->
  let g' := of_header (to_header g) in
  F g' = F g /\ T g' = T g /\ df g' == df g /\ dt g' = dt g /\ fch1 g' == fch1 g /\ ascending g' = ascending g /\
  t_start g' = t_start g /\ source g' = source g.
Proof. exact header_roundtrip. Qed.
Print Assumptions c03_header_roundtrip.

Theorem c03_flip_involutive : forall asc row, of_file_row asc (to_file_row asc row) = row.
Proof. exact flip_involutive. Qed.
Print Assumptions c03_flip_involutive.

Theorem c03_blimpy_sees_same_sky_freq : forall g j, (j < F g)%nat ->
  file_freq (to_header g) j == frame_freq g (if ascending g then j else (F g - 1 - j)%nat).
Proof. exact same_sky_freq. Qed.
Print Assumptions c03_blimpy_sees_same_sky_freq.

(* whatever happened to the frame or its parent before (get_waterfall / copy / slice / dedrift / save), the shape
   written is the frame's current shape *)
Theorem c03_roundtrip_history : forall ops s,
  let s' := fst (run update_wf s ops) in snd (step update_wf s' SaveOp) = Some (shape s').
Proof. exact history_independent. Qed.
Print Assumptions c03_roundtrip_history.

(* the refresh-only-when-absent rule (finding D16) writes a stale shape after get_waterfall ; slice *)
Theorem c03_stale_shape_refuted : exists s ops,
  let s' := fst (run update_wf_unrepaired s ops) in snd (step update_wf_unrepaired s' SaveOp) <> Some (shape s').
Proof. exact stale_shape_refuted. Qed.
Print Assumptions c03_stale_shape_refuted.

Theorem c03_helpers : forall h, length (helper_fs h) = h_nchans h /\ length (helper_ts h) = h_nints h.
Proof. exact helper_axes. Qed.
Print Assumptions c03_helpers.

Theorem c03_helper_fs_axis : forall h j, (j < h_nchans h)%nat -> nth j (helper_fs h) 0 / mhz == file_freq h j.
Proof. exact helper_fs_is_file_axis. Qed.
Print Assumptions c03_helper_fs_axis.

(* np.arange(start, start + n*step, step) does not have n entries for ordinary header values (finding D15) *)
Theorem c03_arange_refuted : exists start step n, arange_len_f start step n <> n.
Proof. exact arange_len_refuted. Qed.
Print Assumptions c03_arange_refuted.
