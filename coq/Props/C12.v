(* C12 -- determinism from seeds, history independence, copy isolation.
   A Gallina function is deterministic by construction, so "same seed, same bits" is not a theorem
   about numpy; what is proved is independence from history and from aliasing. *)
From Coq Require Import List ZArith Bool.
From SV Require Import Model.History Proofs.History.
Import ListNotations.

Theorem c12_record_history_independent : forall history h obj c,
  fst (record (snd (run record h history)) obj c) = fst (record h obj c).
Proof. exact record_history_independent. Qed.
Print Assumptions c12_record_history_independent.

Theorem c12_caller_dict : forall h obj c,
  let '(o1, h1) := record h obj c in fst (record h1 obj c) = o1.
Proof. exact caller_dict_reusable. Qed.
Print Assumptions c12_caller_dict.

(* the in-place handling of the header dictionary (finding D12) is history dependent *)
Theorem c12_record_unrepaired_refuted : exists h obj c,
  let '(o1, h1) := record_unrepaired h obj c in fst (record_unrepaired h1 obj c) <> o1.
Proof. exact record_unrepaired_refuted. Qed.
Print Assumptions c12_record_unrepaired_refuted.

Theorem c12_copy_equal : forall (V : Type) (d : V) m obj k, (k < length obj)%nat ->
  let '(m', obj') := deep_copy V m d obj in read V m' d (nth k obj' 0%nat) = read V m d (nth k obj 0%nat).
Proof. exact copy_equal. Qed.
Print Assumptions c12_copy_equal.

Theorem c12_copy_fresh : forall (V : Type) (d : V) m obj,
  let '(m', obj') := deep_copy V m d obj in
  Forall (fun l => (length m <= l)%nat) obj' /\ (forall l, (l < length m)%nat -> read V m' d l = read V m d l).
Proof. exact copy_fresh. Qed.
Print Assumptions c12_copy_fresh.

Theorem c12_copy_isolated : forall (V : Type) (d : V) (m' : cells V) n l l' v, (l < n)%nat -> (n <= l')%nat ->
  read V (write V m' l' v) d l = read V m' d l /\ read V (write V m' l v) d l' = read V m' d l'.
Proof. exact copy_isolated. Qed.
Print Assumptions c12_copy_isolated.

Example c12_example :
  let d0 := {| user_cards := []; extra_cards := []; pktidx := None; pktstart := None |} in
  let c := {| nblocks := 2; spb := 8; cfg_cards := [1%nat] |} in
  map o_pktidx0 (fst (run record [d0] [(0%nat, c); (0%nat, c)])) = [0; 0]%Z /\
  map o_pktidx0 (fst (run record_unrepaired [d0] [(0%nat, c); (0%nat, c)])) = [0; 16]%Z.
Proof. vm_compute. split; reflexivity. Qed.
