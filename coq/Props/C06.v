(* C06 -- injection is additive, confined to its bounding range, preserves frame state; injections superpose. *)
From Coq Require Import List Arith ZArith QArith.
From SV Require Import Base.Tab Model.Signal Proofs.Signal.
Import ListNotations.
Local Open Scope Q_scope.

(* the effective column slice is always valid: inside, clipped by, or wholly outside the band *)
Theorem c06_range_clip : forall fr br, let '(lo, hi) := bounds fr br in (lo <= hi)%nat /\ (hi <= F fr)%nat.
Proof. exact bounds_range. Qed.
Print Assumptions c06_range_clip.

(* the frame's data changes by exactly the returned signal array *)
Theorem c06_delta : forall fr path tp fp bp br o fr' ret, wf fr -> add_signal fr path tp fp bp br o = Ok (fr', ret) ->
  forall i j, (i < T fr)%nat -> (j < F fr)%nat ->
  nth2 0 (data fr') i j == nth2 0 (data fr) i j + nth2 0 ret i j.
Proof. exact additive. Qed.
Print Assumptions c06_delta.

(* pixels outside the bounding range are the very same values (Leibniz equality: holds bit for bit for
   any carrier), and the returned array is zero there *)
Theorem c06_untouched : forall fr path tp fp bp br o fr' ret, wf fr -> add_signal fr path tp fp bp br o = Ok (fr', ret) ->
  forall i j, (i < T fr)%nat -> (j < F fr)%nat -> ~ (fst (bounds fr br) <= j < snd (bounds fr br))%nat ->
  nth2 0 (data fr') i j = nth2 0 (data fr) i j /\ nth2 0 ret i j = 0.
Proof. exact untouched. Qed.
Print Assumptions c06_untouched.

(* axes, shape and resolutions are unchanged *)
Theorem c06_frame_state : forall fr path tp fp bp br o fr' ret, wf fr -> add_signal fr path tp fp bp br o = Ok (fr', ret) ->
  T fr' = T fr /\ F fr' = F fr /\ df fr' = df fr /\ dt fr' = dt fr /\ fmin fr' = fmin fr /\ wf fr'.
Proof. exact state_preserved. Qed.
Print Assumptions c06_frame_state.

(* what an injection returns does not depend on the frame's prior content ... *)
Theorem c06_ret_independent : forall fr d2 path tp fp bp br o,
  let fr2 := {| T := T fr; F := F fr; df := df fr; dt := dt fr; fmin := fmin fr; data := d2 |} in
  match add_signal fr path tp fp bp br o, add_signal fr2 path tp fp bp br o with
  | Ok (_, r1), Ok (_, r2) => r1 = r2
  | Err e1, Err e2 => e1 = e2
  | _, _ => False
  end.
Proof. exact ret_independent_of_data. Qed.
Print Assumptions c06_ret_independent.

(* ... so successive injections add the separately computed signals, in any order *)
Theorem c06_superpose : forall d r1 r2 : Q, (d + r1) + r2 == (d + r2) + r1 /\ (d + r1) + r2 == d + (r1 + r2).
Proof. exact superpose. Qed.
Print Assumptions c06_superpose.
