(* C05 -- frame axes and frequency/index conversion are exact and orientation-independent
   (theorems over exact rationals; the binary64 kernels of Model/Grid.v are the bit-exact twins). *)
From Coq Require Import ZArith QArith Qabs.
From SV Require Import Base.Rounding Model.Grid Proofs.Grid.
Local Open Scope Q_scope.

Theorem c05_fs_uniform : forall g j, (F g <> 0)%Z -> fs_q g j == fmin_q g + zq j * df g.
Proof. exact fs_uniform. Qed.
Print Assumptions c05_fs_uniform.

Theorem c05_fs_increasing : forall g j, (F g <> 0)%Z -> 0 < df g -> fs_q g j < fs_q g (j + 1).
Proof. exact fs_increasing. Qed.
Print Assumptions c05_fs_increasing.

Theorem c05_fch1_role : forall g, (F g <> 0)%Z ->
  (ascending g = true -> fmin_q g == fch1 g /\ fs_q g 0 == fch1 g) /\
  (ascending g = false -> fmax_q g == fch1 g /\ fs_q g (F g - 1) == fch1 g /\ fmin_q g == fch1 g - zq (F g - 1) * df g).
Proof. exact fch1_role. Qed.
Print Assumptions c05_fch1_role.

Theorem c05_ts : forall g i, (T g <> 0)%Z -> ts_q g i == zq i * dt g.
Proof. exact ts_uniform. Qed.
Print Assumptions c05_ts.

Theorem c05_index_roundtrip : forall fmin d j, ~ d == 0 -> get_index_q fmin d (get_frequency_q fmin d j) = j.
Proof. exact index_roundtrip. Qed.
Print Assumptions c05_index_roundtrip.

Theorem c05_nearest : forall fmin d f, 0 < d ->
  Qabs (f - get_frequency_q fmin d (get_index_q fmin d f)) <= d * (1#2).
Proof. exact nearest. Qed.
Print Assumptions c05_nearest.

Theorem c05_orientation : forall F_ T_ d dt_ fmin_ j, (F_ <> 0)%Z ->
  let ga := {| F := F_; T := T_; df := d; dt := dt_; fch1 := fmin_; ascending := true |} in
  let gd := {| F := F_; T := T_; df := d; dt := dt_; fch1 := fmin_ + zq (F_ - 1) * d; ascending := false |} in
  fs_q ga j == fs_q gd j /\ fmin_q ga == fmin_q gd /\ fmax_q ga == fmax_q gd.
Proof. exact orientation_independent. Qed.
Print Assumptions c05_orientation.

Theorem c05_derived : forall g a b, ~ dt g == 0 -> (T g <> 0)%Z ->
  drift_rate_q g a b * (zq (T g) * dt g) == fs_q g b - fs_q g a \/ (F g = 0)%Z.
Proof. exact derived. Qed.
Print Assumptions c05_derived.

Example c05_example :
  let g := {| F := 4; T := 3; df := 2; dt := 5; fch1 := 106; ascending := false |} in
  Qeq_bool (fs_q g 0) 100 && Qeq_bool (fs_q g 3) 106 && Qeq_bool (fmin_q g) 100 && Qeq_bool (ts_q g 2) 10 &&
  (get_index_q 100 2 103 =? 2)%Z && (get_index_q 100 2 105 =? 2)%Z && (get_index_q 100 2 (1039#10) =? 2)%Z && (chi2_df_q g =? 40)%Z = true.
Proof. vm_compute. reflexivity. Qed.
