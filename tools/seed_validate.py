#!/usr/bin/env python3
"""Validate a seeded breaking change and run the property's check against it.

  tools/seed_validate.py --pid C18 --name C18-a --src /tmp/wt_C18 [--needs "..."] [--tier quick]

src holds patch.diff and demo.py (written by an independent sub-agent).  Steps:
 1. fresh scratch worktree of /repo HEAD (under /tmp, removed afterwards): demo must PASS (exit 0);
 2. patch applied there: demo must FAIL (exit != 0) and the repository's test suite must pass;
 3. patch applied to /repo itself, `./vcheck PID --tier quick`, patch undone straight afterwards;
 4. seeded/<name>/{patch.diff, demo.py, meta.json} written.
"""
import argparse
import json
import os
import shutil
import subprocess
import sys
import time

ROOT = os.path.dirname(os.path.dirname(os.path.abspath(__file__)))


def sh(cmd, **kw):
    p = subprocess.run(cmd, shell=True, stdout=subprocess.PIPE, stderr=subprocess.STDOUT, text=True, **kw)
    return p.returncode, p.stdout


def main():
    ap = argparse.ArgumentParser()
    ap.add_argument("--pid", required=True)
    ap.add_argument("--name", required=True)
    ap.add_argument("--src", required=True)
    ap.add_argument("--needs", default="")
    ap.add_argument("--tier", default="quick")
    ap.add_argument("--skip-tests", action="store_true")
    a = ap.parse_args()
    patch = os.path.join(a.src, "patch.diff")
    demo = os.path.join(a.src, "demo.py")
    out = os.path.join(ROOT, "seeded", a.name)
    os.makedirs(out, exist_ok=True)
    shutil.copy(patch, os.path.join(out, "patch.diff"))
    shutil.copy(demo, os.path.join(out, "demo.py"))
    patch = os.path.join(out, "patch.diff")
    demo = os.path.join(out, "demo.py")
    wt = "/tmp/seedval_%s_%d" % (a.name, os.getpid())
    meta = dict(property=a.pid, name=a.name, needs_to_manifest=a.needs, ran=[])
    rc, o = sh("git -C /repo worktree add -q --detach %s HEAD" % wt)
    if rc != 0:
        print(o); return 2
    try:
        env = dict(os.environ, PYTHONPATH=wt, PYTHONHASHSEED="0")
        rc0, o0 = sh("/venv/bin/python %s" % demo, env=env, cwd=wt)
        meta["ran"].append(dict(cmd="demo.py on unchanged tree", exit=rc0, tail=o0[-400:]))
        rca, oa = sh("git -C %s apply %s" % (wt, patch))
        if rca != 0:
            rca, oa = sh("git -C %s apply --3way %s" % (wt, patch))
        meta["ran"].append(dict(cmd="git apply patch.diff (scratch worktree)", exit=rca, tail=oa[-400:]))
        rc1, o1 = sh("/venv/bin/python %s" % demo, env=env, cwd=wt)
        meta["ran"].append(dict(cmd="demo.py on changed tree", exit=rc1, tail=o1[-600:]))
        if a.skip_tests:
            rct, ot = 0, "(skipped)"
        else:
            rct, ot = sh("/venv/bin/python -m pytest -q -p no:cacheprovider --timeout=900 -x tests 2>&1 | tail -3", env=env, cwd=wt)
        meta["ran"].append(dict(cmd="pytest tests on changed tree", exit=rct, tail=ot[-300:]))
        meta["demo_passes_unchanged"] = (rc0 == 0)
        meta["demo_fails_changed"] = (rc1 != 0)
        meta["suite_passes_changed"] = (rct == 0 and "failed" not in ot)
    finally:
        sh("git -C /repo worktree remove --force %s" % wt)
    valid = meta["demo_passes_unchanged"] and meta["demo_fails_changed"] and meta["suite_passes_changed"] and rca == 0
    meta["valid_seed"] = valid
    # run our check against it
    st = sh("git -C /repo status --porcelain")[1].strip()
    if st:
        print("refusing: /repo has uncommitted changes:\n" + st)
        return 2
    t0 = time.time()
    rdir = os.path.join(ROOT, "replays")
    before = set(os.listdir(rdir)) if os.path.isdir(rdir) else set()
    shutil.copy(os.path.join(ROOT, "evidence", "%s.json" % a.pid), "/tmp/_ev_%s.json" % a.pid) if os.path.exists(os.path.join(ROOT, "evidence", "%s.json" % a.pid)) else None
    rcp, op = sh("git -C /repo apply %s" % patch)
    try:
        if rcp == 0:
            rcv, ov = sh("./vcheck %s --tier %s" % (a.pid, a.tier), cwd=ROOT)
        else:
            rcv, ov = -1, "patch does not apply to /repo: " + op
    finally:
        sh("git -C /repo checkout -- .")
        sh("python3 tools/py2v.py", cwd=ROOT)      # generated kernels back to the unpatched source
    # replays written while the patch was applied belong to the seed, not to the unchanged tree
    os.makedirs(os.path.join(out, "replays"), exist_ok=True)
    for f in sorted(set(os.listdir(rdir)) - before) if os.path.isdir(rdir) else []:
        shutil.move(os.path.join(rdir, f), os.path.join(out, "replays", f))
    if os.path.exists("/tmp/_ev_%s.json" % a.pid):
        shutil.move("/tmp/_ev_%s.json" % a.pid, os.path.join(ROOT, "evidence", "%s.json" % a.pid))
    lines = [l for l in ov.split("\n") if l.startswith(("VIOLATION", "KNOWN-FINDING", "PASS", "FAIL", "ENVIRONMENT"))]
    meta["check"] = dict(cmd="git -C /repo apply seeded/%s/patch.diff && ./vcheck %s --tier %s ; git -C /repo checkout -- ." % (a.name, a.pid, a.tier),
                         exit=rcv, lines=lines[:12], wall_s=round(time.time() - t0, 1))
    meta["detected"] = (rcv == 1 and any(l.startswith("VIOLATION property=%s" % a.pid) for l in lines))
    meta["detected_with_failing_input"] = meta["detected"] and any(l.startswith("VIOLATION") and "no-failing-input-found" not in l for l in lines)
    json.dump(meta, open(os.path.join(out, "meta.json"), "w"), indent=1)
    # replays written while the patch was applied are kept next to the seed for reference, not in replays/
    print(json.dumps(dict(name=a.name, valid_seed=valid, detected=meta["detected"],
                          with_input=meta["detected_with_failing_input"], lines=lines[:6]), indent=1))
    return 0


if __name__ == "__main__":
    sys.exit(main())
