#!/bin/sh
# Cold build of the Coq development (full .vo build, no -vos), offline.
set -e
cd "$(dirname "$0")/.."
python3 - <<'PY'
import sys
sys.path.insert(0, '.')
from harness import common
ok, log = common.build_coq()
print(log[-3000:])
sys.exit(0 if ok else 1)
PY
