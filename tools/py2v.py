#!/usr/bin/env python3
"""Fail-closed translator of scalar one-liners of /repo's current source into Gallina (coq/Kernels/Gen<NN>.v, one file per property).

For each entry of SPEC the named statement of the named function is located with Python's `ast`, its
right-hand side is translated into an expression over Q / Z, and a `Definition src_<name>` is emitted.
coq/Proofs/Kernels.v proves that every generated definition equals the hand-written model function the
property theorems speak about, so an edit of one of these source lines changes the proof obligation itself.

Whitelist: + - * / // % unary -, int / float constants (floats become exact rationals), names, self.<attr>,
subscripts with a string key (header_dict['PKTSTART'] -> parameter PKTSTART), round / np.round / np.rint
(half to even), np.ceil, np.floor, abs / np.abs, int(), max / min of two arguments, .astype(int),
unit_utils.get_value(x, unit) -> x.  Anything else stops the translation ("untranslatable"), which the
checks treat like a broken proof.

  tools/py2v.py [--repo DIR] [--outdir DIR]     exit 0 = written (or unchanged), 1 = untranslatable
"""
import argparse
import ast
import os
import sys
from fractions import Fraction

ROOT = os.path.dirname(os.path.dirname(os.path.abspath(__file__)))

# name, file, class (or None), function, what ("return" | "assign:<target>" (straight-line, top level only) | "nth:<target>:<k>" | "kwarg:<name>" | "call:<f>"),
# parameters in order with types, result type
SPEC = [
    dict(group="05", name="get_index", file="setigen/frame.py", cls="Frame", func="get_index", what="return",
         params=[("fmin", "Q"), ("df", "Q"), ("frequency", "Q")], ret="Z"),
    dict(group="05", name="get_frequency", file="setigen/frame.py", cls="Frame", func="get_frequency", what="return",
         params=[("fmin", "Q"), ("df", "Q"), ("index", "Z")], ret="Q"),
    dict(group="05", name="get_drift_rate", file="setigen/frame.py", cls="Frame", func="get_drift_rate", what="return",
         params=[("df", "Q"), ("dt", "Q"), ("tchans", "Z"), ("start_index", "Z"), ("stop_index", "Z")], ret="Q"),
    dict(group="05", name="chi2_df", file="setigen/frame.py", cls="Frame", func="__init__", what="assign:self.chi2_df",
         params=[("df", "Q"), ("dt", "Q")], ret="Z"),
    dict(group="05", name="unit_drift_rate", file="setigen/frame.py", cls="Frame", func="__init__", what="assign:self.unit_drift_rate",
         params=[("df", "Q"), ("dt", "Q")], ret="Q"),
    dict(group="05", name="fmid", file="setigen/frame.py", cls="Frame", func="fmid", what="return",
         params=[("fmin", "Q"), ("fmax", "Q")], ret="Q"),
    dict(group="05", name="obs_length", file="setigen/frame.py", cls="Frame", func="obs_length", what="return",
         params=[("tchans", "Z"), ("dt", "Q")], ret="Q"),
    dict(group="05", name="ts_ext_last", file="setigen/frame.py", cls="Frame", func="ts_ext", what="call:np.append:1",      # the value appended to the frame's time axis
         params=[("ts_last", "Q"), ("dt", "Q")], ret="Q", opaque={"self.ts[-1]": "ts_last"}),
    dict(group="05", name="t_stop", file="setigen/frame.py", cls="Frame", func="t_stop", what="return",
         params=[("t_start", "Q"), ("tchans", "Z"), ("dt", "Q")], ret="Q"),
    dict(group="11", name="get_intensity", file="setigen/frame.py", cls="Frame", func="get_intensity", what="return",
         params=[("snr", "Q"), ("noise_std", "Q"), ("sqrt_tchans", "Q")], ret="Q", opaque={"np.sqrt(self.tchans)": "sqrt_tchans"}),
    dict(group="11", name="get_snr", file="setigen/frame.py", cls="Frame", func="get_snr", what="return",
         params=[("intensity", "Q"), ("noise_std", "Q"), ("sqrt_tchans", "Q")], ret="Q", opaque={"np.sqrt(self.tchans)": "sqrt_tchans"}),
    dict(group="06", name="bounding_min", file="setigen/frame.py", cls="Frame", func="add_signal", what="nth:bounding_min:1",      # else branch: a bounding range is given
         params=[("i0", "Z"), ("fchans", "Z")], ret="Z", opaque={"self.get_index(bounding_f_range[0])": "i0"}),
    dict(group="06", name="bounding_max", file="setigen/frame.py", cls="Frame", func="add_signal", what="nth:bounding_max:1",
         params=[("i1", "Z"), ("fchans", "Z"), ("bounding_min", "Z")], ret="Z", opaque={"self.get_index(bounding_f_range[1])": "i1"}),
    dict(group="13", name="px_start", file="setigen/frame.py", cls="Frame", func="add_constant_signal", what="assign:px_start",
         params=[("f_start", "Q"), ("fmin", "Q"), ("df", "Q")], ret="Q"),
    dict(group="13", name="px_width_offset", file="setigen/frame.py", cls="Frame", func="add_constant_signal", what="assign:px_width_offset",
         params=[("width", "Q"), ("df", "Q")], ret="Q"),
    dict(group="13", name="px_drift_offset", file="setigen/frame.py", cls="Frame", func="add_constant_signal", what="nth:px_drift_offset:1",
         params=[("drift_rate", "Q"), ("dt", "Q"), ("df", "Q"), ("tchans", "Z")], ret="Q"),
    dict(group="13", name="px_drift_smear_extra", file="setigen/frame.py", cls="Frame", func="add_constant_signal", what="aug:px_drift_offset:1",   # inside `if doppler_smearing`
         params=[("drift_rate", "Q"), ("dt", "Q"), ("df", "Q")], ret="Q"),
    dict(group="13", name="bounding_start_index", file="setigen/frame.py", cls="Frame", func="add_constant_signal", what="assign:bounding_start_index",
         params=[("px_start", "Q"), ("px_drift_offset", "Q"), ("px_width_offset", "Q")], ret="Z"),
    dict(group="13", name="bounding_stop_index", file="setigen/frame.py", cls="Frame", func="add_constant_signal", what="assign:bounding_stop_index",
         params=[("px_start", "Q"), ("px_drift_offset", "Q"), ("px_width_offset", "Q")], ret="Z"),
    dict(group="13", name="bounding_min_index", file="setigen/frame.py", cls="Frame", func="add_constant_signal", what="assign:bounding_min_index",
         params=[("bounding_start_index", "Z"), ("fchans", "Z")], ret="Z"),
    dict(group="13", name="bounding_max_index", file="setigen/frame.py", cls="Frame", func="add_constant_signal", what="assign:bounding_max_index",
         params=[("bounding_stop_index", "Z"), ("fchans", "Z")], ret="Z"),
    dict(group="13", name="smearing_subsamples", file="setigen/frame.py", cls="Frame", func="add_constant_signal", what="kwarg:smearing_subsamples",
         params=[("drift_rate", "Q"), ("unit_drift_rate", "Q")], ret="Z"),
    dict(group="07", name="center_freq", file="setigen/voltage/backend.py", cls="RawVoltageBackend", func="_header_populate_configuration", what="assign:center_freq",
         params=[("fch1", "Q"), ("chan_bw", "Q"), ("start_chan", "Z"), ("num_chans", "Z")], ret="Q"),
    dict(group="07", name="hdr_obsfreq", file="setigen/voltage/backend.py", cls="RawVoltageBackend", func="_header_populate_configuration", what="assign:header_dict['OBSFREQ']",
         params=[("fch1", "Q"), ("chan_bw", "Q"), ("start_chan", "Z"), ("num_chans", "Z")], ret="Q"),      # local center_freq inlined
    dict(group="07", name="hdr_chan_bw", file="setigen/voltage/backend.py", cls="RawVoltageBackend", func="_header_populate_configuration", what="assign:header_dict['CHAN_BW']",
         params=[("chan_bw", "Q")], ret="Q"),
    dict(group="07", name="hdr_obsbw", file="setigen/voltage/backend.py", cls="RawVoltageBackend", func="_header_populate_configuration", what="assign:header_dict['OBSBW']",
         params=[("chan_bw", "Q"), ("num_chans", "Z")], ret="Q"),
    dict(group="07", name="hdr_obsnchan", file="setigen/voltage/backend.py", cls="RawVoltageBackend", func="_header_populate_configuration", what="assign:header_dict['OBSNCHAN']",
         params=[("num_chans", "Z"), ("num_antennas", "Z")], ret="Z"),
    dict(group="07", name="raw_params_fch1", file="setigen/voltage/raw_utils.py", cls=None, func="get_raw_params", what="assign:raw_params['fch1']",
         params=[("center_freq", "Q"), ("chan_bw", "Q"), ("start_chan", "Z"), ("num_chans", "Z")], ret="Q"),
    dict(group="04", name="header_padding", file="setigen/voltage/backend.py", cls="RawVoltageBackend", func="_make_header", what="call:bytearray",
         params=[("header_lines", "Z")], ret="Z"),
    dict(group="20", name="pktstop", file="setigen/voltage/backend.py", cls="RawVoltageBackend", func="_header_populate_configuration", what="assign:header_dict['PKTSTOP']",
         params=[("PKTSTART", "Z"), ("num_blocks", "Z"), ("samples_per_block", "Z")], ret="Z"),
    dict(group="20", name="get_num_blocks", file="setigen/voltage/backend.py", cls="RawVoltageBackend", func="get_num_blocks", what="return",
         params=[("obs_length", "Q"), ("chan_bw", "Q"), ("num_antennas", "Z"), ("num_chans", "Z"), ("bytes_per_sample", "Z"), ("block_size", "Z")], ret="Z"),
    dict(group="20", name="samples_per_block", file="setigen/voltage/backend.py", cls="RawVoltageBackend", func="__init__", what="assign:self.samples_per_block",
         params=[("block_size", "Z"), ("num_antennas", "Z"), ("num_chans", "Z"), ("bytes_per_sample", "Z")], ret="Z"),
    dict(group="20", name="bytes_per_sample", file="setigen/voltage/backend.py", cls="RawVoltageBackend", func="__init__", what="assign:self.bytes_per_sample",
         params=[("num_pols", "Z"), ("num_bits", "Z")], ret="Z"),
    dict(group="20", name="total_obs_num_samples", file="setigen/voltage/backend.py", cls="RawVoltageBackend", func="record", what="assign:self.total_obs_num_samples",
         params=[("num_blocks", "Z"), ("samples_per_block", "Z"), ("num_branches", "Z")], ret="Z"),
    dict(group="20", name="time_per_block", file="setigen/voltage/backend.py", cls="RawVoltageBackend", func="__init__", what="assign:self.time_per_block",
         params=[("samples_per_block", "Z"), ("tbin", "Q")], ret="Q"),
    dict(group="20", name="record_obs_length", file="setigen/voltage/backend.py", cls="RawVoltageBackend", func="record", what="assign:self.obs_length",
         params=[("num_blocks", "Z"), ("time_per_block", "Q")], ret="Q"),
    dict(group="16", name="cadence_time", file="setigen/cadence.py", cls="Cadence", func="add_signal", what="nth:frame.ts:1",      # inside the loop over frames; elementwise on the time axis
         params=[("ts", "Q"), ("frame_start", "Q"), ("cadence_start", "Q")], ret="Q", opaque={"frame.t_start": "frame_start", "self.t_start": "cadence_start"}),
    dict(group="16", name="overwrite_start", file="setigen/cadence.py", cls="Cadence", func="overwrite_times", what="nth:frame.t_start:1",   # loop over frames[1:]
         params=[("prev_stop", "Q"), ("t_slew", "Q")], ret="Q", attr_params={"t_stop": "prev_stop"}),
    dict(group="16", name="slew_time", file="setigen/cadence.py", cls="Cadence", func="slew_times", what="return-elt",
         params=[("next_start", "Q"), ("prev_stop", "Q")], ret="Q", attr_params={"t_start": "next_start", "t_stop": "prev_stop"}),
    dict(group="18", name="insert_index", file="setigen/cadence.py", cls="OrderedCadence", func="insert", what="flow:i:order_label",     # index used for the label and list.insert
         params=[("i", "Z"), ("n", "Z")], ret="Z", opaque={"len(self)": "n"}),
    dict(group="18", name="setitem_index", file="setigen/cadence.py", cls="OrderedCadence", func="__setitem__", what="flow:i:raise",
         params=[("i", "Z"), ("n", "Z")], ret="Z", opaque={"len(self)": "n"}),
    dict(group="18", name="setitem_rejects", file="setigen/cadence.py", cls="OrderedCadence", func="__setitem__", what="raise-cond:i:1",
         params=[("i", "Z"), ("n", "Z")], ret="B", opaque={"len(self)": "n"}),
    dict(group="17", name="dedrift_max_offset", file="setigen/dedrift.py", cls=None, func="dedrift", what="assign:max_offset",
         params=[("drift_rate", "Q"), ("tchans", "Z"), ("dt", "Q"), ("df", "Q")], ret="Z"),
    dict(group="17", name="dedrift_offset", file="setigen/dedrift.py", cls=None, func="dedrift", what="nth:offset:1",      # inside the loop over rows i
         params=[("drift_rate", "Q"), ("i", "Z"), ("dt", "Q"), ("df", "Q")], ret="Z"),
    dict(group="17", name="normalise_elt", file="setigen/integrate.py", cls=None, func="integrate", what="under:normalize:data",      # inside `if normalize`; elementwise on the integrated vector
         params=[("data", "Q"), ("m", "Q"), ("s", "Q")], ret="Q", opaque={"np.mean(c_data)": "m", "np.std(c_data)": "s"}),
    dict(group="19", name="num_splits", file="setigen/split_utils.py", cls=None, func="split_waterfall_generator", what="nth:num_splits:2",   # else branch: fchans <= nchans
         params=[("nchans", "Z"), ("fchans", "Z"), ("f_shift", "Z")], ret="Z"),
    dict(group="19", name="piece_f_start", file="setigen/split_utils.py", cls=None, func="split_waterfall_generator", what="nth:f_start:1",   # inside the loop over pieces i
         params=[("fch1", "Q"), ("df", "Q"), ("i", "Z"), ("f_shift", "Z")], ret="Q"),
    dict(group="19", name="piece_f_stop", file="setigen/split_utils.py", cls=None, func="split_waterfall_generator", what="nth:f_stop:1",
         params=[("f_start", "Q"), ("df", "Q"), ("fchans", "Z")], ret="Q"),
    dict(group="02", name="windows_per_subblock", file="setigen/voltage/backend.py", cls="RawVoltageBackend", func="collect_data_block", what="nth:W:1",   # before the sub-block loop
         params=[("T", "Z"), ("num_taps", "Z"), ("num_subblocks", "Z")], ret="Z"),
    dict(group="02", name="subblock_T", file="setigen/voltage/backend.py", cls="RawVoltageBackend", func="collect_data_block", what="nth:subblock_T:1",
         params=[("W", "Z"), ("num_taps", "Z")], ret="Z"),
    dict(group="02", name="num_subblocks", file="setigen/voltage/backend.py", cls="RawVoltageBackend", func="collect_data_block", what="nth:self.num_subblocks:1",
         params=[("T", "Z"), ("subblock_T", "Z")], ret="Z"),
    dict(group="09", name="quantize_real", file="setigen/voltage/quantization.py", cls=None, func="quantize_real", what="return",     # elementwise; locals (factor, bounds) inlined
         params=[("x", "Q"), ("target_mean", "Q"), ("target_std", "Q"), ("data_mean", "Q"), ("data_std", "Q"), ("num_bits", "Z")], ret="Z"),
    dict(group="10", name="chirp_arg", file="setigen/voltage/data_stream.py", cls="DataStream", func="add_constant_signal/signal_func", what="call:xp.cos",
         params=[("f_start", "Q"), ("fch1", "Q"), ("drift_rate", "Q"), ("ts", "Q"), ("phase", "Q"), ("pi", "Q"), ("ascending", "B")], ret="Q",
         opaque={"xp.pi": "pi"}),       # argument of the cosine, elementwise in ts; the local chirp_phase (with its guarded negation) is inlined
    dict(group="11", name="chi2_df", file="setigen/frame.py", cls="Frame", func="__init__", what="assign:self.chi2_df",
         params=[("df", "Q"), ("dt", "Q")], ret="Z"),
    dict(group="11", name="chi2_std", file="setigen/frame.py", cls="Frame", func="add_noise", what="nth:x_std:1",      # the deviation recorded for chi-squared noise
         params=[("x_mean", "Q"), ("chi2_df", "Z"), ("sqrt_2k", "Q")], ret="Q", opaque={"np.sqrt(2 * self.chi2_df)": "sqrt_2k"}),
    dict(group="11", name="chi2_std_obs", file="setigen/frame.py", cls="Frame", func="add_noise_from_obs", what="nth:x_std:1",
         params=[("x_mean", "Q"), ("chi2_df", "Z"), ("sqrt_2k", "Q")], ret="Q", opaque={"np.sqrt(2 * self.chi2_df)": "sqrt_2k"}),
    # the bundled observation table: every column is scaled by dt / obs_dt, freshly on every call (elementwise on the column)
    dict(group="11", name="obs_mean_entry", file="setigen/frame.py", cls="Frame", func="add_noise_from_obs", what="nth:x_mean_array:1",
         params=[("row", "Q"), ("dt", "Q")], ret="Q", opaque={"sample_noise_params[:, 0]": "row"}),
    dict(group="11", name="obs_std_entry", file="setigen/frame.py", cls="Frame", func="add_noise_from_obs", what="nth:x_std_array:1",
         params=[("row", "Q"), ("dt", "Q")], ret="Q", opaque={"sample_noise_params[:, 1]": "row"}),
    dict(group="11", name="obs_min_entry", file="setigen/frame.py", cls="Frame", func="add_noise_from_obs", what="nth:x_min_array:1",
         params=[("row", "Q"), ("dt", "Q")], ret="Q", opaque={"sample_noise_params[:, 2]": "row"}),
    dict(group="11", name="stream_noise_var", file="setigen/voltage/data_stream.py", cls="DataStream", func="add_noise", what="assign:self.noise_std",
         params=[("noise_std", "Q"), ("v_std", "Q")], ret="Q", strip_call="xp.sqrt"),
]


class Untranslatable(Exception):
    pass


def src(node):
    return ast.unparse(node)


def find_func(tree, cls, func):
    scope = tree.body
    if cls is not None:
        c = [n for n in tree.body if isinstance(n, ast.ClassDef) and n.name == cls]
        if not c:
            raise Untranslatable("class %s not found" % cls)
        scope = c[0].body
    fn = None
    for part in func.split("/"):          # "outer/inner" = a function defined inside another one
        f = [n for n in scope if isinstance(n, ast.FunctionDef) and n.name == part]
        if not f:
            raise Untranslatable("function %s not found" % func)
        fn = f[-1]        # the last definition (a property setter would come after the getter)
        scope = fn.body
    return fn


def pick(fn, what):
    """-> the expression AST the spec entry refers to"""
    if what == "return-elt":
        # the element expression of `return np.array([<elt> for ...])` / `return [<elt> for ...]`
        rets = [n for n in ast.walk(fn) if isinstance(n, ast.Return) and n.value is not None]
        if len(rets) != 1:
            raise Untranslatable("%d return statements" % len(rets))
        v = rets[0].value
        if isinstance(v, ast.Call) and len(v.args) == 1:
            v = v.args[0]
        if not isinstance(v, ast.ListComp):
            raise Untranslatable("return value is not a list comprehension")
        return v.elt
    if what == "return":
        rets = [n for n in ast.walk(fn) if isinstance(n, ast.Return) and n.value is not None]
        if len(rets) != 1:
            raise Untranslatable("%d return statements" % len(rets))
        return rets[0].value
    kind, target = what.split(":", 1)
    if kind == "nth":
        # the k-th assignment to the target in source order, wherever it is nested; the SPEC entry documents the enclosing branch / loop
        target, k = target.rsplit(":", 1)
        hits = sorted([m for m in ast.walk(fn) if isinstance(m, ast.Assign) and any(src(t) == target for t in m.targets)], key=lambda m: (m.lineno, m.col_offset))
        if len(hits) < int(k):
            raise Untranslatable("only %d assignments to %s" % (len(hits), target))
        return hits[int(k) - 1].value
    if kind == "under":
        # the (single) assignment to the target directly inside the body of `if <test>:` -- robust against statements added or merged elsewhere
        test, target = target.split(":", 1)
        hits = [b for m in ast.walk(fn) if isinstance(m, ast.If) and src(m.test) == test for b in m.body
                if isinstance(b, ast.Assign) and any(src(t) == target for t in b.targets)]
        if len(hits) != 1:
            raise Untranslatable("%d assignments to %s under `if %s`" % (len(hits), target, test))
        return hits[0].value
    if kind == "flow":
        # the value of one variable after the leading statements of the function: plain assignments `v = e` and guarded
        # reassignments `if test: v = e` (no else) are folded into nested conditionals; statements that do not mention the
        # variable as a target are skipped; the fold stops at the first statement matching the given stop text
        var, stop = target.split(":", 1)
        expr = ast.Name(id=var, ctx=ast.Load())
        for st in fn.body:
            if stop and stop in src(st):
                break
            if isinstance(st, ast.Assign) and any(src(t) == var for t in st.targets):
                expr = _subst(st.value, var, expr)
            elif isinstance(st, ast.If) and not st.orelse and all(isinstance(b, ast.Assign) and [src(t) for t in b.targets] == [var] for b in st.body) and len(st.body) == 1:
                expr = ast.IfExp(test=_subst(st.test, var, expr), body=_subst(st.body[0].value, var, expr), orelse=expr)
            elif any(isinstance(m, (ast.Assign, ast.AugAssign)) and any(src(t) == var for t in (m.targets if isinstance(m, ast.Assign) else [m.target])) for m in ast.walk(st)):
                raise Untranslatable("%s is reassigned in a way the flow selector does not understand (line %d)" % (var, st.lineno))
        return expr
    if kind == "raise-cond":
        # the test of the k-th top-level `if <test>: raise ...`, with the flow of <var> before it substituted
        var, k = target.rsplit(":", 1)
        hits = [st for st in fn.body if isinstance(st, ast.If) and len(st.body) == 1 and isinstance(st.body[0], ast.Raise)]
        if len(hits) < int(k):
            raise Untranslatable("only %d guarded raises" % len(hits))
        st = hits[int(k) - 1]
        before = pick(ast.FunctionDef(name=fn.name, args=fn.args, body=fn.body[:fn.body.index(st)], decorator_list=[], lineno=fn.lineno), "flow:%s:" % var)
        return _subst(st.test, var, before)
    if kind == "aug":
        # the value of the k-th augmented assignment to the target (e.g. the increment added inside an `if`)
        target, k = target.rsplit(":", 1)
        hits = sorted([m for m in ast.walk(fn) if isinstance(m, ast.AugAssign) and src(m.target) == target], key=lambda m: (m.lineno, m.col_offset))
        if len(hits) < int(k) or not isinstance(hits[int(k) - 1].op, ast.Add):
            raise Untranslatable("no %s-th '+=' on %s" % (k, target))
        return hits[int(k) - 1].value
    if kind == "assign":
        expr = None
        top = [m for m in fn.body if isinstance(m, (ast.Assign, ast.AugAssign))]
        nested = [m for m in ast.walk(fn) if isinstance(m, (ast.Assign, ast.AugAssign)) and m not in top
                  and any(src(t) == target for t in (m.targets if isinstance(m, ast.Assign) else [m.target]))]
        if nested:
            raise Untranslatable("%s is also assigned inside a branch or loop (line %d): not a straight-line definition" % (target, nested[0].lineno))
        for n in top:
            tg = n.targets if isinstance(n, ast.Assign) else [n.target]
            if any(src(t) == target for t in tg):
                if isinstance(n, ast.Assign):
                    if isinstance(n.value, ast.Constant) and n.value.value is None:
                        continue                       # `x = None` placeholder
                    if expr is not None and src(n.value) != src(expr):
                        # several different assignments: only a straight-line '=' then '+=' chain is understood
                        expr = n.value if isinstance(expr, ast.Constant) else _chain_error(target)
                    else:
                        expr = n.value
                else:
                    if expr is None:
                        raise Untranslatable("augmented assignment to %s before any assignment" % target)
                    expr = ast.BinOp(left=expr, op=n.op, right=n.value)
        if expr is None:
            raise Untranslatable("no assignment to %s" % target)
        return expr
    if kind == "kwarg":
        hits = [kw.value for n in ast.walk(fn) if isinstance(n, ast.Call) for kw in n.keywords if kw.arg == target]
        if len(hits) != 1:
            raise Untranslatable("%d calls pass %s=" % (len(hits), target))
        return hits[0]
    if kind == "call":
        # the (only) argument of the only call of <f>; "call:<f>:<k>" = its k-th positional argument
        k = 0
        if target.rsplit(":", 1)[-1].isdigit():
            target, k = target.rsplit(":", 1)[0], int(target.rsplit(":", 1)[1])
        hits = [n for n in ast.walk(fn) if isinstance(n, ast.Call) and src(n.func) == target]
        if len(hits) != 1 or len(hits[0].args) <= k or (k == 0 and len(hits[0].args) != 1 and not target.endswith("append")):
            raise Untranslatable("%d calls of %s" % (len(hits), target))
        return hits[0].args[k]
    raise Untranslatable("unknown selector %s" % what)


def follow_helper(fn, cls_body, what):
    """`nth:<t>:<k>` / `assign:<t>` when <t> is no longer assigned in the function itself but received from a method of the same
    class, `..., t, ... = self.<helper>(a, b)`, which computes it under the same name and returns it at the same position: the
    selector is then applied inside the helper.  Fail-closed: exactly one such call, positional arguments that are plain names
    equal to the helper's parameter names, tuple returns of the right arity only, at least one of them returning the name itself."""
    kind, _, target = what.partition(":")
    if kind not in ("nth", "assign"):
        return None
    k = None
    if kind == "nth":
        target, k = target.rsplit(":", 1)
        k = int(k)
    calls = [m for m in ast.walk(fn) if isinstance(m, ast.Assign) and len(m.targets) == 1 and isinstance(m.targets[0], ast.Tuple)
             and any(src(t) == target for t in m.targets[0].elts) and isinstance(m.value, ast.Call)
             and isinstance(m.value.func, ast.Attribute) and isinstance(m.value.func.value, ast.Name) and m.value.func.value.id == "self"]
    if len(calls) != 1:
        return None
    call = calls[0].value
    names = [src(t) for t in calls[0].targets[0].elts]
    if names.count(target) != 1 or call.keywords or not all(isinstance(a, ast.Name) for a in call.args):
        return None
    helper = [n for n in cls_body if isinstance(n, ast.FunctionDef) and n.name == call.func.attr]
    if len(helper) != 1:
        return None
    helper = helper[0]
    a = helper.args
    if a.vararg or a.kwarg or a.kwonlyargs or a.posonlyargs or [x.arg for x in a.args] != ["self"] + [x.id for x in call.args]:
        return None
    rets = [n for n in ast.walk(helper) if isinstance(n, ast.Return)]
    if not rets or not all(isinstance(r.value, ast.Tuple) and len(r.value.elts) == len(names) for r in rets):
        return None
    pos = names.index(target)
    if not any(isinstance(r.value.elts[pos], ast.Name) and r.value.elts[pos].id == target for r in rets):
        return None
    return helper, pick(helper, what)


def flow_expr(fn, var, stop=None, init=None):
    """value of `var` after the leading top-level statements of fn: `v = e`, `v op= e` and guarded `if test: v = e` (no else) are
    folded in order; None if `var` is assigned in any other way"""
    expr = init
    handled = []
    for st in fn.body:
        if stop and stop in src(st):
            break
        if isinstance(st, ast.Assign) and len(st.targets) == 1 and src(st.targets[0]) == var:
            expr = st.value if expr is None else _subst(st.value, var, expr)
            handled.append(st)
        elif isinstance(st, ast.AugAssign) and src(st.target) == var and expr is not None:
            expr = ast.BinOp(left=expr, op=st.op, right=st.value)
            handled.append(st)
        elif (isinstance(st, ast.If) and not st.orelse and len(st.body) == 1 and isinstance(st.body[0], ast.Assign)
              and [src(t) for t in st.body[0].targets] == [var] and expr is not None):
            expr = ast.IfExp(test=_subst(st.test, var, expr), body=_subst(st.body[0].value, var, expr), orelse=expr)
            handled.append(st.body[0])
    if stop is None:
        every = [m for m in ast.walk(fn) if (isinstance(m, ast.Assign) and any(src(t) == var for t in m.targets)) or (isinstance(m, ast.AugAssign) and src(m.target) == var)]
        if any(m not in handled for m in every):
            return None
    return expr


class _Subst(ast.NodeTransformer):
    def __init__(self, var, by):
        self.var, self.by = var, by

    def visit_Name(self, node):
        return self.by if node.id == self.var else node


def _subst(node, var, by):
    import copy
    return _Subst(var, by).visit(copy.deepcopy(node))


def _chain_error(target):
    raise Untranslatable("several different assignments to %s" % target)


def qlit(x):
    # a float literal is read as the decimal number the source text shows (1e-6 is 1/1000000), which is what the exact model means by it
    fr = Fraction(repr(x)) if isinstance(x, float) else Fraction(x)
    return "(%d # %d)" % (fr.numerator, fr.denominator) if fr.denominator != 1 else "(inject_Z %s)" % zlit(fr.numerator)


def zlit(n):
    return "%d" % n if n >= 0 else "(%d)" % n


class Tr(object):
    def __init__(self, entry, fn=None, cls_body=None, picked=None):
        self.types = dict(entry["params"])
        self.opaque = entry.get("opaque", {})
        self.strip_call = entry.get("strip_call")
        self.attr_params = entry.get("attr_params", {})      # `<anything but self>.<attr>` -> parameter (e.g. prev_frame.t_stop, self.frames[i].t_stop)
        self.fn = fn
        self.cls_body = cls_body or []
        self.depth = 0
        self.picked = picked

    def local_def(self, name):
        """expression a local name stands for: its single assignment, or the two assignments of one if/else statement"""
        if self.fn is None:
            return None
        hits = [m for m in ast.walk(self.fn) if isinstance(m, ast.Assign) and len(m.targets) == 1 and src(m.targets[0]) == name]
        # `a, b = e1, e2` defines each name separately
        tup = [m for m in self.fn.body if isinstance(m, ast.Assign) and len(m.targets) == 1 and isinstance(m.targets[0], ast.Tuple)
               and isinstance(m.value, ast.Tuple) and len(m.targets[0].elts) == len(m.value.elts) and any(src(t) == name for t in m.targets[0].elts)]
        if not hits and len(tup) == 1:
            k = [src(t) for t in tup[0].targets[0].elts].index(name)
            return tup[0].value.elts[k]
        augs = [m for m in ast.walk(self.fn) if isinstance(m, ast.AugAssign) and src(m.target) == name]
        if len(hits) + len(augs) >= 2:
            fe = flow_expr(self.fn, name)
            if fe is not None:
                return fe
        if augs:
            # only a straight-line top-level chain `v = e; v += f; ...` is understood
            if not (hits and all(h in self.fn.body for h in hits + augs)):
                return None
            expr = None
            for st in sorted(hits + augs, key=lambda m: m.lineno):
                if isinstance(st, ast.Assign):
                    expr = st.value if expr is None else _subst(st.value, name, expr)
                elif expr is None:
                    return None
                else:
                    expr = ast.BinOp(left=expr, op=st.op, right=st.value)
            return expr
        if len(hits) == 1:
            if hits[0] in self.fn.body or self._only_in_loops(hits[0]) or self._same_block_before(hits[0]):
                return hits[0].value
            return None
        if len(hits) >= 2 and all(h in self.fn.body for h in hits):
            # straight-line re-assignments (q = f(x); q = g(q); ...): fold them in order
            hits = sorted(hits, key=lambda m: m.lineno)
            expr = hits[0].value
            if any(isinstance(x, ast.Name) and x.id == name for x in ast.walk(expr)):
                return None
            for h in hits[1:]:
                expr = _subst(h.value, name, expr)
            return expr
        if len(hits) == 2:
            for st in ast.walk(self.fn):
                if isinstance(st, ast.If) and len(st.body) == 1 and len(st.orelse) == 1 and st.body[0] is hits[0] and st.orelse[0] is hits[1]:
                    return ast.IfExp(test=st.test, body=hits[0].value, orelse=hits[1].value)
        return None

    def _same_block_before(self, hit):
        """the single assignment sits earlier in the very statement list that holds the translated statement: both run, or neither"""
        if self.picked is None:
            return False
        for m in ast.walk(self.fn):
            for fld in ("body", "orelse", "finalbody"):
                blk = getattr(m, fld, None)
                if isinstance(blk, list) and hit in blk:
                    later = blk[blk.index(hit) + 1:]
                    return any(x is self.picked for st in later for x in ast.walk(st))
        return False

    def _only_in_loops(self, node):
        """the assignment sits in the body of for-loops / with-blocks only (executed whenever reached), not under an `if`"""
        def find(body, path):
            for st in body:
                if st is node:
                    return path
                for fld in ("body", "orelse"):
                    sub = getattr(st, fld, None)
                    if isinstance(sub, list):
                        r = find(sub, path + [(st, fld)])
                        if r is not None:
                            return r
            return None
        path = find(self.fn.body, [])
        return path is not None and all(isinstance(st, (ast.For, ast.With)) and fld == "body" for st, fld in path)

    def property_def(self, attr):
        for m in self.cls_body:
            if isinstance(m, ast.FunctionDef) and m.name == attr and any(src(d) == "property" for d in m.decorator_list):
                rets = [n for n in ast.walk(m) if isinstance(n, ast.Return) and n.value is not None]
                if len(rets) == 1:
                    return rets[0].value
        return None

    def asq(self, t):
        txt, ty = t
        return txt if ty == "Q" else "(inject_Z %s)" % txt

    def tr(self, n):
        """-> (text, 'Q' | 'Z')"""
        s = src(n)
        if s in self.opaque:
            return self.opaque[s], self.types[self.opaque[s]]
        if isinstance(n, ast.Constant):
            if isinstance(n.value, bool) or not isinstance(n.value, (int, float)):
                raise Untranslatable("constant %r" % (n.value,))
            if isinstance(n.value, int):
                return zlit(n.value), "Z"
            return qlit(n.value), "Q"
        if isinstance(n, ast.Name):
            if n.id not in self.types:
                d = self.local_def(n.id)
                if d is None or self.depth > 12:
                    raise Untranslatable("free name %s" % n.id)
                self.depth += 1
                try:
                    return self.tr(d)
                finally:
                    self.depth -= 1
            return n.id, self.types[n.id]
        if isinstance(n, ast.Attribute):
            if not (isinstance(n.value, ast.Name) and n.value.id == "self") and n.attr in self.attr_params:
                return self.attr_params[n.attr], self.types[self.attr_params[n.attr]]
            if isinstance(n.value, ast.Name) and n.value.id in ("self", "fr", "frame") and n.attr in self.types:
                return n.attr, self.types[n.attr]
            if isinstance(n.value, ast.Name) and n.value.id == "self" and self.depth <= 12:
                d = self.property_def(n.attr)
                if d is not None:
                    self.depth += 1
                    try:
                        return self.tr(d)
                    finally:
                        self.depth -= 1
            raise Untranslatable("attribute %s" % s)
        if isinstance(n, ast.Subscript):
            key = n.slice
            if isinstance(key, ast.Constant) and isinstance(key.value, str) and key.value in self.types:
                return key.value, self.types[key.value]
            raise Untranslatable("subscript %s" % s)
        if isinstance(n, ast.UnaryOp) and isinstance(n.op, ast.USub):
            t, ty = self.tr(n.operand)
            return ("(- %s)" % t), ty
        if isinstance(n, ast.UnaryOp) and isinstance(n.op, ast.UAdd):
            return self.tr(n.operand)
        if isinstance(n, ast.BinOp):
            a, b = self.tr(n.left), self.tr(n.right)
            op = n.op
            if isinstance(op, (ast.Add, ast.Sub, ast.Mult)):
                sym = {"Add": "+", "Sub": "-", "Mult": "*"}[type(op).__name__]
                if a[1] == "Z" and b[1] == "Z":
                    return "(%s %s %s)%%Z" % (a[0], sym, b[0]), "Z"
                return "(%s %s %s)" % (self.asq(a), sym, self.asq(b)), "Q"
            if isinstance(op, ast.Div):
                return "(%s / %s)" % (self.asq(a), self.asq(b)), "Q"
            if isinstance(op, ast.FloorDiv) and a[1] == "Z" and b[1] == "Z":
                return "(%s / %s)%%Z" % (a[0], b[0]), "Z"
            if isinstance(op, ast.Mod) and a[1] == "Z" and b[1] == "Z":
                return "(%s mod %s)%%Z" % (a[0], b[0]), "Z"
            if isinstance(op, ast.Pow) and isinstance(n.left, ast.Constant) and n.left.value == 2 and b[1] == "Z":
                return "(2 ^ %s)%%Z" % b[0], "Z"
            if isinstance(op, ast.Pow) and isinstance(n.right, ast.Constant) and n.right.value == 2:
                if a[1] == "Z":
                    return "(%s * %s)%%Z" % (a[0], a[0]), "Z"
                return "(%s * %s)" % (a[0], a[0]), "Q"
            raise Untranslatable("operator %s on %s/%s" % (type(op).__name__, a[1], b[1]))
        if isinstance(n, ast.IfExp):
            t = self.tr(n.test)
            if t[1] != "B":
                raise Untranslatable("condition %s is not a comparison" % src(n.test))
            a, b = self.tr(n.body), self.tr(n.orelse)
            if a[1] == b[1]:
                return "(if %s then %s else %s)" % (t[0], a[0], b[0]), a[1]
            return "(if %s then %s else %s)" % (t[0], self.asq(a), self.asq(b)), "Q"
        if isinstance(n, ast.Compare):
            parts = []
            left = self.tr(n.left)
            for op, right in zip(n.ops, n.comparators):
                r = self.tr(right)
                if left[1] == "Z" and r[1] == "Z":
                    sym = {"Lt": "(%s <? %s)%%Z", "LtE": "(%s <=? %s)%%Z", "Gt": "(%s >? %s)%%Z", "GtE": "(%s >=? %s)%%Z", "Eq": "(%s =? %s)%%Z"}.get(type(op).__name__)
                    if sym is None:
                        raise Untranslatable("comparison operator %s" % type(op).__name__)
                    parts.append(sym % (left[0], r[0]))
                else:
                    a_, b_ = self.asq(left), self.asq(r)
                    sym = {"Eq": "(Qeq_bool %s %s)", "LtE": "(Qle_bool %s %s)", "GtE": "(Qle_bool %s %s)", "Lt": "(negb (Qle_bool %s %s))", "Gt": "(negb (Qle_bool %s %s))"}.get(type(op).__name__)
                    if sym is None:
                        raise Untranslatable("comparison operator %s" % type(op).__name__)
                    x_, y_ = (a_, b_) if type(op).__name__ in ("Eq", "LtE", "Gt") else (b_, a_)
                    parts.append(sym % (x_, y_))
                left = r
            txt = parts[0]
            for p in parts[1:]:
                txt = "(%s && %s)" % (txt, p)
            return txt, "B"
        if isinstance(n, ast.UnaryOp) and isinstance(n.op, ast.Not):
            t = self.tr(n.operand)
            if t[1] != "B":
                raise Untranslatable("not of a non-boolean")
            return "(negb %s)" % t[0], "B"
        if isinstance(n, ast.Call):
            f = src(n.func)
            if self.strip_call and f == self.strip_call and len(n.args) == 1:
                return self.tr(n.args[0])          # documented abstraction: the definition describes the argument of this call (e.g. the variance under a sqrt)
            if f.endswith(".astype") and len(n.args) == 1 and src(n.args[0]) == "int":
                t, ty = self.tr(n.func.value)
                if ty != "Z":
                    raise Untranslatable(".astype(int) of a non-integral expression %s" % src(n.func.value))
                return t, "Z"
            if f in ("unit_utils.get_value",) and len(n.args) == 2:
                return self.tr(n.args[0])
            if f in ("round", "np.round", "np.rint", "np.around", "xp.round", "xp.around") and len(n.args) == 1 and not n.keywords:
                t = self.tr(n.args[0])
                return ("(rhe %s)" % self.asq(t)), "Z"
            if f in ("np.ceil", "xp.ceil", "math.ceil") and len(n.args) == 1:
                return ("(Qceiling %s)" % self.asq(self.tr(n.args[0]))), "Z"
            if f in ("np.floor", "xp.floor", "math.floor") and len(n.args) == 1:
                return ("(Qfloor %s)" % self.asq(self.tr(n.args[0]))), "Z"
            if f in ("abs", "np.abs", "xp.abs") and len(n.args) == 1:
                t, ty = self.tr(n.args[0])
                return ("(Z.abs %s)" % t, "Z") if ty == "Z" else ("(Qabs %s)" % t, "Q")
            if f == "int" and len(n.args) == 1:
                t, ty = self.tr(n.args[0])
                if ty == "Z":
                    return t, "Z"
                return "(qtrunc %s)" % t, "Z"
            if f in ("xp.clip", "np.clip") and len(n.args) == 3 and not n.keywords:
                a, lo, hi = self.tr(n.args[0]), self.tr(n.args[1]), self.tr(n.args[2])
                if a[1] == lo[1] == hi[1] == "Z":
                    return "(Z.min (Z.max %s %s) %s)" % (a[0], lo[0], hi[0]), "Z"
                raise Untranslatable("clip of non-integers")
            if f in ("max", "min") and len(n.args) == 2 and not n.keywords:
                a, b = self.tr(n.args[0]), self.tr(n.args[1])
                if a[1] == "Z" and b[1] == "Z":
                    return "(Z.%s %s %s)" % (f, a[0], b[0]), "Z"
                return "(Q%s %s %s)" % (f, self.asq(a), self.asq(b)), "Q"
            raise Untranslatable("call %s" % s)
        raise Untranslatable("syntax %s: %s" % (type(n).__name__, s))


def translate(repo):
    """-> ({group: text}, errors)"""
    head = ["(* GENERATED by tools/py2v.py from the current source tree -- do not edit.  One definition per whitelisted scalar",
            "   statement of the implementation; Proofs/K<group>.v relates each to the hand-written model. *)",
            "From Coq Require Import ZArith QArith Qround Qabs Qminmax Bool.",
            "From SV Require Import Base.Rounding.",
            "Local Open Scope Q_scope.", ""]
    outs = {}
    trees = {}
    errors = []
    for e in SPEC:
        out = outs.setdefault(e["group"], list(head))
        path = os.path.join(repo, e["file"])
        try:
            if path not in trees:
                trees[path] = ast.parse(open(path).read())
            fn = find_func(trees[path], e["cls"], e["func"])
            cls_body = next((c.body for c in trees[path].body if isinstance(c, ast.ClassDef) and c.name == e["cls"]), [])
            try:
                node = pick(fn, e["what"])
            except Untranslatable:
                followed = follow_helper(fn, cls_body, e["what"])     # the statement may have moved into a method of the class
                if followed is None:
                    raise
                fn, node = followed
            txt, ty = Tr(e, fn, cls_body, picked=node).tr(node)
            if ty != e["ret"]:
                if ty == "Z" and e["ret"] == "Q":
                    txt = "(inject_Z %s)" % txt
                else:
                    raise Untranslatable("result is %s, expected %s" % (ty, e["ret"]))
            params = " ".join("(%s : %s)" % (p, {"B": "bool"}.get(t, t)) for p, t in e["params"])
            out.append("(* %s :: %s%s.%s :: %s *)" % (e["file"], (e["cls"] + ".") if e["cls"] else "", e["func"], e["what"], src(node).replace("*)", "* )")))
            out.append("Definition src_%s %s : %s := %s." % (e["name"], params, {"B": "bool"}.get(e["ret"], e["ret"]), txt))
            out.append("")
        except (Untranslatable, OSError, SyntaxError) as ex:
            errors.append("%s (%s %s): %s" % (e["name"], e["file"], e["func"], ex))
            out.append("(* UNTRANSLATABLE %s: %s *)" % (e["name"], str(ex).replace("*)", "* )")))
            out.append("")
    return dict((g, "\n".join(o) + "\n") for g, o in outs.items()), errors


def main():
    ap = argparse.ArgumentParser()
    ap.add_argument("--repo", default=os.environ.get("VERIF_REPO", "/repo"))
    ap.add_argument("--outdir", default=os.path.join(ROOT, "coq", "Kernels"))
    a = ap.parse_args()
    texts, errors = translate(a.repo)
    for e in errors:
        print("UNTRANSLATABLE " + e)
    # what could be translated is still written: a missing definition makes the group's Proofs/K<group>.v fail, which is the signal
    os.makedirs(a.outdir, exist_ok=True)
    for g, text in sorted(texts.items()):
        out = os.path.join(a.outdir, "Gen%s.v" % g)
        old = open(out).read() if os.path.exists(out) else None
        if old != text:
            open(out, "w").write(text)
            print("py2v: wrote %s (%d definitions)" % (out, text.count("Definition src_")))
    return 1 if errors else 0


if __name__ == "__main__":
    sys.exit(main())
