#!/usr/bin/env python3
"""Which lines and branches of the implementation do the checks reach at all?  Runs every quick check (or those named) with
the implementation-side runners under coverage.py (branch mode), combines the data and writes coverage_audit.txt: per source
file the statements / branches never executed.  An audit aid for strengthening generators -- reaching a line proves nothing,
but a line that is never reached is certainly not checked.

  tools/coverage_audit.py [--tier quick] [C01 C02 ...]"""
import os
import shutil
import subprocess
import sys
import tempfile

ROOT = os.path.dirname(os.path.dirname(os.path.abspath(__file__)))
PY = "/venv/bin/python"


def main():
    args = sys.argv[1:]
    tier = "quick"
    if args and args[0] == "--tier":
        tier = args[1]; args = args[2:]
    pids = args or ["C%02d" % i for i in range(1, 21)]
    repo = os.environ.get("VERIF_REPO", "/repo")
    d = tempfile.mkdtemp(prefix="svcov_")
    evdir = os.path.join(ROOT, "evidence")
    keep = {f: open(os.path.join(evdir, f)).read() for f in os.listdir(evdir)}
    try:
        env = dict(os.environ, VERIF_COVERAGE=d)
        for pid in pids:
            p = subprocess.run(["./vcheck", pid, "--tier", tier], cwd=ROOT, env=env, stdout=subprocess.PIPE, stderr=subprocess.STDOUT, text=True)
            last = [l for l in p.stdout.splitlines() if l.startswith(("PASS", "FAIL"))]
            print(last[-1][:150] if last else p.stdout[-300:], flush=True)
        cov = os.path.join(d, ".coverage")
        subprocess.run([PY, "-m", "coverage", "combine", "--data-file=" + cov, d], stdout=subprocess.DEVNULL, stderr=subprocess.DEVNULL)
        rep = subprocess.run([PY, "-m", "coverage", "report", "--data-file=" + cov, "-m", "--skip-empty", "--omit=*/plots.py,*/_version.py,*/stats.py"],
                             stdout=subprocess.PIPE, stderr=subprocess.STDOUT, text=True, cwd=repo).stdout
        open(os.path.join(ROOT, "coverage_audit.txt"), "w").write("# tools/coverage_audit.py --tier %s %s\n" % (tier, " ".join(pids)) + rep)
        print(rep)
    finally:
        shutil.rmtree(d, ignore_errors=True)
        for f, txt in keep.items():
            open(os.path.join(evdir, f), "w").write(txt)
    return 0


if __name__ == "__main__":
    sys.exit(main())
