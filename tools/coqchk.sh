#!/bin/sh
# Independent re-check of every compiled property file (and all they depend on) with coqchk; prints the axiom list.
set -e
cd "$(dirname "$0")/../coq"
timeout 3000 coqchk -silent -o -Q . SV $(ls Props/*.v | sed 's#Props/\(.*\)\.v#SV.Props.\1#')
