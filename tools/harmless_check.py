#!/usr/bin/env python3
"""Behaviour-preserving refactorings (written by independent sub-agents, each verified bit for bit against the
original code by its own equivalence script) are applied to /repo one at a time and ALL quick checks are run.

  tools/harmless_check.py [--pids=C10,C11] [name ...]        patches live in harmless/<name>/patch.diff

Expected: every check passes.  A VIOLATION with an -impl- replay on such a tree would be a false alarm of a
direct oracle (to be corrected); a `no-failing-input-found` line is the documented cost of a bit-exact or
syntactic tie (model regenerated from the source, binary64 twins) and is recorded, not hidden."""
import json
import os
import subprocess
import sys

ROOT = os.path.dirname(os.path.dirname(os.path.abspath(__file__)))
REPO = os.environ.get("VERIF_REPO", "/repo")      # a snapshot of /repo when run in the background (vp run --with-repo)
PIDS = ["C%02d" % i for i in range(1, 21)]


def sh(cmd, **kw):
    p = subprocess.run(cmd, shell=True, stdout=subprocess.PIPE, stderr=subprocess.STDOUT, text=True, **kw)
    return p.returncode, p.stdout


def main():
    hdir = os.path.join(ROOT, "harmless")
    args = sys.argv[1:]
    pids = PIDS
    if args and args[0].startswith("--pids="):
        pids = args.pop(0)[7:].split(",")            # restrict to some properties (after a change of their checks)
    names = args or sorted(d for d in os.listdir(hdir) if os.path.isdir(os.path.join(hdir, d)))
    rc, out = sh("git -C %s status --porcelain" % REPO)
    if out.strip():
        print("refusing: /repo has local changes\n" + out)
        return 2
    evdir = os.path.join(ROOT, "evidence")
    keep = {f: open(os.path.join(evdir, f)).read() for f in os.listdir(evdir)}
    rp = os.path.join(ROOT, "replays")
    before = set(os.listdir(rp)) if os.path.isdir(rp) else set()
    false_alarms = 0
    try:
        for name in names:
            patch = os.path.join(hdir, name, "patch.diff")
            rc, out = sh("git -C %s apply --check %s" % (REPO, patch))
            if rc != 0:
                print("%s: patch does not apply: %s" % (name, out.strip()[:200]))
                continue
            res = {}
            try:
                sh("git -C %s apply %s" % (REPO, patch))
                for pid in pids:
                    rc, out = sh("./vcheck %s --tier quick" % pid, cwd=ROOT)
                    lines = [l for l in out.splitlines() if l.startswith(("VIOLATION", "PASS", "FAIL", "KNOWN", "ENVIRONMENT"))]
                    if rc == 0:
                        res[pid] = "pass"
                    elif any(l.startswith("VIOLATION") and "-impl-" in l for l in lines):
                        res[pid] = "FALSE-ALARM-WITH-INPUT"
                        false_alarms += 1
                        for f in sorted(set(os.listdir(rp)) - before):
                            if f.startswith(pid + "-impl-"):
                                d = json.load(open(os.path.join(rp, f)))
                                res.setdefault(pid + "_what", []).append("%s: %s" % (d.get("key"), str(d.get("what"))[:300]))
                    else:
                        res[pid] = "tie-broken (no-failing-input-found)"
                    print("%-10s %s %s" % (name, pid, res[pid]), flush=True)
            finally:
                sh("git -C %s checkout -- ." % REPO)
            if pids is PIDS:
                json.dump(res, open(os.path.join(hdir, name, "result.json"), "w"), indent=1)
    finally:
        sh("git -C %s checkout -- ." % REPO)
        sh("python3 tools/py2v.py", cwd=ROOT)
        for f, txt in keep.items():
            open(os.path.join(evdir, f), "w").write(txt)
        if os.path.isdir(rp):
            for f in set(os.listdir(rp)) - before:
                os.remove(os.path.join(rp, f))
    print("false alarms with an input: %d" % false_alarms)
    return 1 if false_alarms else 0


if __name__ == "__main__":
    sys.exit(main())
