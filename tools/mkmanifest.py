#!/usr/bin/env python3
"""Regenerates /verif/MANIFEST.json from the table below (one entry per property)."""
import json
import os

ROOT = os.path.dirname(os.path.dirname(os.path.abspath(__file__)))

NOTE_COMMON = ("Trusted: Coq 8.16.1 kernel + vm_compute (no native_compute), no axioms (Print Assumptions of each theorem recorded in the "
               "evidence), the hand-written Gallina model is tied to /repo by the correspondence run (Python harness, generators and "
               "canonicalisers trusted); numpy/scipy/astropy/blimpy and IEEE arithmetic outside stated exact domains are modelled environment.")

CHECKS = {
    "C18": dict(
        text="Theorems over all operation sequences of unbounded length (guard invariant, refinement of every accepted/rejected "
             "operation to a plain Python list, extend-prefix, label stability, label-at-position, all-members-labelled, by_label "
             "characterisation) about an executable Gallina state machine of Cadence/OrderedCadence; the machine is run by vm_compute "
             "against real Cadence objects on random and exhaustive-short operation sequences after every operation, and the property "
             "statement is re-evaluated directly on the implementation.",
        design="3/C18", technique="source-regenerated index kernels (tools/py2v.py) proved equal to the list semantics + Coq refinement proof (guarded list state machine) + op-sequence correspondence by vm_compute"),
    "C09": dict(
        text="Theorems for all inputs over exact rationals (range for every bit width, monotonicity, the affine formula, zero variance, "
             "prefix of leading samples) and for all call histories (statistics used at call n come from call n - n mod p for p>0 and from the "
             "first call after the last reset otherwise; complex = two independent real quantisers). quantize_real is tied bit for bit to a "
             "PrimFloat (binary64) twin and to the rational model on an exact dyadic domain; RealQuantizer/ComplexQuantizer histories are "
             "run against the refresh state machine; range/monotonicity/formula/zero-variance are re-evaluated on the implementation.",
        design="3/C09", technique="source-regenerated scalar kernels (tools/py2v.py) proved equal to the model + Coq proof over Q + induction on call histories; PrimFloat bit-exact twin; history correspondence"),
    "C08": dict(
        text="Theorems for all (taps, branches), all streams and all admissible chunkings, generic in the sample type and the per-window "
             "function (hence valid for doubles): cached chunked channelisation = one-shot rows, exact spectrum count, interleaved objects "
             "and cache=False calls do not interact; over Z: each output sample is the window-weighted sum of the definition, and the "
             "weighted sum is linear. Model rows (exact integers) are pushed through numpy's FFT and must equal channelize() bit for bit "
             "call by call; chunked-vs-one-shot, complex split, linearity and the O(n^2) DFT definition are evaluated on the implementation.",
        design="3/C08", technique="Coq induction over chunk lists (routing, law-free) + exact-integer correspondence through numpy FFT"),
    "C20": dict(
        text="Theorems over Z for every configuration admitted by the constructor: exact samples-per-block division and whole PFB windows per "
             "block; for every requested sub-block count the sub-block plan is positive, only the last may be short, and sums to the block; a "
             "block draws spb*nb samples (+ one warm-up window at the start); a recording of n blocks draws n*spb*nb + taps*nb; blocks-per-file "
             "distribution sums to n; a backend on existing RAW data records min(requested, available) blocks (the input's count when the "
             "request is omitted, an error when there is neither); get_block_size yields the requested spectra; duration bracket n*tpb <= obs < (n+1)*tpb over Q. The float "
             "expressions (tbin, time_per_block, get_num_blocks) have binary64 twins compared bit for bit with the backend; small recordings "
             "(synthetic backends, and from_data backends with requests above / equal to / below / without the input's block count) "
             "log every antenna request and are compared with the model's request plan; totals, PKTIDX/PKTSTOP/SCANLEN and clocks are checked "
             "against the exact integers on the implementation.",
        design="3/C20", technique="source-regenerated scalar kernels (tools/py2v.py) proved equal to the model + Coq proof over Z (div/mod, induction over blocks) + PrimFloat kernels + request-log correspondence"),
    "C15": dict(
        text="Theorem for every sample type and sum, every delay d <= maxd, every restart instant and every sequence of request sizes larger "
             "than the largest delay: the concatenated output is own[k] + bg[k + maxd - d] (induction over requests with the invariant "
             "'bg_cache = the last d background samples consumed, consumed = delivered + maxd'); set_time forgets all carried-over state; "
             "zero delays (the omitted default) give the plain sum. The model is run with integer-tag sources against MultiAntennaArray "
             "(1-5 antennas, 1-2 pols, interleaved set_time/add_time/reset_start), and the formula is evaluated on the implementation.",
        design="3/C15", technique="Coq induction over request sequences (law-free routing) + integer-tag correspondence"),
    "C11": dict(
        text="Theorems: scaling a sample by c scales its mean by c and variance by c^2 for every sample, hence chi-squared noise built from unit "
             "draws of mean k and variance 2k has mean x_mean and variance 2 x_mean^2/k for every k != 0 (the generator's moments are the stated "
             "hypothesis); truncated noise never falls below its floor and keeps every draw above it; data after = data before + returned array; "
             "estimates = requested parameters whenever the frame has none (fresh frame, after zero_data, after any signals-only suffix of any "
             "history), otherwise the re-estimate; add_signal keeps them; table noise uses entries of the tables, one common row with a shared "
             "index, IndexError on unequal lengths, chi2 deviation sqrt(2k) m / k (the source's expression squares to 2 m^2/k); with no arrays given every entry is the bundled table's row times dt/obs_dt (source-regenerated; identity at obs_dt, proportional to dt, order-preserving), checked on the implementation over 2-6 draws per interpreter on frames of different dt; get_snr and get_intensity are mutually inverse; stream and "
             "background variances add for every history of sources and every antenna, a background source raising every antenna equally. One "
             "generic model is instantiated with exact rationals (theorems) and binary64 (run against the implementation through a recording "
             "subclass of numpy's Generator: requests, returned arrays, data, estimates and intensities bit for bit, quadrature levels to 1e-15 relative because x**2 is libm's pow). PARTIAL: the "
             "distribution of numpy's draws is an oracle -- sampled at 6.5 sigma, not proved; sigma-clipped re-estimates are compared with an "
             "independent reference within 1e-9; sqrt rounding in quadrature sums is covered by the twin, not the theorem.",
        design="3/C11", technique="source-regenerated scalar kernels (tools/py2v.py) proved equal to the model + Coq proof over Q (field/induction) + generic model instantiated at binary64 + recorded-generator correspondence"),
    "C10": dict(
        text="Theorems for all request partitions and op histories about the stream state machine (clock in sample periods, sequential "
             "generator position): concatenated chunked requests = the single request sample for sample (evaluation times and generator "
             "draws) for streams with at most one noise source; sample k at clock+k; clock = last set_time + added times + samples drawn; "
             "update_noise restores clock/flag and advances the generator by exactly the probe; the chirp's central phase difference is "
             "f_start - fch1 + drift*t, negated for descending bands (exact over Q). The two-noise-source case is refuted in the model "
             "(c10_two_noise_sources_refuted) and reported as KNOWN-FINDING D21. Every request of the implementation is rebuilt from the "
             "model's description with numpy from a clone of the generator and compared bit for bit at dyadic rates.",
        design="3/C10", technique="source-regenerated scalar kernels (tools/py2v.py) proved equal to the model + Coq induction over request lists / op histories + generator-indexed correspondence"),
    "C02": dict(
        text="Theorems for all block geometries, both bit depths (q = bytes per complex sample), any antenna/pol/channel counts and every "
             "sub-block plan produced by any num_subblocks >= 1: each write of collect_data_block lands on the cell the GUPPI RAW layout assigns "
             "to (antenna, channel, spectrum, pol, component), every cell of the block is written, distinct samples never share a cell; 4-bit "
             "packing fits int8 and is inverted by both the library's and the standard nibble decoder; a stream cut at any request sizes that "
             "are positive multiples of taps*nb (sub-block, block, file boundaries) channelises to the spectra of the whole stream in order, "
             "hence independent of the partition (generic in sample type: holds for doubles). Every indexed write of the implementation is "
             "logged and compared with the layout model; bytes on disk are decoded independently and compared sample by sample with a "
             "one-shot numpy reference pipeline for several (num_subblocks, blocks_per_file) per configuration.",
        design="3/C02", technique="source-regenerated scalar kernels (tools/py2v.py) proved equal to the model + Coq proof (Z layout arithmetic by nia, finite nibble table, chunking corollary) + write-log and byte-level correspondence"),
    "C04": dict(
        text="Theorems: every valid card renders to exactly 80 bytes and differs from the END card whatever its keyword (ENDTIME-like keys included); padding is (-80n) mod 512 under DIRECTIO (aligned, < 512, zero when "
             "already aligned) and 0 otherwise; an independent reader recovers exactly the emitted blocks for every number of cards (all "
             "header lengths mod 512) and any data; pipeline-owned keys always carry the configuration's values whatever the caller "
             "supplied, every other caller card survives template and configuration; the library's block counters return the number of "
             "blocks written file by file and in total; blocks-per-file distribution sums to the request. The model assembles the header "
             "dictionary and lays out the first block's cards, which are compared byte for byte with the file; files are re-read with an "
             "independent parser, the library readers under every listing permutation, and blimpy.",
        design="3/C04", technique="source-regenerated scalar kernels (tools/py2v.py) proved equal to the model + Coq proof (parse-emit round trip by induction, dictionary lemmas, nat div/mod) + byte-level header correspondence"),
    "C07": dict(
        text="Theorems over exact rationals: the reader-side formula OBSFREQ - OBSBW/2 + (j+1/2)*CHAN_BW applied to the written header gives "
             "fch1 + (start_chan+j)*chan_bw for either sign of chan_bw and any first channel; get_raw_params recovers fch1 and chan_bw; the "
             "sign of CHAN_BW is the orientation; fftshift + concatenation makes the fine-bin label affine with slope chan_bw/L and equal to "
             "coarse centre + bin offset for every FFT length, even or odd; chirp instantaneous frequency = f_start - fch1 + drift*t (negated descending). Header cards and "
             "get_raw_params are compared with the rational model; reducer output shape with the model, its columns with an independent per-channel FFT + fftshift of the same bytes (even and odd lengths). PARTIAL: that a sampled tone peaks "
             "in the bin the DFT assigns is a DSP fact validated by recording tones/chirps and locating them with the file's own header "
             "(library reducer and an independent one), not proved.",
        design="3/C07", technique="source-regenerated scalar kernels (tools/py2v.py) proved equal to the model + Coq field-arithmetic proof over Q (registration algebra) + end-to-end tone location (exploration for the spectral-peak fact)"),
    "C14": dict(
        text="Theorems: the input reader takes sample (spectrum, pol) from the cell the GUPPI layout assigns to it and the 4-bit unpacking "
             "inverts the packing; in every sub-block of every plan and for both bit depths the synthetic spectrum written at an output "
             "column is added to the decoded input sample of the same spectrum and polarisation; the output has at most the input's and at "
             "most the requested number of blocks; the custom deviation handed to the first requantisation is the same at every call "
             "(the unrepaired in-place update is refuted in the model: c14_gain_unrepaired_refuted). The model's sub-block plan drives a "
             "numpy reference of requant(input + scaled synthetic) that must equal the recorded bytes sample for sample; decoded input "
             "blocks, framing and the logged gain sequence are checked directly on the implementation.",
        design="3/C14", technique="Coq proof (layout arithmetic, gain sequence induction) + plan-driven byte-level correspondence"),
    "C12": dict(
        text="PARTIAL by nature: a Gallina function is deterministic, so 'same seed -> same bits' is not a theorem about numpy. Proved: in the "
             "dictionary-heap model of record() no history of earlier recordings (default or caller dictionaries, any objects) changes what a "
             "recording writes, and a caller dictionary can be reused (the in-place variant is refuted: c12_record_unrepaired_refuted); a deep "
             "copy's cells read equal to the original's, are fresh, and no write to one object is observable through the other. Tied to the "
             "code by running (history ; recording) and (recording alone) in separate processes and comparing digests and the model's first "
             "PKTIDX, same backend twice vs fresh backend, seeded frame workflows alone vs after other frames of other resolutions in the same interpreter, copies/pickles of frames from five construction routes mutated on either side, "
             "seed sameness/difference sampling, and an AST scan that every generator is created from a seed argument.",
        design="3/C12", technique="Coq heap model (history independence, copy isolation) + cross-process digest comparison"),
    "C05": dict(
        text="Theorems over exact rationals for every geometry: the frequency axis in memory is fmin + j*df and strictly increasing for both "
             "orientations, fch1 is fmin (ascending) / fmax = fs[F-1] (descending), ts[i] = i*dt, index->frequency->index is the identity, "
             "frequency->index is within half a channel, frames describing one band with opposite orientation flags have equal axes, and "
             "the drift-rate helper follows from the grid. PARTIAL for doubles: the binary64 kernels (numpy's linspace / round in numpy's "
             "order) are compared bit for bit with frames from every construction route, and the round trip / nearest-channel / "
             "monotonicity claims are checked on every channel of every generated frame -- sampling of geometries, not a proof for all doubles.",
        design="3/C05", technique="source-regenerated scalar kernels (tools/py2v.py) proved equal to the model + Coq proof over Q (field/lra, round-half-even lemmas) + PrimFloat bit-exact twins of linspace/get_index"),
    "C06": dict(
        text="Theorems about the rational model of add_signal, for every frame, component form, option set and bounding range: the effective "
             "column slice is always valid (0 <= lo <= hi <= F); data' = data + returned array pixel by pixel; outside the range the data are "
             "the very same values (Leibniz equality, carrier independent) and the returned array is zero; shape, axes and resolutions are "
             "unchanged; what is returned does not depend on prior content, hence successive injections superpose in any order. Each "
             "implementation step is re-computed by the model from the implementation's own data before it (exact on the exact domain), and "
             "additivity, confinement, state preservation (incl. metadata, noise estimates, RNG state), bounded-vs-unbounded and "
             "superposition are evaluated directly on the implementation.",
        design="3/C06", technique="source-regenerated scalar kernels (tools/py2v.py) proved equal to the model + Coq proof over list/slice routing (law-free where possible) + exact-rational correspondence"),
    "C01": dict(
        text="Theorems: with callable components and no options the returned pixel is t_profile(t_i)*f_profile(f_j, path(t_i))*bandpass(f_j) "
             "on the frame's own axes (Leibniz); array / scalar forms agreeing with a callable on the grid normalise to the same values; a function answering with one constant stands for that scalar under every option (smearing, sub-sample integration); an "
             "array path needs tchans+1 values with smearing and tchans without; the smearing loop equals the mean over n copies centred at "
             "p + m*(p_next - p)/n; one sub-step = unsmeared; zero outside the range. The model (incl. sub-sample integration of path / "
             "time / frequency) is compared pixel for pixel with add_signal, exactly where doubles are exact and to 1e-9 otherwise; shipped "
             "families are compared with closed forms (numpy/scipy primitives trusted; RNG families only to envelope/reproducibility).",
        design="3/C01", technique="Coq proof (tabulated matrices, loop-to-closed-form induction) + exact-rational pixel correspondence"),
    "C13": dict(
        text="Theorems: every channel within half a width of the signal centre -- wherever the centre is during the sweep, smearing "
             "sub-steps included -- lies inside the helper's (unclipped) bounding box, for every width > 0, either drift sign and any start "
             "position; inside the box the bounded injection's pixel equals the unbounded one's (Leibniz, shared with C06), so for compact "
             "profiles the helper equals general injection; sub-steps = max(1, ceil(|D|)) >= 1 with no sub-step moving more than a channel and "
             "1 for zero drift, where smearing reduces to the unsmeared pixel; the sweep of -d is the mirror image of +d. The box columns and "
             "sub-step count the helper passes on are compared with the rational model, the box-profile helper array with the model pixel for "
             "pixel, and helper vs general injection (compact everywhere, tailed within FWHM), mirror symmetry and zero-drift smearing are "
             "evaluated on the implementation for all five profile types.",
        design="3/C13", technique="source-regenerated scalar kernels (tools/py2v.py) proved equal to the model + Coq proof over Q (floor/ceiling bounds by lra) + exact-rational and helper-vs-general correspondence"),
    "C17": dict(
        text="Theorems: a slice [l,r) holds exactly columns l..r-1 of data and axis and inherits T, df, dt, orientation, start time and source, "
             "with fch1 per orientation; de-drifting shifts row i by round(|d| i dt/df) towards the start of the drift for either sign (offsets "
             "monotone, never beyond the frame), row 0 is unshifted and the output axis labels its pixels with their input frequencies, a rate "
             "is rejected iff it leaves no channels, a constant-drift path lands within half a channel of one column, metadata are inherited; "
             "spectra / time series are the per-column / per-row sum or mean; normalising is the affine map (x - m)/s of that vector (source-regenerated), giving mean (mean - m)/s and variance var/s^2, i.e. 0 and 1 with the vector's own moments, order kept. The model is compared exactly with get_slice / dedrift / "
             "integrate on frames with distinct integer pixels (synthetic and loaded from .fil/.h5; normalised integrations are compared to 1e-9 with (x - m)/s for m, s from an independent 3-sigma clipping, for arrays and objects), and data, axes, rejection, inherited "
             "attributes, axis carried by Spectrum/TimeSeries and copy-not-view are evaluated on the implementation.",
        design="3/C17", technique="source-regenerated scalar kernels (tools/py2v.py) proved equal to the model + Coq proof (list routing + round-half-even monotonicity over Q) + exact correspondence on integer-tagged frames"),
    "C16": dict(
        text="Theorems: for any carrier and with no arithmetic law assumed, after the injection loop -- completed or interrupted by a raise on "
             "any frame k -- every frame's time axis is the very same object as before, and the loop raises exactly at the first failing "
             "frame; the add-then-subtract variant is refuted on binary64 ((x+o)-o <> x); over exact rationals the callables see "
             "t_i + (t_start - t0), a drifting signal continues one time step (+ the gap) after the previous frame's last row, "
             "overwrite_times makes every slew time exactly t_slew, and the consolidated axis has sum(tchans) entries. On the "
             "implementation: data of every frame vs single-frame injection at shifted times, time axes bit for bit before/after (1, 2, 5 "
             "injections, integer and unix start times, realistic dt), a callback raising on the k-th frame for every k, slices and label "
             "subsets, slew times and consolidation.",
        design="3/C16", technique="source-regenerated scalar kernels (tools/py2v.py) proved equal to the model + Coq induction over frames (law-free, Leibniz) + PrimFloat refutation + bitwise time-axis correspondence"),
    "C19": dict(
        text="Theorems: the index-based generator yields exactly floor((nchans-fchans)/s)+1 pieces, every piece inside the file and one more "
             "would not fit; the frequencies handed to the reader for piece i round to channels [i*s, i*s+fchans) for every header frequency "
             "and resolution of either sign; the two nested while loops of split_array (modelled literally, with fuel that is proved never "
             "to run out) with shifts equal to the tile sizes produce exactly the row-major grid of tiles; every element lies in exactly the "
             "tile (y/th, x/tw), which exists; trimming keeps exactly the full-size tiles. Real .fil files whose pixels encode (row, file "
             "channel) are split and every piece located (count, channels, integrations, frequencies, split_fil files, distribution "
             "helpers); arrays whose values encode (y, x) are tiled and compared with the model's rectangles for all shifts and trim flags.",
        design="3/C19", technique="source-regenerated scalar kernels (tools/py2v.py) proved equal to the model + Coq proof (nested-loop invariants with fuel, nat div/mod) + value-encoded file/array correspondence"),
    "C03": dict(
        text="PARTIAL: blimpy 2.1.4 / h5py / astropy are modelled environment. Proved for setigen's side of the contract: the header written "
             "for a frame reads back to the same geometry (exact MHz<->Hz arithmetic, orientation = sign of foff); file-order flip is an "
             "involution; an independent reader applying fch1 + j*foff sees file column j at the sky frequency of the frame's memory column "
             "(j or F-1-j); after any history of get_waterfall / copy / slice / dedrift / save the writer is handed the frame's current shape "
             "(the refresh-only-when-absent rule is refuted in the model); the helper axes have exactly nchans / n_ints entries and equal the "
             "file axis (np.arange with a float step is refuted on binary64). Real files in both formats after random histories are read back "
             "by setigen, blimpy and the helpers and compared with the frame and with the shape machine.",
        design="3/C03", technique="Coq proof (header algebra over Q, shape state machine over histories, PrimFloat refutation) + real-file correspondence"),
}

PENDING_REASON = "check not built yet in this session (planned in DESIGN.md section 3); no claim is made for it in this commit"


def main():
    props = [json.loads(l)["id"] for l in open(os.path.join(ROOT, "properties.jsonl"))]
    checks = []
    na = []
    extra_na = {}
    p = os.path.join(ROOT, "tools", "not_applicable.json")
    if os.path.exists(p):
        extra_na = json.load(open(p))
    for pid in props:
        if pid in CHECKS:
            c = CHECKS[pid]
            checks.append(dict(
                property_id=pid,
                quick_cmd="./vcheck %s --tier quick" % pid,
                thorough_cmd="./vcheck %s --tier thorough" % pid,
                evidence_file="evidence/%s.json" % pid,
                replay_cmd_template="./vcheck %s --replay {path}" % pid,
                engine="coq-proof+correspondence",
                level_claimed=dict(category="proof", text=c["text"], design_ref=c["design"]),
                level_note=c.get("note", "") + NOTE_COMMON,
                technique=c["technique"]))
        else:
            na.append(dict(property_id=pid, reason=extra_na.get(pid, PENDING_REASON)))
    man = dict(
        version=1,
        setup_cmd="./tools/setup.sh",
        hooks=dict(guard="SETIGEN_VERIF", enable="no source hooks: checks run /repo as is with SETIGEN_VERIF=1 in the environment (unused by the source)",
                   baseline_off_cmd="cd /repo && /venv/bin/python -m pytest -ra -q -p no:cacheprovider --timeout=900 --continue-on-collection-errors",
                   source_commits=[], add_only=True),
        engines=[dict(name="coq-proof+correspondence", path="vcheck", serves_properties=sorted(CHECKS),
                      kind_free_text="Coq 8.16.1 theorems about hand-written executable Gallina models (coq/), re-checked on every run; "
                                     "models evaluated by coqc/vm_compute on generated cases and diffed against /repo's working tree; "
                                     "direct property oracles on the implementation for the failing-input search")],
        checks=checks,
        notes="See DESIGN.md. known_findings.json lists repaired (fixed:) and open findings; seeded/ holds breaking changes used to test the checks.",
        not_applicable=na)
    json.dump(man, open(os.path.join(ROOT, "MANIFEST.json"), "w"), indent=1)
    print("MANIFEST.json: %d checks, %d not claimed" % (len(checks), len(na)))


if __name__ == "__main__":
    main()
