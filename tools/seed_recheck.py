#!/usr/bin/env python3
"""Regression over the kept seeded changes: apply each seeded/<name>/patch.diff to /repo, run the property's
quick check, undo.  Every seed must be reported (exit 1, a VIOLATION line with an -impl- replay).

  tools/seed_recheck.py [name ...]      (default: all)

Never leaves /repo modified: the patch is reversed with `git checkout -- .` in a finally block, and the run
refuses to start if /repo has local changes."""
import json
import os
import subprocess
import sys

ROOT = os.path.dirname(os.path.dirname(os.path.abspath(__file__)))
REPO = os.environ.get("VERIF_REPO", "/repo")      # a snapshot of /repo when run in the background (vp run --with-repo)


def sh(cmd, **kw):
    p = subprocess.run(cmd, shell=True, stdout=subprocess.PIPE, stderr=subprocess.STDOUT, text=True, **kw)
    return p.returncode, p.stdout


def main():
    names = sys.argv[1:] or sorted(os.listdir(os.path.join(ROOT, "seeded")))
    rc, out = sh("git -C %s status --porcelain" % REPO)
    if out.strip():
        print("refusing: /repo has local changes\n" + out)
        return 2
    keep = {}
    evdir = os.path.join(ROOT, "evidence")
    for f in os.listdir(evdir):
        keep[f] = open(os.path.join(evdir, f)).read()
    before = set(os.listdir(os.path.join(ROOT, "replays"))) if os.path.isdir(os.path.join(ROOT, "replays")) else set()
    bad = 0
    rows = []
    try:
        for name in names:
            d = os.path.join(ROOT, "seeded", name)
            patch = os.path.join(d, "patch.diff")
            if not os.path.exists(patch):
                continue
            pid = name.split("-")[0]
            rc, out = sh("git -C %s apply --check %s" % (REPO, patch))
            if rc != 0:
                rows.append((name, "PATCH-DOES-NOT-APPLY", out.strip()[:120]))
                bad += 1
                continue
            try:
                sh("git -C %s apply %s" % (REPO, patch))
                rc, out = sh("./vcheck %s --tier quick" % pid, cwd=ROOT)       # with the build: the scalar kernels are regenerated from the patched tree
            finally:
                sh("git -C %s checkout -- ." % REPO)
            lines = [l for l in out.splitlines() if l.startswith(("VIOLATION", "PASS", "FAIL"))]
            with_input = any(l.startswith("VIOLATION") and "-impl-" in l for l in lines)
            ok = rc == 1 and with_input
            rows.append((name, "caught" if ok else ("caught-without-input" if rc == 1 else "MISSED"), lines[-1][:140] if lines else out[-200:]))
            if not ok:
                bad += 1
            print("%-8s %s" % (name, rows[-1][1]), flush=True)
    finally:
        sh("git -C %s checkout -- ." % REPO)
        sh("python3 tools/py2v.py", cwd=ROOT)           # generated kernels back to the unpatched source
        for f, txt in keep.items():
            open(os.path.join(evdir, f), "w").write(txt)
        rp = os.path.join(ROOT, "replays")
        if os.path.isdir(rp):
            for f in set(os.listdir(rp)) - before:
                os.remove(os.path.join(rp, f))
    json.dump([dict(name=n, result=r, detail=dd) for n, r, dd in rows], open(os.path.join(ROOT, "seeded", "recheck.json"), "w"), indent=1)
    print("%d seeds, %d not caught with an input" % (len(rows), bad))
    return 1 if bad else 0


if __name__ == "__main__":
    sys.exit(main())
