"""C12 -- determinism, history independence, copy isolation.
Recording scenarios are run in separate processes with and without a history of earlier recordings
(default / caller dictionaries, shared backends, array-then-single); digests of what the last
recording wrote must agree, and its first PKTIDX must be what the Gallina dictionary-heap model says.
Frames from every construction route are copied / pickled and mutated on either side."""
import ast
import json
import os
from harness import common as C

IMPORTS = "From Coq Require Import List ZArith.\nFrom SV Require Import Model.History.\nImport ListNotations.\n"


def small_cfg(rng, nants=1, period=None):
    nb = rng.choice([8, 16]); taps = 2
    nchans = rng.randint(1, 3); num_pols = rng.choice([1, 2]); nbits = 8
    bps = 2 * num_pols
    w = rng.randint(1, 3)
    c = dict(sample_rate=float(2 ** 16), fch1=0.0, ascending=True, nb=nb, taps=taps, nchans=nchans, start_chan=0, nants=nants, num_pols=num_pols,
             nbits=nbits, block_size=nants * nchans * taps * bps * w, blocks_per_file=rng.randint(1, 3), num_subblocks=rng.randint(1, 3),
             seed=rng.randint(0, 10 ** 6), noise=[[0.0, 1.0]], num_blocks=rng.randint(1, 4), load_template=rng.random() < 0.3)
    if nants > 1:
        c["delays"] = [0] * nants
        c["bg_noise"] = [[0.0, 0.5]]
    if period is not None:
        c["req"] = dict(period=period, num=4)
        c["dig"] = dict(period=period, num=16)
    return c


KINDS = ["default-dict", "array-then-single", "same-backend", "caller-dict", "single-then-array", "same-backend", "plain", "same-backend", "from-data"]


def gen_pair(rng, i=None):
    """-> (name, history scenario, baseline scenario, model calls); kinds are cycled so every one is exercised in every run"""
    k = rng.choice(KINDS) if i is None else KINDS[i % len(KINDS)]
    if k == "default-dict":
        a, b = small_cfg(rng), small_cfg(rng)
        hist = dict(steps=[dict(cfg=a, dict="default"), dict(cfg=b, dict="default")])
        base = dict(steps=[dict(cfg=b, dict="default")])
        calls = [(0, a), (0, b)]
    elif k == "array-then-single":
        a, b = small_cfg(rng, nants=2), small_cfg(rng)
        hist = dict(steps=[dict(cfg=a, dict="default"), dict(cfg=b, dict="default")])
        base = dict(steps=[dict(cfg=b, dict="default")])
        calls = [(0, a), (0, b)]
    elif k == "single-then-array":
        a, b = small_cfg(rng), small_cfg(rng, nants=2)
        hist = dict(steps=[dict(cfg=a, dict="default"), dict(cfg=b, dict="default")])
        base = dict(steps=[dict(cfg=b, dict="default")])
        calls = [(0, a), (0, b)]
    elif k == "caller-dict":
        a, b = small_cfg(rng), small_cfg(rng)
        cards = {"HELLO": "x", "N1": 5}
        if rng.random() < 0.5:
            cards["PKTIDX"] = 1000
        hist = dict(steps=[dict(cfg=a, dict="shared", cards=cards), dict(cfg=b, dict="shared", cards=cards)])
        base = dict(steps=[dict(cfg=b, dict="own", cards=cards)])
        calls = [(1, a), (1, b)]
    elif k == "same-backend":
        p = [-1, 2, 3, 1][(i or 0) // len(KINDS) % 4] if i is not None else rng.choice([-1, 2, 3, 1])
        a = small_cfg(rng, period=p)
        a["num_blocks"] = rng.choice([2, 3])
        # run 1: backend b1 records twice on source s; run 2: b1 records once, then a fresh identical backend b2 on the same source
        hist = dict(steps=[dict(cfg=a, dict="own", source="s", backend="b1"), dict(cfg=a, dict="own", source="s", backend="b1")])
        base = dict(steps=[dict(cfg=a, dict="own", source="s", backend="b1"), dict(cfg=a, dict="own", source="s", backend="b2")])
        calls = [(1, a), (2, a)]
    elif k == "from-data":
        # a recording with caller cards, then an injection onto it (input header cards are carried over); same scenario on both sides:
        # what is compared is run-to-run identity across processes (with different string-hash seeds)
        a = small_cfg(rng)
        a["load_template"] = rng.random() < 0.5
        cards = dict(("SITE%s" % ch, "v%d" % j) for j, ch in enumerate("ABCDEFG"[:rng.randint(3, 7)]))
        cards["N1"] = 5
        b = dict(a, seed=a["seed"] + 1, noise=[[0.0, 0.1]])
        hist = dict(steps=[dict(cfg=a, dict="own", cards=cards), dict(cfg=b, dict="own", input=0, source="inj", backend="binj")])
        base = hist
        calls = [(1, a)]
    else:
        a = small_cfg(rng)
        hist = dict(steps=[dict(cfg=a, dict="own")])
        base = dict(steps=[dict(cfg=a, dict="own")])
        calls = [(1, a)]
    return k, hist, base, calls


def ast_seed_scan():
    """every generator in the library is created from a seed argument; no global numpy randomness"""
    bad = []
    root = os.path.join(C.REPO, "setigen")
    n = 0
    for dp, _, fs in os.walk(root):
        for f in fs:
            if not f.endswith(".py"):
                continue
            p = os.path.join(dp, f)
            try:
                tree = ast.parse(open(p).read())
            except SyntaxError:
                continue
            for node in ast.walk(tree):
                if isinstance(node, ast.Call) and isinstance(node.func, ast.Attribute):
                    fn = node.func
                    if isinstance(fn.value, ast.Attribute) and fn.value.attr == "random" and isinstance(fn.value.value, ast.Name) and fn.value.value.id in ("np", "xp", "numpy"):
                        n += 1
                        rel = os.path.relpath(p, C.REPO)
                        if fn.attr == "default_rng":
                            if not node.args and not node.keywords:
                                bad.append("%s:%d default_rng() without a seed" % (rel, node.lineno))
                            elif node.args and not (isinstance(node.args[0], ast.Name) and node.args[0].id == "seed"):
                                bad.append("%s:%d default_rng(%s) not fed by the seed argument" % (rel, node.lineno, ast.dump(node.args[0])[:40]))
                        elif rel.startswith("setigen/plots"):
                            continue
                        else:
                            bad.append("%s:%d global np.random.%s" % (rel, node.lineno, fn.attr))
    return n, bad


FOPS = ["obs_chi2", "obs_gauss", "obs_gauss_indep", "obs_tables", "noise_chi2", "noise_gauss", "signal_rfi", "signal_snr", "zero"]
FRES = [(2.0, 1.0), (2.7939677238464355, 18.253611008), (1.3969838619232178, 1.4316557653333333), (0.5, 5.0), (4.0, 0.5)]


def gen_fhist(rng):
    def fr():
        df, dt = rng.choice(FRES)
        ops = [rng.choice(FOPS[:6])] + [rng.choice(FOPS) for _ in range(rng.randint(0, 3))]
        return dict(F=rng.choice([8, 16, 33]), T=rng.choice([2, 4, 7]), df=df, dt=dt, seed=rng.randint(0, 10 ** 6), ops=ops, t_start=rng.choice([0.0, 0, 1.6e9, 59000.5]))
    return dict(history=[fr() for _ in range(rng.randint(1, 3))], target=fr())


def run(ctx):
    rng = ctx.rng
    quick = ctx.tier == "quick"
    ctx.rule = ("pairs of processes: (history ; recording) vs (recording alone) for default-dictionary recordings, array-then-single and "
                "single-then-array, a caller dictionary reused, one backend recording twice vs a fresh backend (quantiser periods -1/1/2/3), "
                "an injection onto a recording with caller cards (from_data), plus the same scenario in another process started with a different PYTHONHASHSEED (determinism); frames from five construction routes copied and pickled, mutated on either "
                "side; seeded frame workflows (bundled-table / explicit-table / direct noise, RFI path, SNR-level signal, zero_data) alone vs after 1-3 other frames of other resolutions in the same interpreter; seed sameness/difference for frames, antennas, arrays, channelised-noise estimate; AST scan for unseeded randomness; "
                "non-trivial = scenario with a history; distinct = distinct scenario")
    ctx.assumptions = ["numpy's generators are deterministic functions of their seed (not a theorem; checked by running twice)",
                       "'different seeds draw different noise' is checked by sampling only"]
    pairs = [gen_pair(rng, i) for i in range(24 if quick else 300)]
    payloads = []
    for (_, hist, base, _) in pairs:
        payloads.append(dict(mode="scenario", cases=[hist]))
        payloads.append(dict(mode="scenario", cases=[base]))
        # determinism: the same scenario in a third process, started with another string-hash seed (set / dict-of-set iteration order)
        payloads.append(dict(mode="scenario", cases=[hist], _env={"PYTHONHASHSEED": str(1 + len(payloads) % 7)}))
    outs = C.run_impl_parallel("c12_impl", payloads)
    # model: first PKTIDX of every call (object 0 = default dict, 1 = caller dict, 2.. = fresh)
    exprs = []
    for (_, hist, base, calls) in pairs:
        heap = "[%s]" % "; ".join(["{| user_cards := []; extra_cards := []; pktidx := %s; pktstart := None |}" %
                                    ("Some 1000%Z" if (i == 1 and any(st.get("cards", {}).get("PKTIDX") for st in hist["steps"])) else "None") for i in range(3)])
        cl = C.glist(["(%d%%nat, {| nblocks := %s; spb := %s; cfg_cards := [] |})" % (o, C.gz(c["num_blocks"]),
                      C.gz(c["block_size"] // (c["nants"] * c["nchans"] * 2 * c["num_pols"]))) for (o, c) in calls])
        exprs.append("map o_pktidx0 (fst (run record %s %s))" % (heap, cl))
    try:
        mvals = C.coq_eval(IMPORTS, exprs, shard=200)
    except Exception as ex:
        ctx.model_error(str(ex)[-1500:]); mvals = [None] * len(pairs)
    for i, (k, hist, base, calls) in enumerate(pairs):
        h, b, h2 = outs[3 * i][0], outs[3 * i + 1][0], outs[3 * i + 2][0]
        small = dict(kind=k, history=hist, baseline=base)
        ctx.count(small, nontrivial=len(hist["steps"]) > 1)
        ctx.tally("scenario", k)
        if h["digest"] != h2["digest"]:
            ctx.impl_violation("not-deterministic", "the same seeded scenario (%s) run in two processes wrote different files" % k, small)
        if h["digest"] != b["digest"]:
            what = "first PKTIDX with history %s, alone %s; cards %s vs %s; NANTS %s vs %s" % (
                [x.get("pktidx", [None])[0] for x in h["info"]][:1], [x.get("pktidx", [None])[0] for x in b["info"]][:1],
                [x.get("ncards") for x in h["info"]][:1], [x.get("ncards") for x in b["info"]][:1],
                [x.get("nants") for x in h["info"]][:1], [x.get("nants") for x in b["info"]][:1])
            key = {"default-dict": "default-dict-history", "array-then-single": "default-dict-history", "single-then-array": "default-dict-history",
                   "caller-dict": "caller-dict-mutated", "same-backend": "backend-history"}.get(k, "history")
            ctx.impl_violation(key, "what the last recording wrote depends on earlier recordings in the process (%s): %s" % (k, what), small)
        if k != "from-data" and mvals[i] is not None and h["info"] and "pktidx" in h["info"][0]:
            got = int(h["info"][0]["pktidx"][0])
            if got != mvals[i][-1]:
                ctx.mismatch("%s: model says the last recording starts at PKTIDX %d, implementation %d" % (k, mvals[i][-1], got), small)
    # frames
    fcases = [dict(fchans=rng.choice([8, 16, 33]), tchans=rng.choice([3, 4, 7]), df=rng.choice([2.0, 2.7939677238464355]), dt=rng.choice([1.0, 18.253611008]),
                   fch1=rng.choice([1e9, 6e9]), ascending=rng.random() < 0.5, seed=rng.randint(0, 999)) for _ in range(6 if quick else 60)]
    fres = []
    for part in C.run_impl_parallel("c12_impl", [dict(mode="frames", cases=ch) for ch in C.chunks(fcases, C.NCPU)]):
        fres.extend(part)
    for c, r in zip(fcases, fres):
        ctx.count(dict(k="frames", c=c), nontrivial=True)
        ctx.tally("frames_orientation", c["ascending"])
        for key, msg in r["fails"]:
            ctx.impl_violation(key, msg, dict(mode="frames", **c))
    scases = [dict(s1=rng.randint(0, 10 ** 6), s2=rng.randint(10 ** 6 + 1, 2 * 10 ** 6)) for _ in range(4 if quick else 40)]
    sres = C.run_impl("c12_impl", dict(mode="seeds", cases=scases))
    for c, r in zip(scases, sres):
        ctx.count(dict(k="seeds", c=c), nontrivial=True)
        for key, msg in r["fails"]:
            ctx.impl_violation(key, msg, dict(mode="seeds", **c))
    # seeded frame workflows: the target alone vs after a history of other frames in the same interpreter (and built twice there)
    hc = [gen_fhist(rng) for _ in range(16 if quick else 200)]
    hp = []
    for c in hc:
        hp.append(dict(mode="fhist", cases=[c]))
        hp.append(dict(mode="fhist", cases=[dict(history=[], target=c["target"])]))
    ho = C.run_impl_parallel("c12_impl", hp)
    for i, c in enumerate(hc):
        h, b = ho[2 * i][0], ho[2 * i + 1][0]
        small = dict(mode="fhist", **c)
        ctx.count(dict(k="fhist", c=c), nontrivial=True)
        for op in c["target"]["ops"]:
            ctx.tally("frame_workflow_op", op)
        if h["digest"] != b["digest"]:
            ctx.impl_violation("frame-history", "a seeded frame (dt=%r, ops %s) differs when other frames (dt %s) were built before it in the same process: noise estimates %r vs alone %r"
                               % (c["target"]["dt"], c["target"]["ops"], [f["dt"] for f in c["history"]], h["stats"], b["stats"]), small)
        elif h["digest"] != h["again"] or b["digest"] != b["again"]:
            ctx.impl_violation("same-seed-differs", "the same seeded frame workflow (t_start=%r) built twice in one process gives different frames (start times %r and %r)"
                               % (c["target"].get("t_start"), b.get("t_start"), b.get("t_start_again")), small)
    n, bad = ast_seed_scan()
    ctx.extra["rng_call_sites_scanned"] = n
    for b in bad:
        ctx.impl_violation("unseeded-randomness", b, dict(mode="ast", site=b))
    ctx.sample(dict(kind=pairs[0][0], history_steps=len(pairs[0][1]["steps"]), digest=outs[0][0]["digest"][:16], info=outs[0][0]["info"][:1]))


def replay(ctx, payload):
    c = payload["case"]
    if "history" in c:
        h = C.run_impl("c12_impl", dict(mode="scenario", cases=[c["history"]]))[0]
        b = C.run_impl("c12_impl", dict(mode="scenario", cases=[c["baseline"]]))[0]
        bad = h["digest"] != b["digest"]
        print("with history:", h["info"][:1]); print("alone       :", b["info"][:1])
    elif c.get("mode") == "fhist":
        h = C.run_impl("c12_impl", dict(mode="fhist", cases=[dict(history=c["history"], target=c["target"])]))[0]
        b = C.run_impl("c12_impl", dict(mode="fhist", cases=[dict(history=[], target=c["target"])]))[0]
        bad = h["digest"] != b["digest"] or h["digest"] != h["again"]
        print("after history:", h["stats"], h["digest"][:16]); print("alone        :", b["stats"], b["digest"][:16])
    elif c.get("mode") == "frames":
        r = C.run_impl("c12_impl", dict(mode="frames", cases=[c]))[0]
        bad = bool(r["fails"]); print(r["fails"])
    else:
        bad = False
    print("replay: property %s on %s" % ("FAILS" if bad else "holds", C.REPO))
    return 1 if bad else 0
