"""C04 -- well-formed GUPPI RAW, owned keys, readers agree.
The Gallina model lays out the cards / END / padding of every block from the header dictionary it
assembles itself (template -> caller cards -> configuration-owned keys); compared byte for byte with
the header regions on disk.  The property is re-evaluated on the files with an independent reader,
the library's own readers under every permutation of the directory listing, and blimpy."""
import json
import math
import os
import re
import string
from harness import common as C

RESERVED = ["NBITS", "CHAN_BW", "NPOL", "BLOCSIZE", "SCANLEN", "TBIN", "NANTS", "OBSNCHAN", "OBSBW", "OBSFREQ",
            "PKTIDX", "PKTSTART", "PKTSTOP", "TELESCOP", "OBSERVER", "SRC_NAME"]
OWNED = ["NBITS", "CHAN_BW", "NPOL", "BLOCSIZE", "SCANLEN", "TBIN", "OBSNCHAN", "OBSBW", "OBSFREQ"]


def gs(s):
    return '"' + s.replace('"', '""') + '"'


def template():
    path = os.path.join(C.REPO, "setigen", "voltage", "assets", "header_template.txt")
    out = []
    for line in open(path).readlines():
        key = line[:8].strip()
        if key != "END":
            out.append((key, line[9:].strip()))
    return out


def g_value(v):
    """python value (as it sits in header_dict) -> Gallina value; numbers are rendered by python"""
    kind = v[0]
    if kind == "str":
        s = v[1]
        return ("Enc %s" if s[:1] == "'" else "Str %s") % gs(s)
    raise ValueError


def g_val_rendered(key, final_entry, rendered):
    if final_entry[0] == "str":
        return g_value(final_entry)
    return "Num %s" % gs(rendered)


def gen_case(rng):
    nb = rng.choice([8, 16])
    taps = rng.choice([1, 2])
    num_pols = rng.choice([1, 2])
    nbits = rng.choice([4, 8])
    nants = rng.choice([1, 1, 2, 3])
    nchans = rng.randint(1, nb // 2)
    bps = 2 * num_pols * nbits // 8
    unit = nants * nchans * taps * bps
    if rng.random() < 0.4 and 512 % unit == 0:
        w = 512 // unit * rng.randint(1, 2)
    elif rng.random() < 0.3 and unit % 512 == 0:
        w = 1
    else:
        w = rng.randint(1, 4)
    c = dict(sample_rate=float(2 ** rng.randint(10, 24)), fch1=rng.choice([0.0, 6e9, 1.5e9]), ascending=rng.random() < 0.5,
             nb=nb, taps=taps, nchans=nchans, start_chan=rng.randint(0, nb // 2 - nchans), nants=nants, num_pols=num_pols, nbits=nbits,
             block_size=unit * w, seed=rng.randint(0, 999), noise=[[0.0, 1.0]], num_blocks=rng.randint(1, 9),
             blocks_per_file=rng.randint(1, 4), num_subblocks=1, load_template=rng.random() < 0.3)
    if rng.random() < 0.25:      # many blocks in one file: a reader with a wrong stride drifts visibly
        c["num_blocks"] = rng.randint(10, 24); c["blocks_per_file"] = rng.randint(8, 24)
    if nants > 1:
        c["delays"] = [0] * nants
    if rng.random() < 0.3:
        # the length asked for in seconds: n and a half blocks' worth must give exactly n blocks (dyadic rates: exact in doubles)
        tpb = (c["block_size"] // (nants * nchans * bps)) * nb / c["sample_rate"]
        c["obs_length"] = (c["num_blocks"] + 0.5) * tpb
    cards = []
    ncards = rng.randint(0, 8) if c["load_template"] else rng.choice([rng.randint(0, 70), rng.randint(0, 12), rng.randint(15, 25)])
    aim_aligned = (not c["load_template"]) and rng.random() < 0.3
    if aim_aligned:
        # 15 pipeline cards (+NANTS for arrays) + DIRECTIO + END + user cards = a multiple of 32 cards (header already 512-aligned)
        base = 15 + (1 if nants > 1 else 0) + 1 + 1
        ncards = (32 - base % 32) % 32 + 32 * rng.randint(0, 1)
    used = set()
    for _ in range(ncards):
        if rng.random() < 0.12 and not aim_aligned:
            k = rng.choice(["NBITS", "NPOL", "OBSNCHAN", "NANTS", "BLOCSIZE", "TBIN", "CHAN_BW", "OBSBW", "OBSFREQ", "SCANLEN", "PKTSTART",
                            "TELESCOP", "OBSERVER", "SRC_NAME", "PKTSTOP"])
        else:
            k = "".join(rng.choice(string.ascii_uppercase + string.digits + "_") for _ in range(rng.randint(1, 8)))
            if k in RESERVED or k in ("END", "DIRECTIO", "PKTIDX"):
                continue
        if k in used:
            continue
        used.add(k)
        r = rng.random()
        if k in ("TELESCOP", "OBSERVER", "SRC_NAME"):
            cards.append([k, "str", rng.choice(["GBT", "ATA", "My Observer"])])
        elif k in ("PKTSTART", "PKTSTOP", "NBITS", "NPOL", "OBSNCHAN", "NANTS", "BLOCSIZE"):
            cards.append([k, "int", rng.randint(0, 10 ** 6)])
        elif r < 0.35:
            cards.append([k, "int", rng.choice([0, 1, -5, rng.randint(-10 ** 9, 10 ** 12)])])
        elif r < 0.6:
            cards.append([k, "float", rng.choice([0.5, -1.25e-7, 187.5, rng.uniform(-1e6, 1e6), rng.uniform(0, 1) * 10 ** rng.randint(-20, 20)])])
        elif r < 0.85:
            n = rng.choice([1, 3, 8, 9, 18, 30, 60])
            cards.append([k, "str", "".join(rng.choice(string.ascii_letters + string.digits + " _-+.:/") for _ in range(n)).strip() or "x"])
        else:
            n = rng.choice([1, 8, 12])
            cards.append([k, "str", "'" + "".join(rng.choice(string.ascii_letters + string.digits + " ") for _ in range(n)).ljust(8) + "'"])
    r = rng.random()
    if aim_aligned:
        while len(cards) < ncards:      # top up (duplicates were skipped above)
            k = "U%d" % len(cards)
            if k not in used:
                used.add(k); cards.append([k, "int", len(cards)])
        cards.insert(rng.randint(0, len(cards)), ["DIRECTIO", "int", 1])
    elif r < 0.55:
        dio = rng.choice([["int", 0], ["int", 1], ["str", "1"], ["str", "'1'"], ["str", "0"], ["int", 2], ["str", "x"]])
        cards.insert(rng.randint(0, len(cards)), ["DIRECTIO", dio[0], dio[1]])
    if rng.random() < 0.3 and not aim_aligned:
        cards.insert(rng.randint(0, len(cards)), ["PKTIDX", "int", rng.choice([0, 1000, 7])])
    if rng.random() < 0.15 and not aim_aligned:
        # a keyword that merely begins with the letters END is an ordinary card; only the blank-padded END card terminates a header
        k = rng.choice(["ENDTIME", "END_MJD", "ENDIAN", "END1", "ENDX"])
        if k not in used:
            used.add(k)
            cards.insert(rng.choice([0, rng.randint(0, len(cards)), len(cards)]), rng.choice([[k, "int", rng.choice([7, 59000])], [k, "str", rng.choice(["late", "MJD 59000"])]]))
    if c["load_template"] and not aim_aligned and rng.random() < 0.6:
        # cards that also exist in the template, with values a truthiness test would drop (0, 0.0) next to ordinary ones: the caller's value wins
        tk = [k for k, _ in template() if k not in RESERVED and k not in ("DIRECTIO", "END") and k not in used]
        for k in rng.sample(tk, min(len(tk), rng.randint(1, 3))):
            used.add(k)
            cards.insert(rng.randint(0, len(cards)), rng.choice([[k, "int", 0], [k, "float", 0.0], [k, "int", 7], [k, "str", "mine"]]))
    c["cards"] = cards
    c["rerecord"] = rng.random() < 0.3
    return c


def directio_of(val):
    """property semantics: padding iff the DIRECTIO card is a non-zero number"""
    if val is None:
        return False
    try:
        return int(str(val).replace("'", "").strip()) != 0
    except ValueError:
        return False


def rhe(x):
    return x


def oracle(c, r, tpl):
    fails = []

    def bad(k, m):
        fails.append((k, m))
    if "error" in r:
        return [("record-raises", "record() raised " + r["error"])]
    n = c["num_blocks"]; bpf = c["blocks_per_file"]
    nfiles = -(-n // bpf)
    want_names = ["c04.%04d.raw" % i for i in range(nfiles)]
    if r["files"] != want_names:
        bad("files", "files %s, expected %s" % (r["files"], want_names))
        return fails
    user = {k: (kind, v) for k, kind, v in c["cards"]}
    pkt0 = int(user["PKTIDX"][1]) if "PKTIDX" in user else 0
    k_global = 0
    actual_counts = []
    for fi, st in enumerate(r["struct"]):
        if isinstance(st, dict):
            bad("framing", "file %d is not well-formed GUPPI RAW for an independent reader: %s" % (fi, st["error"]))
            return fails
        want_n = bpf if fi < nfiles - 1 or n % bpf == 0 else n % bpf
        actual_counts.append(len(st))
        if len(st) != want_n:
            bad("blocks-per-file", "file %d holds %d blocks, expected %d" % (fi, len(st), want_n))
        for b in st:
            h = b["hdr"]
            ncards = len(b["cards"]) + 1
            dio = directio_of(h.get("DIRECTIO"))
            want_pad = (512 - 80 * ncards % 512) % 512 if dio else 0
            if b["pad"] != want_pad or not b["pad_zero"]:
                bad("padding", "block %d: %d cards, DIRECTIO=%r: pad %d bytes, expected %d" % (k_global, ncards, h.get("DIRECTIO"), b["pad"], want_pad))
            if b["ndata"] != c["block_size"] or int(h["BLOCSIZE"]) != c["block_size"]:
                bad("blocsize", "block %d: %d data bytes, BLOCSIZE card %s, configured %d" % (k_global, b["ndata"], h["BLOCSIZE"], c["block_size"]))
            if int(h["PKTIDX"]) != pkt0 + k_global * r["spb"]:
                bad("pktidx", "block %d: PKTIDX %s, expected %d" % (k_global, h["PKTIDX"], pkt0 + k_global * r["spb"]))
            cfg = r["cfg"]
            for key in ("NBITS", "NPOL", "BLOCSIZE", "OBSNCHAN"):
                if int(h[key]) != cfg[key]:
                    bad("owned-" + key, "block %d: %s card %s, configuration %s" % (k_global, key, h[key], cfg[key]))
            for key in ("CHAN_BW", "OBSBW", "OBSFREQ", "SCANLEN", "TBIN"):
                if abs(float(h[key]) - cfg[key]) > 1e-13 * max(1.0, abs(cfg[key])):
                    bad("owned-" + key, "block %d: %s card %s, configuration %r" % (k_global, key, h[key], cfg[key]))
            if cfg["is_array"]:
                if "NANTS" not in h or int(h["NANTS"]) != cfg["NANTS"]:
                    bad("owned-NANTS", "block %d: NANTS card %s, array has %d antennas" % (k_global, h.get("NANTS"), cfg["NANTS"]))
            elif "NANTS" in h and int(h["NANTS"]) != 1:
                bad("owned-NANTS", "block %d: single antenna recorded with NANTS=%s (caller's value not overridden)" % (k_global, h["NANTS"]))
            if "DIRECTIO" in user:
                # the caller's DIRECTIO decides the padding: its numeric value when it has one (0 otherwise), template or not
                try:
                    want_dio = int(str(user["DIRECTIO"][1]).replace("'", "").strip())
                except ValueError:
                    want_dio = 0
                try:
                    got_dio = int(str(h.get("DIRECTIO")).replace("'", "").strip())
                except ValueError:
                    got_dio = None
                if got_dio != want_dio:
                    bad("user-card-changed", "block %d: DIRECTIO card %r, caller gave %r (template %s)" % (k_global, h.get("DIRECTIO"), user["DIRECTIO"][1], "on" if c["load_template"] else "off"))
            for key, (kind, v) in user.items():
                if key in RESERVED or key == "DIRECTIO":
                    continue
                if key not in h:
                    bad("user-card-lost", "block %d: caller's card %s missing" % (k_global, key)); continue
                got = h[key]

                def num(x, conv):
                    try:
                        return conv(x)
                    except ValueError:
                        return None         # not even a number any more
                if kind == "int" and num(got, int) != v:
                    bad("user-card-changed", "block %d: %s = %s, caller gave %r" % (k_global, key, got, v))
                if kind == "float" and num(got, float) != v:
                    bad("user-card-changed", "block %d: %s = %s, caller gave %r" % (k_global, key, got, v))
                if kind == "str" and got.strip("'").strip() != v.strip("'").strip():
                    bad("user-card-changed", "block %d: %s = %r, caller gave %r" % (k_global, key, got, v))
            k_global += 1
    if k_global != n:
        bad("block-count", "%d blocks on disk, %d requested" % (k_global, n))
    lib = r["lib"]
    if "error" in lib:
        bad("reader-raises", "library reader raised %s" % lib["error"])
    else:
        h0 = r["struct"][0][0]["hdr"]
        mine = {k: v.strip("'").strip() if False else v for k, v in h0.items()}
        got = lib["read_header"]
        if set(got.keys()) != set(h0.keys()):
            bad("read-header", "read_header keys differ from the first header on disk")
        if lib["blocks_in_file"] != actual_counts:
            bad("reader-blocks-in-file", "get_blocks_in_file per file %s, an independent reader finds %s (DIRECTIO=%r, %d cards)"
                % (lib["blocks_in_file"], actual_counts, h0.get("DIRECTIO"), len(h0) + 1))
        if any(t != n for t in lib["totals"]):
            bad("reader-total-blocks", "get_total_blocks over directory-listing permutations gives %s, %d blocks were recorded" % (sorted(set(lib["totals"])), n))
        rp = lib["raw_params"]
        cfg = r["cfg"]
        if (rp["num_bits"], rp["num_pols"], rp["block_size"], rp["num_antennas"], rp["num_chans"]) != (cfg["NBITS"], cfg["NPOL"], cfg["BLOCSIZE"], cfg["NANTS"], c["nchans"]):
            bad("raw-params", "get_raw_params %s disagree with the configuration" % rp)
        if abs(rp["fch1"] - c["fch1"]) > 1e-6 * max(1.0, abs(c["fch1"])) or rp["ascending"] != c["ascending"]:
            bad("raw-params", "get_raw_params fch1/orientation %s/%s, antenna %s/%s" % (rp["fch1"], rp["ascending"], c["fch1"], c["ascending"]))
    rr = r.get("rerecord")
    if rr is not None:
        if "error" in rr:
            bad("rerecord-raises", "recording the files again through from_data (two blocks more asked for than they hold) raised %s" % rr["error"])
        elif rr["n_out"] != rr["n_in"]:
            bad("rerecord-blocks", "re-recording %d input blocks with %d requested wrote %d" % (rr["n_in"], rr["n_in"] + 2, rr["n_out"]))
        elif rr["scanlen"]:
            want = rr["n_out"] * rr["spb"] * rr["tbin"][0]
            if abs(rr["scanlen"][0] - want) > 1e-9 * want or abs(rr["obs_length"] - want) > 1e-9 * want:
                bad("rerecord-scanlen", "re-recording (%d blocks on disk, %d asked for): SCANLEN %r / obs_length %r, but blocks x samples per block x TBIN = %r"
                    % (rr["n_out"], rr["n_in"] + 2, rr["scanlen"][0], rr["obs_length"], want))
    dio_card = r["struct"][0][0]["hdr"].get("DIRECTIO")
    blimpy_applicable = dio_card is None or dio_card.replace("'", "").strip() in ("0", "1")   # blimpy only knows DIRECTIO == 1
    if any(k.startswith("END") for k in r["struct"][0][0]["hdr"]):
        blimpy_applicable = False        # blimpy's reader stops at any card that starts with the letters END (guppi.py: line.startswith('END'))
    for fi, bl in enumerate(r["blimpy"] if blimpy_applicable else []):
        if "error" in bl:
            bad("blimpy", "blimpy cannot read file %d: %s" % (fi, bl["error"]))
        elif bl["n"] != actual_counts[fi]:
            bad("blimpy", "blimpy finds %d blocks in file %d, %d were written" % (bl["n"], fi, actual_counts[fi]))
    return fails


def run(ctx):
    rng = ctx.rng
    quick = ctx.tier == "quick"
    tpl = template()
    ctx.rule = ("random caller dictionaries of 0-70 cards (ints, floats, short/long strings, quoted strings, attempts to override every "
                "pipeline-owned key), template on/off, DIRECTIO absent / 0 / 1 / '1' / quoted / 2 / unparseable, caller PKTIDX, 1-9 blocks over "
                "1-4 blocks per file, 1-3 antennas, block sizes that are and are not multiples of 512; non-trivial = more than one block; "
                "distinct = distinct case")
    ctx.assumptions = ["Python's str()/format() of numbers is environment: rendered values are handed to the model",
                       "blimpy.guppi.GuppiRaw is consulted only when BLOCSIZE % 512 == 0 (it aligns relative to the file position)"]
    cases = corpus() + [gen_case(rng) for _ in range(120 if quick else 2000)]
    impl = []
    for part in C.run_impl_parallel("c04_impl", [dict(cases=ch) for ch in C.chunks(cases, C.NCPU)]):
        impl.extend(part)
    preamble = ("From Coq Require Import List String.\nFrom SV Require Import Model.Header.\nImport ListNotations.\nLocal Open Scope string_scope.\n"
                "Definition tpl : dict := %s.\n" % C.glist(["(%s, Enc %s)" % (gs(k), gs(v)) if v[:1] == "'" else "(%s, Str %s)" % (gs(k), gs(v)) for k, v in tpl]))
    exprs = []
    idx = []
    for ci, (c, r) in enumerate(zip(cases, impl)):
        if "error" in r or any(isinstance(s, dict) for s in r["struct"]) or not r["struct"] or not r["struct"][0]:
            continue            # nothing (usable) was written: the oracle reports it; there is no first header to compare with the model
        fin = r["final"]; ren = r["rendered"]
        def uval(k, kind, v):
            if k == "DIRECTIO" and kind == "str":
                try:
                    int(v.replace("'", ""))
                except ValueError:
                    return 'Num "0"'        # the code replaces an unparseable DIRECTIO by 0 (int() parsing is environment)
            return ("Num %s" % gs(format(v, ""))) if kind != "str" else g_value(["str", v])
        user = C.glist(["(%s, %s)" % (gs(k), uval(k, kind, v)) for k, kind, v in c["cards"]])
        # configuration values as python renders them (taken from the final dictionary)
        def num(k):
            return "Num %s" % gs(ren[k]) if k in ren else 'Num ""'
        pkt0 = int(dict((k, v) for k, _, v in c["cards"]).get("PKTIDX", 0))
        hc = ("{| h_nbits := %s; h_chan_bw := %s; h_npol := %s; h_blocsize := %s; h_scanlen := %s; h_tbin := %s; h_nants := %s; "
              "h_is_array := %s; h_obsnchan := %s; h_obsbw := %s; h_obsfreq := %s; h_pktstop_of := fun _ => %s |}"
              % (num("NBITS"), num("CHAN_BW"), num("NPOL"), num("BLOCSIZE"), num("SCANLEN"), num("TBIN"),
                 'Num %s' % gs(str(r["cfg"]["NANTS"])), C.gbool(r["cfg"]["is_array"]), num("OBSNCHAN"), num("OBSBW"), num("OBSFREQ"), num("PKTSTOP")))
        # template strings arrive as python str: the code stores line[9:].strip(), so quoted ones are Enc, bare numbers become Str (and get quoted!)
        d0 = "(add_template tpl %s)" % user if c["load_template"] else user
        d = "(populate %s (Num %s) %s)" % (hc, gs(str(pkt0)), d0)
        h_first = r["struct"][0][0]["hdr"]
        dio = directio_of(h_first.get("DIRECTIO"))
        exprs.append("block_image %s %s %d" % (d, C.gbool(dio), c["block_size"]))
        idx.append(ci)
    try:
        vals = C.coq_eval(preamble, exprs, shard=25)
    except Exception as ex:
        ctx.model_error(str(ex)[-2000:]); vals = None
    model = dict(zip(idx, vals)) if vals is not None else {}
    for ci, (c, r) in enumerate(zip(cases, impl)):
        ctx.count(c, nontrivial=c["num_blocks"] > 1)
        ctx.tally("template", c["load_template"]); ctx.tally("length_given_as", "seconds" if c.get("obs_length") is not None else "blocks"); ctx.tally("user_cards", len(c["cards"]) // 10 * 10)
        dv = next((v for k, _, v in c["cards"] if k == "DIRECTIO"), "absent")
        ctx.tally("directio", repr(dv)); ctx.tally("blocks", c["num_blocks"]); ctx.tally("blocksize_mod_512", c["block_size"] % 512 == 0)
        if "error" not in r and not any(isinstance(s, dict) for s in r["struct"]):
            ctx.tally("cards_mod_32", (len(r["struct"][0][0]["cards"]) + 1) % 32)
        if (r.get("rerecord") or {}).get("not_repeated"):
            ctx.extra.setdefault("rerecord_errors_not_repeated", []).append(r["rerecord"]["not_repeated"][:300])
        for key, msg in oracle(c, r, tpl):
            ctx.impl_violation(key, msg, c)
        if ci in model:
            cards, pad, ndata = model[ci]
            b0 = r["struct"][0][0]
            got = b0["cards"] + ["END".ljust(80)]
            if list(cards) != got:
                k = next((j for j in range(min(len(cards), len(got))) if cards[j] != got[j]), min(len(cards), len(got)))
                ctx.mismatch("first header: card %d differs: model %r, file %r (model %d cards, file %d)"
                             % (k, cards[k] if k < len(cards) else None, got[k] if k < len(got) else None, len(cards), len(got)), c)
            elif pad != b0["pad"] or ndata != b0["ndata"]:
                ctx.mismatch("first block: model pad %d / data %d, file pad %d / data %d" % (pad, ndata, b0["pad"], b0["ndata"]), c)
    ctx.sample(dict(case=dict((k, cases[-1][k]) for k in ("cards", "load_template", "num_blocks", "blocks_per_file", "block_size")),
                    files=impl[-1].get("files"), file_lens=impl[-1].get("file_lens")))


def corpus():
    p = os.path.join(C.ROOT, "corpus", "c04.json")
    return json.load(open(p)) if os.path.exists(p) else []


def replay(ctx, payload):
    c = payload["case"]
    r = C.run_impl("c04_impl", dict(cases=[c]))[0]
    f = oracle(c, r, template())
    for k, m in f:
        print("FAILS: %s: %s" % (k, m))
    print("replay: %d property failure(s) on %s" % (len(f), C.REPO))
    return 1 if f else 0
