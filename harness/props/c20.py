"""C20 -- block / length / sample accounting.
attrs: constructor sizes, get_num_blocks, helpers on realistic configurations against the Z model
and the binary64 kernels (bit-exact).  record: small recordings with every antenna request logged,
compared with the model's request plan; reported totals / header fields / clock checked against the
exact integers of the property."""
import json
import math
import os
from fractions import Fraction
from harness import common as C

IMPORTS = ("From Coq Require Import List ZArith PrimFloat.\nFrom SV Require Import Base.PySeq Base.F64 Model.Backend.\n"
           "Import ListNotations.\n")


def gf(x):
    return "(%s)%%float" % float(x).hex()


def g_cfg(c):
    return ("{| nants := %s; npols := %s; nbits := %s; nchans := %s; taps := %s; nb := %s; block_size := %s; blocks_per_file := %s |}"
            % tuple(C.gz(c[k]) for k in ("nants", "num_pols", "nbits", "nchans", "taps", "nb", "block_size", "blocks_per_file")))


def bps_of(c):
    return 2 * c["num_pols"] * c["nbits"] // 8


def gen_attrs(rng):
    nb = rng.choice([4, 8, 64, 256, 1024, 4096])
    taps = rng.choice([1, 2, 3, 4, 8, 12])
    nchans = rng.randint(1, max(1, min(nb // 2, 64)))
    nants = rng.choice([1, 1, 2, 3])
    num_pols = rng.choice([1, 2])
    nbits = rng.choice([4, 8])
    unit = nants * nchans * taps * (2 * num_pols * nbits // 8)
    k = rng.choice([1, 2, 3, 7, 16, 100, 1024, rng.randint(1, 5000)])
    block_size = unit * k
    if rng.random() < 0.12:
        block_size += rng.randint(1, unit - 1) if unit > 1 else 0      # not admitted
    sr = rng.choice([3e9, 6e9, 1e6, 2.0 ** 31, 2.5e9, rng.uniform(1e6, 6e9), float(rng.randint(10 ** 6, 6 * 10 ** 9))])
    spb = block_size // (nants * nchans * (2 * num_pols * nbits // 8))
    tpb = spb * (nb / sr)
    obs = []
    for _ in range(4):
        r = rng.random()
        n = rng.choice([1, 2, 3, 10, 128, rng.randint(1, 10000)])
        if r < 0.4:
            obs.append(n * tpb)                      # exact multiple (as computed in doubles)
        elif r < 0.6:
            obs.append(float(Fraction(n) * Fraction(spb) * Fraction(nb) / Fraction(sr)))
        else:
            obs.append(rng.uniform(0.2, n + 1.0) * tpb)
    helper = dict(tpb=rng.randint(1, 64) * taps, fftlength=rng.choice([1, 2, 8, 1024]), int_factor=rng.randint(1, 5))
    c = dict(sample_rate=float(sr).hex(), nb=nb, taps=taps, nchans=nchans, nants=nants, num_pols=num_pols, nbits=nbits,
             block_size=block_size, blocks_per_file=rng.randint(1, 5), obs_list=[float(o).hex() for o in obs],
             n_list=[rng.randint(1, 10000) for _ in range(3)], helper=helper, start_chan=0)
    if nants > 1:
        c["delays"] = [0] * nants
    return c


def predicted_trunc_bug(sr, nb, spb, n):
    tbin = nb / sr
    return int((n * (spb * tbin)) / tbin) != n * spb


def gen_record(rng, want_divergent, from_data=False):
    for _ in range(4000):
        nb = rng.choice([4, 8, 16])
        taps = rng.choice([1, 2, 3, 4])
        nchans = rng.randint(1, nb // 2)
        start_chan = rng.randint(0, nb // 2 - nchans)
        nants = rng.choice([1, 1, 2])
        num_pols = rng.choice([1, 2])
        nbits = rng.choice([4, 8])
        w = rng.randint(1, 7)
        bps = 2 * num_pols * nbits // 8
        block_size = nants * nchans * taps * bps * w
        spb = taps * w
        sr = rng.choice([3e9, 1e6, 2.0 ** 20, rng.uniform(1e6, 6e9), float(rng.randint(10 ** 6, 6 * 10 ** 9)), rng.uniform(1e3, 1e5)])
        n = rng.randint(1, 5)
        if want_divergent and not predicted_trunc_bug(sr, nb, spb, n):
            continue
        c = dict(sample_rate=float(sr).hex(), nb=nb, taps=taps, nchans=nchans, start_chan=start_chan, nants=nants, num_pols=num_pols,
                 nbits=nbits, block_size=block_size, blocks_per_file=rng.randint(1, 3), num_subblocks=rng.randint(1, w + 3),
                 seed=rng.randint(0, 10 ** 6), noise=[[0.0, 1.0]])
        if nants > 1:
            c["delays"] = [rng.randint(0, 3) for _ in range(nants)]
            # every request must exceed the largest delay (MultiAntennaArray's own precondition)
            if max(c["delays"]) >= nb * taps:
                c["delays"] = [0] * nants
        if rng.random() < 0.3 and not want_divergent:
            tpb = spb * (nb / sr)
            c["obs_length"] = float(rng.choice([n * tpb, rng.uniform(1.0, 5.5) * tpb])).hex()
        else:
            c["num_blocks"] = n
        if from_data:
            # a backend on existing RAW data: the request may exceed, equal or fall short of what the input holds, or be omitted
            c["input_blocks"] = rng.randint(1, 4)
            c["in_bpf"] = rng.randint(1, 3)
            if "num_blocks" in c and rng.random() < 0.3:
                c["num_blocks"] = None
                c["length_mode"] = rng.choice(["num_blocks", "obs_length"])
        elif rng.random() < 0.04 and "num_blocks" in c:
            c["num_blocks"] = None          # nothing to fall back on: ValueError
        return c
    return None


def f2(x):
    """(mantissa, exponent) from the model -> python float"""
    m, e = x
    return math.ldexp(m, e)


def run(ctx):
    rng = ctx.rng
    quick = ctx.tier == "quick"
    ctx.rule = ("attrs: random admitted and non-admitted (rate, branches, taps, channels, antennas, pols, bits, block size) incl. realistic "
                "sizes; durations at, near and between block multiples; record: small recordings (1-7 windows/block, sub-block counts 1..w+3, "
                "1-5 blocks, 1-3 blocks/file, single antenna and arrays) with every antenna request logged; a third of the record cases are "
                "chosen where double truncation of obs_length/tbin is predicted to lose a sample; non-trivial = admitted configuration")
    ctx.assumptions = ["ceil(T/taps/nsub) computed in doubles equals integer ceiling division for T < 2^53 (exercised, not proved)",
                       "the clock advance is compared with (#samples)*dt to 1e-9 relative (double accumulation)"]
    # ------------------------------------------------------------ attrs
    acases = [gen_attrs(rng) for _ in range(200 if quick else 4000)]
    exprs = []
    for c in acases:
        sr = float.fromhex(c["sample_rate"])
        cfg = g_cfg(c)
        spb = c["block_size"] // (c["nants"] * c["nchans"] * bps_of(c))
        exprs.append("(admitted %s, bps %s, spb %s)" % (cfg, cfg, cfg))
        exprs.append("(obs (f_tbin %s %s), obs (f_time_per_block %s %s %s))" % (C.gz(c["nb"]), gf(sr), C.gz(spb), C.gz(c["nb"]), gf(sr)))
        exprs.append(C.glist(["f_get_num_blocks %s %s %s %s %s %s %s" % (gf(float.fromhex(o)), gf(sr), C.gz(c["nb"]), C.gz(c["nants"]),
                                                                         C.gz(c["nchans"]), C.gz(bps_of(c)), C.gz(c["block_size"]))
                              for o in c["obs_list"]]))
        h = c["helper"]
        exprs.append("get_block_size %s %s %s %s %s %s %s" % (C.gz(c["nants"]), C.gz(h["tpb"]), C.gz(c["nbits"]), C.gz(c["num_pols"]),
                                                              C.gz(c["nchans"]), C.gz(h["fftlength"]), C.gz(h["int_factor"])))
    try:
        vals = C.coq_eval(IMPORTS, exprs, shard=400)
    except Exception as ex:
        ctx.model_error(str(ex)[-1500:]); vals = None
    impl = []
    for part in C.run_impl_parallel("c20_impl", [dict(mode="attrs", cases=ch) for ch in C.chunks(acases, C.NCPU)]):
        impl.extend(part)
    for i, (c, r) in enumerate(zip(acases, impl)):
        ctx.count(dict(k="attrs", c=c), nontrivial=r["admitted"])
        ctx.tally("attrs_admitted", r["admitted"]); ctx.tally("attrs_bits", c["nbits"]); ctx.tally("attrs_nants", c["nants"])
        sr = Fraction(float.fromhex(c["sample_rate"]))
        unit = c["nants"] * c["nchans"] * bps_of(c)
        if vals is not None:
            adm, mb, mspb = vals[4 * i]
            if adm != r["admitted"]:
                ctx.mismatch("constructor assertion: model %s, implementation %s" % (adm, r["admitted"]), c)
        if not r["admitted"]:
            continue
        # ---- property oracle (exact integers)
        if r["spb"] * unit != c["block_size"] or r["bps"] != bps_of(c):
            ctx.impl_violation("spb", "samples_per_block*antennas*channels*bytes != block_size: %s" % r, c)
        tpb_exact = Fraction(r["spb"]) * c["nb"] / sr
        if abs(Fraction(float.fromhex(r["tpb"])) - tpb_exact) > tpb_exact * Fraction(1, 10 ** 12):
            ctx.impl_violation("tpb", "time_per_block %s != spb*nb/rate" % r["tpb"], c)
        for o, n in zip(c["obs_list"], r["num_blocks"]):
            ob = Fraction(float.fromhex(o))
            eps = Fraction(1, 10 ** 9) * max(ob, tpb_exact)
            lo = math.floor((ob - eps) / tpb_exact); hi = math.floor((ob + eps) / tpb_exact)
            if not (lo <= n <= hi):
                ctx.impl_violation("duration", "get_num_blocks(%s)=%d, whole blocks within the duration: %d..%d" % (float.fromhex(o), n, lo, hi), c)
        for n, t in zip(c["n_list"], r["h_total_nb"]):
            if t != n * r["spb"] * c["nb"]:
                ctx.impl_violation("helper-total", "get_total_obs_num_samples(num_blocks=%d)=%d != n*spb*nb" % (n, t), c)
        for nblk, t in zip(r["num_blocks"], r["h_total_obs"]):
            if t != nblk * r["spb"] * c["nb"]:
                ctx.impl_violation("helper-total", "get_total_obs_num_samples(obs_length) = %d disagrees with backend.get_num_blocks*spb*nb = %d" % (t, nblk * r["spb"] * c["nb"]), c)
        h = c["helper"]
        if r["h_spb"] is not None and r["h_spb"] != h["tpb"] * h["fftlength"] * h["int_factor"]:
            ctx.impl_violation("helper-block-size", "get_block_size gives %d spectra per block, asked for %d" % (r["h_spb"], h["tpb"] * h["fftlength"] * h["int_factor"]), c)
        df = sr / c["nb"] / h["fftlength"]
        dt = Fraction(h["int_factor"]) / df
        if abs(abs(Fraction(float.fromhex(r["udr"]))) - df / dt) > (df / dt) * Fraction(1, 10 ** 10):
            ctx.impl_violation("helper-udr", "get_unit_drift_rate %s != df/dt" % r["udr"], c)
        pf = r["pf"]
        if abs(Fraction(float.fromhex(pf["df"])) - df) > df * Fraction(1, 10 ** 12) or abs(Fraction(float.fromhex(pf["dt"])) - dt) > dt * Fraction(1, 10 ** 12):
            ctx.impl_violation("helper-params", "params_from_backend df/dt disagree with the backend", c)
        ffb = r.get("frame_from_backend")
        if ffb is not None and (abs(Fraction(float.fromhex(ffb["df"])) - df) > df * Fraction(1, 10 ** 12) or abs(Fraction(float.fromhex(ffb["dt"])) - dt) > dt * Fraction(1, 10 ** 12)
                                or ffb["tchans"] != pf["tchans"]):
            ctx.impl_violation("frame-from-backend", "Frame.from_backend_params(num_branches=%d, fftlength=%d, int_factor=%d): df %r dt %r tchans %d; the backend gives df %r dt %r, params_from_backend %d spectra"
                               % (c["nb"], h["fftlength"], h["int_factor"], float.fromhex(ffb["df"]), float.fromhex(ffb["dt"]), ffb["tchans"], float(df), float(dt), pf["tchans"]), c)
        # ---- model vs impl
        if vals is not None:
            if (mb, mspb) != (r["bps"], r["spb"]):
                ctx.mismatch("bps/spb: model %s, implementation %s" % ((mb, mspb), (r["bps"], r["spb"])), c)
            m1, e1, mtpb = vals[4 * i + 1]      # Coq prints ((a,b),(c,d)) as (a, b, (c, d))
            mt = (m1, e1)
            if f2(mt) != float.fromhex(r["tbin"]) or f2(mtpb) != float.fromhex(r["tpb"]):
                ctx.mismatch("tbin/time_per_block binary64 kernel differs from the implementation", c)
            if list(vals[4 * i + 2]) != r["num_blocks"]:
                ctx.mismatch("get_num_blocks: binary64 kernel %s, implementation %s" % (vals[4 * i + 2], r["num_blocks"]), c)
            if vals[4 * i + 3] != r["h_block_size"]:
                ctx.mismatch("get_block_size: model %s, implementation %s" % (vals[4 * i + 3], r["h_block_size"]), c)
    ctx.sample(dict(kind="attrs", case=acases[0], impl=impl[0]))

    # ------------------------------------------------------------ record
    nrec = 45 if quick else 600
    rcases = corpus()
    for k in range(nrec):
        c = gen_record(rng, want_divergent=(k % 3 == 0), from_data=(k % 3 == 1))
        if c:
            rcases.append(c)
    exprs = []
    for c in rcases:
        exprs.append("block_requests %s %s true %d%%nat" % (g_cfg(c), C.gz(c["num_subblocks"]), 6))
    try:
        rvals = C.coq_eval(IMPORTS, exprs, shard=400)
    except Exception as ex:
        ctx.model_error(str(ex)[-1500:]); rvals = [None] * len(rcases)
    rimpl = []
    for part in C.run_impl_parallel("c20_impl", [dict(mode="record", cases=ch) for ch in C.chunks(rcases, C.NCPU)]):
        rimpl.extend(part)
    eexprs = []; eidx = []
    for c, r in zip(rcases, rimpl):
        if "error" in r:
            continue
        req = r.get("requested_by_obs") if "obs_length" in c else c.get("num_blocks")
        opt = lambda v: "None" if v is None else "(Some %s)" % C.gz(v)
        eexprs.append("match effective_blocks %s %s with Some n => n | None => (-1)%%Z end" % (opt(req), opt(r.get("input_blocks"))))
        eidx.append(id(c))
    try:
        emodel = dict(zip(eidx, C.coq_eval(IMPORTS, eexprs, shard=400)))
    except Exception as ex:
        ctx.model_error(str(ex)[-1500:]); emodel = {}
    for c, mv, r in zip(rcases, rvals, rimpl):
        ctx.count(dict(k="record", c=c), nontrivial="error" not in r)
        ctx.tally("record_mode", "obs_length" if "obs_length" in c else "num_blocks" if c.get("num_blocks") is not None else "omitted")
        ctx.tally("record_windows_per_block", c["block_size"] // (c["nants"] * c["nchans"] * c["taps"] * bps_of(c)))
        ctx.tally("record_nsub", c["num_subblocks"])
        ctx.tally("record_backend", "from_data" if c.get("input_blocks") else "synthetic")
        nothing_given = ("obs_length" not in c and c.get("num_blocks") is None)
        if "error" in r:
            if nothing_given and not c.get("input_blocks") and r.get("error_type") == "ValueError":
                continue            # no length and no input data to fall back on
            ctx.impl_violation("record-raises", "record() raised %s" % r["error"], c)
            continue
        n = r["num_blocks"]; spb = r["spb"]; nb = c["nb"]; win = c["taps"] * nb
        requested = r.get("requested_by_obs") if "obs_length" in c else c.get("num_blocks")
        inp = r.get("input_blocks")
        if c.get("input_blocks") and inp != c["input_blocks"]:
            ctx.impl_violation("input-blocks", "from_data counts %s blocks in an input of %d" % (inp, c["input_blocks"]), c)
        want_n = min(x for x in (requested, inp) if x is not None) if (requested is not None or inp is not None) else None
        ctx.tally("record_request_vs_input", "n/a" if inp is None else "omitted" if requested is None else "more" if requested > inp else "equal" if requested == inp else "fewer")
        if want_n is None:
            ctx.impl_violation("record-no-length", "record() without a length and without input data must raise ValueError (recorded %d blocks)" % n, c)
            continue
        if n != want_n:
            ctx.impl_violation("effective-blocks", "requested %s blocks with %s available in the input: num_blocks=%d, expected %d" % (requested, inp, n, want_n), c)
        em = emodel.get(id(c))
        if em is not None and em != n:
            ctx.mismatch("effective_blocks: model %s, implementation %d (requested %s, input %s)" % (em, n, requested, inp), c)
        sr = Fraction(float.fromhex(c["sample_rate"]))
        drawn = sum(r["requests"])
        want_drawn = n * spb * nb + (win if n >= 1 else 0)
        if drawn != want_drawn:
            ctx.impl_violation("drawn", "recording of %d blocks drew %d samples, expected n*spb*nb + taps*nb = %d (requests %s)"
                               % (n, drawn, want_drawn, r["requests"]), c)
        if r["total_obs_num_samples"] != n * spb * nb:
            ctx.impl_violation("total-samples-truncated", "total_obs_num_samples=%d, expected n*spb*nb=%d (rate %r, n=%d, spb=%d, nb=%d)"
                               % (r["total_obs_num_samples"], n * spb * nb, float.fromhex(c["sample_rate"]), n, spb, nb), c)
        dt = Fraction(float.fromhex(r["dt"]))
        for adv in [r["clock_adv"]] + r["stream_clock_adv"]:
            a = Fraction(float.fromhex(adv))
            if abs(a - drawn * dt) > Fraction(1, 10 ** 9) * drawn * dt:
                ctx.impl_violation("clock", "clock advanced by %s, samples drawn * dt = %s" % (float(a), float(drawn * dt)), c)
        if float.fromhex(r["obs_length"]) != n * float.fromhex(r["tpb"]):
            ctx.impl_violation("obs-length", "obs_length != num_blocks*time_per_block", c)
        nblk = sum(len(b) for b in r["blocks"])
        if nblk != n:
            ctx.impl_violation("blocks-written", "%d blocks written, num_blocks=%d" % (nblk, n), c)
        flat = [b for f in r["blocks"] for b in f]
        if flat:
            num = lambda v: int(str(v).replace("'", "").strip())       # cards inherited from an input file are carried as (quoted) strings
            p0 = num(flat[0]["PKTSTART"])
            for k, b in enumerate(flat):
                if num(b["PKTIDX"]) != p0 + k * spb or num(b["PKTSTOP"]) != p0 + n * spb or b["ndata"] != c["block_size"]:
                    ctx.impl_violation("pkt", "block %d header PKTIDX/PKTSTOP/BLOCSIZE wrong: %s" % (k, b), c)
                    break
                if float(str(b["SCANLEN"]).replace("'", "")) != float.fromhex(r["obs_length"]):
                    ctx.impl_violation("scanlen", "SCANLEN %s != obs_length %r" % (b["SCANLEN"], float.fromhex(r["obs_length"])), c)
                    break
        if "obs_length" in c:
            ob = Fraction(float.fromhex(c["obs_length"]))
            tpb = Fraction(spb) * nb / sr
            eps = Fraction(1, 10 ** 9) * max(ob, tpb)
            nn = requested if inp is not None else n
            if not (math.floor((ob - eps) / tpb) <= nn <= math.floor((ob + eps) / tpb)):
                ctx.impl_violation("duration", "obs_length %r recorded %d blocks of %r s" % (float(ob), n, float(tpb)), c)
        if mv is not None:
            mreq = [x for blk in mv[:n] for x in blk]
            if mreq != r["requests"]:
                ctx.mismatch("antenna requests: model %s, implementation %s" % (mreq, r["requests"]), c)
    ctx.sample(dict(kind="record", case=rcases[-1], impl=dict((k, rimpl[-1].get(k)) for k in ("requests", "num_blocks", "total_obs_num_samples", "files"))))


def corpus():
    p = os.path.join(C.ROOT, "corpus", "c20.json")
    return json.load(open(p)) if os.path.exists(p) else []


def replay(ctx, payload):
    case = payload["case"]
    mode = "record" if ("num_blocks" in case or "obs_length" in case) else "attrs"
    r = C.run_impl("c20_impl", dict(mode=mode, cases=[case]))[0]
    print(json.dumps(r, indent=1)[:3000])
    if mode == "record" and "error" not in r:
        bad = r["total_obs_num_samples"] != r["num_blocks"] * r["spb"] * case["nb"] or \
            sum(r["requests"]) != r["num_blocks"] * r["spb"] * case["nb"] + case["taps"] * case["nb"]
        print("replay: property %s on %s" % ("FAILS" if bad else "holds", C.REPO))
        return 1 if bad else 0
    return 0
