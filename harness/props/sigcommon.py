"""Shared by C01 / C06 (/ C13 / C16): case generation for Frame.add_signal on a domain where double
arithmetic is exact (integer / dyadic grids, small integer polynomials), Gallina rendering of a case
for Model/Signal.v, and comparison of the model's rationals with the implementation's doubles."""
import math
from fractions import Fraction
from harness import common as C

IMPORTS = ("From Coq Require Import List ZArith QArith Qabs.\nFrom SV Require Import Base.Tab Model.Signal.\nImport ListNotations.\nLocal Open Scope Q_scope.\n"
           "Definition qo (q : Q) : Z * Z := let r := Qred q in (Qnum r, Zpos (Qden r)).\n"
           "Definition run1 (r : result (frame * list (list Q))) : Z * list (list (Z * Z)) * list (list (Z * Z)) :=\n"
           "  match r with Ok (fr', ret) => (0%Z, map (map qo) (data fr'), map (map qo) ret)\n"
           "  | Err ValueError => (1%Z, [], []) | Err TypeError => (2%Z, [], []) | Err IndexError => (3%Z, [], []) end.\n")

ERR = {"ValueError": 1, "TypeError": 2, "IndexError": 3}


def gq(x):
    return C.gq(Fraction(x))


def g_poly(coef, var="x"):
    terms = []
    for k, c in enumerate(coef):
        t = gq(c)
        for _ in range(k):
            t += " * %s" % var
        terms.append(t)
    return " + ".join(terms) if terms else "0"


def g_comp(spec):
    k = spec["kind"]
    if k == "poly":
        return "(CFun (fun x => %s))" % g_poly(spec["coef"])
    if k in ("arr", "list"):
        return "(CArr %s)" % C.glist([gq(v) for v in spec["vals"]])
    if k == "scal":
        return "(CScal %s)" % gq(spec["v"])
    raise ValueError(k)


def g_fprof(spec):
    k = spec["kind"]
    if k == "box":
        return "(fun f fc => if Qle_bool (Qabs (f - fc)) (%s / 2) then 1 else 0)" % gq(spec["w"])
    if k == "tri":
        return "(fun f fc => let r := 1 - Qabs (f - fc) / %s in if Qle_bool 0 r then r else 0)" % gq(spec["w"])
    if k == "quad":
        return "(fun f fc => 1 / (1 + %s * (f - fc) * (f - fc)))" % gq(spec["a"])
    if k == "step":
        return "(fun f fc => (1 / (1 + %s * (f - fc) * (f - fc))) * (if Qle_bool %s f then 1 else (1 # 2)))" % (gq(spec["a"]), gq(spec["f0"]))
    raise ValueError(k)


def g_opts(o):
    return ("{| integrate_path := %s; integrate_t := %s; integrate_f := %s; smear := %s; t_sub := %d%%nat; f_sub := %d%%nat; n_smear := %d%%nat |}"
            % (C.gbool(o.get("integrate_path", False)), C.gbool(o.get("integrate_t", False)), C.gbool(o.get("integrate_f", False)),
               C.gbool(o.get("smear", False)), o.get("t_sub", 10), o.get("f_sub", 10), o.get("n_smear", 10)))


def g_matrix(hexm):
    return C.glist([C.glist([gq(float.fromhex(x)) for x in row]) for row in hexm])


def g_step(c, fmin, data_hex, s):
    fr = "{| T := %d%%nat; F := %d%%nat; df := %s; dt := %s; fmin := %s; t0 := %s; data := %s |}" % (c["T"], c["F"], gq(c["df"]), gq(c["dt"]), gq(fmin), gq(c.get("ts_shift", 0.0) * c["dt"]), g_matrix(data_hex))
    br = "None" if s.get("brange") is None else "(Some (%s, %s))" % (gq(s["brange"][0]), gq(s["brange"][1]))
    bp = "None" if s.get("bp") is None else "(Some %s)" % g_comp(s["bp"])
    return "run1 (add_signal %s %s %s %s %s %s %s)" % (fr, g_comp(s["path"]), g_comp(s["tprof"]), g_fprof(s["fprof"]), bp, br, g_opts(s.get("opts", {})))


def is_exact(c, s):
    o = s.get("opts", {})
    p2 = lambda n: n & (n - 1) == 0
    if s["fprof"]["kind"] in ("quad", "step") or c.get("prior") in ("noise", "float32"):
        return False
    if s["fprof"]["kind"] == "tri" and not p2(int(s["fprof"]["w"])):
        return False
    return all(p2(o.get(k, 1)) for k in ("t_sub", "f_sub", "n_smear"))


def matrix_equal(model, impl_hex, exact):
    """model: list of list of (num, den); impl_hex: list of list of hex doubles"""
    if len(model) != len(impl_hex):
        return False, "row count %d vs %d" % (len(model), len(impl_hex))
    scale = 1.0
    for row in impl_hex:
        for x in row:
            scale = max(scale, abs(float.fromhex(x)))
    for i, (mr, ir) in enumerate(zip(model, impl_hex)):
        if len(mr) != len(ir):
            return False, "row %d length %d vs %d" % (i, len(mr), len(ir))
        for j, (m, x) in enumerate(zip(mr, ir)):
            mv = Fraction(m[0], m[1]); xv = Fraction(float.fromhex(x))
            if exact:
                if mv != xv:
                    return False, "pixel (%d,%d): model %s, implementation %r" % (i, j, mv, float.fromhex(x))
            elif abs(mv - xv) > Fraction(scale) / 10 ** 9:
                return False, "pixel (%d,%d): model %r, implementation %r" % (i, j, float(mv), float.fromhex(x))
    return True, ""


# ---------------------------------------------------------------- generation
def gen_frame(rng, prior_choices=("zero", "ramp")):
    T = rng.randint(1, 6); F = rng.randint(3, 16)
    df = float(rng.choice([1, 2, 4])); dt = float(rng.choice([1, 2]))
    asc = rng.random() < 0.5
    fmin = float(rng.choice([1000, 4096, 100]))
    fch1 = fmin if asc else fmin + (F - 1) * df
    prior = rng.choice(prior_choices)
    if prior == "float32":
        T = max(T, 4); F = max(F, 10); fch1 = fmin if asc else fmin + (F - 1) * df      # enough pixels for the single rounding to matter somewhere
    c = dict(T=T, F=F, df=df, dt=dt, fch1=fch1, ascending=asc, prior=prior, seed=rng.randint(0, 999))
    if rng.random() < 0.25:
        # a frame whose own time axis does not start at 0 (what Cadence.add_signal hands to a frame; exact in doubles: multiples of dt/2)
        c["ts_shift"] = rng.choice([0.5, 3.0, 7.5, 100.0])
    return c, fmin


def gen_comp(rng, kind, n, lo=0, hi=3, center=None, slope=None):
    r = rng.random()
    if kind == "path":
        c0 = center; c1 = slope
        coef = [c0, c1] + ([rng.choice([0, 0.5, -0.25])] if rng.random() < 0.3 else [])
        if r < 0.07:
            return dict(kind="poly", coef=[c0], scalar_return=True)      # a callable that answers with one number for the whole time array
        if r < 0.55:
            return dict(kind="poly", coef=coef)
        if r < 0.85:
            return dict(kind=rng.choice(["arr", "list"]), vals=[sum(cf * t ** k for k, cf in enumerate(coef)) for t in n])
        return dict(kind="scal", v=c0)
    coef = [float(rng.randint(1, 3)), float(rng.choice([0, 1, -0.5]))]
    if r < 0.07:
        return dict(kind="poly", coef=[coef[0]], scalar_return=True)
    if r < 0.45:
        return dict(kind="poly", coef=coef)
    if r < 0.75:
        return dict(kind=rng.choice(["arr", "list"]), vals=[float(rng.randint(lo, hi)) for _ in n])
    return dict(kind="scal", v=float(rng.randint(1, 4)))


def gen_signal(rng, c, fmin, opts_all=True, br_kinds=None):
    T, F, df, dt = c["T"], c["F"], c["df"], c["dt"]
    o = {}
    if opts_all:
        o = dict(integrate_path=rng.random() < 0.3, integrate_t=rng.random() < 0.3, integrate_f=rng.random() < 0.3, smear=rng.random() < 0.35,
                 t_sub=rng.choice([1, 2, 4, 8, 3, 10]), f_sub=rng.choice([1, 2, 4, 3, 10]), n_smear=rng.choice([1, 2, 4, 8, 3, 10]))
    teff = T + (1 if o.get("smear") else 0)
    center = fmin + rng.choice([-2, 0, 1, F // 2, F - 1, F + 1]) * df + rng.choice([0.0, 0.5 * df, -0.25 * df])
    slope = rng.choice([0.0, df / dt, -df / dt, 0.5 * df / dt, 2 * df / dt, -1.5 * df / dt])
    ts_path = [c.get("ts_shift", 0.0) * dt + i * dt for i in range(teff)]
    s = dict(path=gen_comp(rng, "path", ts_path, center=center, slope=slope),
             tprof=gen_comp(rng, "t", range(T)),
             fprof=rng.choice([dict(kind="box", w=float(rng.choice([1, 2, 3, 6])) * df), dict(kind="tri", w=float(rng.choice([1, 2, 4])) * df),
                               dict(kind="box", w=0.5 * df), dict(kind="quad", a=float(rng.choice([1, 0.25])))]),
             opts=o)
    # a discontinuous (box) profile is only compared where the doubles are exact: an edge that falls exactly on a
    # sub-sample position would otherwise flip with the last bit of p + k*dp
    if rng.random() < 0.1:
        # a frequency profile that is NOT a function of f - f_centre alone (the signature is f_profile(f, f_centre) for a reason)
        s["fprof"] = dict(kind="step", a=float(rng.choice([1, 0.25])), f0=fmin + (rng.randint(1, F - 1) - 0.5) * df)
    if c.get("prior") == "float32" and rng.random() < 0.75:
        # data kept in single precision: "data after = data before + signal, rounded once to the data's type" is only put to the test by
        # signal values that are not themselves single-precision numbers -- the rational profile
        s["fprof"] = dict(kind="quad", a=float(rng.choice([1, 0.25, 0.5, 2])))      # dyadic coefficients keep the exact model's rationals small; 1/(1+a x^2) is still no float32
    if s["fprof"]["kind"] == "box" and o:
        for key in ("t_sub", "f_sub", "n_smear"):
            if o[key] & (o[key] - 1):
                o[key] = {3: 4, 10: 8}.get(o[key], 4)
    # bounding range
    kinds = br_kinds or ["none", "none", "inside", "clip-low", "clip-high", "below", "above", "reversed", "zero-width"]
    bk = rng.choice(kinds)
    fmax = fmin + (F - 1) * df
    if bk == "inside":
        a = rng.randint(0, F - 1); b = rng.randint(a, F)
        s["brange"] = [fmin + a * df, fmin + b * df]
    elif bk == "clip-low":
        s["brange"] = [fmin - rng.randint(1, 5) * df, fmin + rng.randint(0, F) * df]
    elif bk == "clip-high":
        s["brange"] = [fmin + rng.randint(0, F - 1) * df, fmax + rng.randint(1, 5) * df]
    elif bk == "below":
        s["brange"] = [fmin - rng.randint(6, 9) * df, fmin - rng.randint(2, 5) * df]
    elif bk == "above":
        s["brange"] = [fmax + rng.randint(2, 4) * df, fmax + rng.randint(5, 9) * df]
    elif bk == "reversed":
        s["brange"] = [fmin + rng.randint(F // 2, F) * df, fmin + rng.randint(0, F // 2) * df]
    elif bk == "zero-width":
        a = rng.randint(0, F)
        s["brange"] = [fmin + a * df, fmin + a * df]
    s["brange_kind"] = bk
    # bandpass: array form needs the length of the (possibly sub-sampled) restricted grid; keep arrays for unbounded, non f-integrated calls
    r = rng.random()
    if r < 0.35:
        s["bp"] = None
    elif r < 0.6:
        s["bp"] = dict(kind="scal", v=float(rng.randint(1, 3)))
    elif r < 0.85 or bk != "none" or o.get("integrate_f"):
        s["bp"] = dict(kind="poly", coef=[1.0, 0.0]) if rng.random() < 0.5 else dict(kind="poly", coef=[-fmin / df + 1.0, 1.0 / df])
    else:
        s["bp"] = dict(kind="arr", vals=[float(rng.randint(0, 3)) for _ in range(F)])
    # occasionally wrong-length arrays (must raise ValueError)
    if rng.random() < 0.06 and s["tprof"]["kind"] in ("arr", "list"):
        s["tprof"]["vals"] = s["tprof"]["vals"] + [1.0]
    if rng.random() < 0.06 and s["path"]["kind"] in ("arr", "list"):
        s["path"]["vals"] = s["path"]["vals"][:-1] if len(s["path"]["vals"]) > 1 else s["path"]["vals"] + [center]
    return s


def evaluate(ctx, cases, impl, fmins):
    """model each step from the implementation's data before it; compare returned array, new data, error class"""
    exprs = []
    index = []
    for ci, (c, r, fmin) in enumerate(zip(cases, impl, fmins)):
        prev = r["prior"]
        for k, (s, st) in enumerate(zip(c["signals"], r["steps"])):
            exprs.append(g_step(c, fmin, prev, s))
            index.append((ci, k))
            if st["err"] is None:
                prev = st["data"]
    try:
        vals = C.coq_eval(IMPORTS, exprs, shard=40)
    except Exception as ex:
        ctx.model_error(str(ex)[-2000:])
        return
    for (ci, k), v in zip(index, vals):
        c = cases[ci]; st = impl[ci]["steps"][k]; s = c["signals"][k]
        code, mdata, mret = v
        icode = 0 if st["err"] is None else ERR.get(st["err"], 9)
        if code != icode:
            ctx.mismatch("signal %d: model outcome %s, implementation %s (%s)" % (k, {0: "ok", 1: "ValueError", 2: "TypeError", 3: "IndexError"}.get(code, code),
                                                                                st["err"] or "ok", st.get("msg", "")), dict(c, signals=[s]))
            continue
        if code != 0:
            continue
        exact = is_exact(c, s)
        # the data before this step is exact only if every earlier injection was
        data_exact = all(is_exact(c, s2) for s2 in c["signals"][:k + 1])
        ok, why = matrix_equal(mret, st["ret"], exact)
        if not ok:
            ctx.mismatch("signal %d returned array: %s" % (k, why), dict(c, signals=[s]))
            continue
        ok, why = matrix_equal(mdata, st["data"], data_exact) if c.get("prior") != "float32" else (True, "")   # float32 data: checked by the additive oracle
        if not ok:
            ctx.mismatch("signal %d data after: %s" % (k, why), dict(c, signals=[s]))


# ---------------------------------------------------------------- direct oracle: the property statement in exact rationals
def _fp(spec):
    k = spec["kind"]
    if k == "box":
        w = Fraction(spec["w"])
        return lambda f, fc: Fraction(1) if abs(f - fc) <= w / 2 else Fraction(0)
    if k == "tri":
        w = Fraction(spec["w"])
        return lambda f, fc: max(Fraction(0), 1 - abs(f - fc) / w)
    a = Fraction(spec["a"])
    if k == "step":
        f0 = Fraction(spec["f0"])
        return lambda f, fc: (1 / (1 + a * (f - fc) ** 2)) * (1 if f >= f0 else Fraction(1, 2))
    return lambda f, fc: 1 / (1 + a * (f - fc) ** 2)


def _fun(spec):
    coef = [Fraction(x) for x in spec["coef"]]
    return lambda x: sum(cf * x ** k for k, cf in enumerate(coef))


def spec_matrix(c, fmin, s):
    """The documented value of every pixel (Fractions), or an error name.  Written from the property text:
    t_profile(t_i) * f_profile(f_j, path(t_i)) * bandpass(f_j), averaged over the sub-sample grids when
    integration / smearing are requested; zero outside the bounding range."""
    T, F = c["T"], c["F"]
    df, dt, fmin = Fraction(c["df"]), Fraction(c["dt"]), Fraction(fmin)
    t0 = Fraction(c.get("ts_shift", 0.0)) * dt          # the frame's own time axis: t_i = ts[0] + i*dt
    o = s.get("opts", {})
    tsub, fsub, nsm = o.get("t_sub", 10), o.get("f_sub", 10), o.get("n_smear", 10)
    smear = o.get("smear", False)
    teff = T + (1 if smear else 0)

    def rhe(q):
        fl = math.floor(q); r = q - fl
        return fl if r < Fraction(1, 2) else fl + 1 if r > Fraction(1, 2) else (fl if fl % 2 == 0 else fl + 1)
    if s.get("brange") is None:
        lo, hi = 0, F
    else:
        i0 = rhe((Fraction(s["brange"][0]) - fmin) / df); i1 = rhe((Fraction(s["brange"][1]) - fmin) / df)
        lo = min(max(i0, 0), F); hi = max(min(max(i1, 0), F), lo)

    def values(spec, n, integrate):
        k = spec["kind"]
        if k == "poly":
            f = _fun(spec)
            if integrate:
                return [sum(f(t0 + (i * tsub + m) * (dt / tsub)) for m in range(tsub)) / tsub for i in range(n)]
            return [f(t0 + i * dt) for i in range(n)]
        if k in ("arr", "list"):
            if len(spec["vals"]) != n:
                return "ValueError"
            return [Fraction(v) for v in spec["vals"]]
        return [Fraction(spec["v"])] * n
    tv = values(s["tprof"], T, o.get("integrate_t", False))
    pv = values(s["path"], teff, o.get("integrate_path", False))
    if tv == "ValueError" or pv == "ValueError":
        return "ValueError"
    bp = s.get("bp")
    ncols = hi - lo
    if bp is not None and bp["kind"] in ("arr", "list") and len(bp["vals"]) != ncols * (fsub if o.get("integrate_f") else 1):
        return "ValueError"
    fp = _fp(s["fprof"])

    def bval(f, k):
        if bp is None:
            return Fraction(1)
        if bp["kind"] == "poly":
            return _fun(bp)(f)
        if bp["kind"] == "scal":
            return Fraction(bp["v"])
        return Fraction(bp["vals"][k])

    def pix(i, f, k):
        if smear:
            dp = (pv[i + 1] - pv[i]) / nsm
            return sum(tv[i] * fp(f, pv[i] + m * dp) / nsm * bval(f, k) for m in range(nsm))
        return tv[i] * fp(f, pv[i]) * bval(f, k)
    out = [[Fraction(0)] * F for _ in range(T)]
    for i in range(T):
        for j in range(lo, hi):
            if o.get("integrate_f"):
                f0 = fmin + lo * df
                out[i][j] = sum(pix(i, f0 + ((j - lo) * fsub + m) * (df / fsub), (j - lo) * fsub + m) for m in range(fsub)) / fsub
            else:
                out[i][j] = pix(i, fmin + j * df, j - lo)
    return out


def check_spec(ctx, cases, impl, fmins, key="pixel-formula"):
    """compare what add_signal returned with the documented pixel values (exactly where doubles are exact)"""
    for c, r, fmin in zip(cases, impl, fmins):
        for k, (s, st) in enumerate(zip(c["signals"], r["steps"])):
            want = spec_matrix(c, fmin, s)
            if want == "ValueError":
                if st["err"] != "ValueError":
                    ctx.impl_violation("bad-input-accepted", "signal %d: a wrong-length array was not rejected with ValueError (%s)" % (k, st["err"] or "ok"), dict(c, signals=[s]))
                continue
            if st["err"] is not None:
                continue       # reported elsewhere (unexpected exceptions)
            exact = is_exact(c, s)
            wm = [[(x.numerator, x.denominator) for x in row] for row in want]
            ok, why = matrix_equal(wm, st["ret"], exact)
            if not ok:
                o = s.get("opts", {})
                ctx.impl_violation(key, "signal %d: returned array differs from the documented value (%s); options %s, forms %s/%s/%s, profile %s"
                                   % (k, why, {kk: v for kk, v in o.items() if v}, s["path"]["kind"], s["tprof"]["kind"], (s.get("bp") or {"kind": "none"})["kind"],
                                      s["fprof"]["kind"]), dict(c, _fmin=fmin, signals=[s]))
