"""C07 -- frequency registration.  Header cards and get_raw_params against the exact rational model;
tones / chirps recorded, reduced (library reducer and an independent one) and located with the file's
own header; reducer output shape against the model."""
import json
import os
from fractions import Fraction
from harness import common as C

IMPORTS = "From Coq Require Import ZArith QArith.\nFrom SV Require Import Model.FreqReg.\n"


def gq(x):
    return C.gq(Fraction(x))


def qout(e):
    return "let q := Qred (%s) in (Qnum q, Zpos (Qden q))" % e


def gen_header(rng):
    nb = rng.choice([8, 16, 32, 64])
    nchans = rng.randint(1, nb // 2)
    start = rng.randint(0, nb // 2 - nchans)
    nants = rng.choice([1, 1, 2])
    num_pols = rng.choice([1, 2]); nbits = rng.choice([4, 8]); taps = rng.choice([2, 4])
    bps = 2 * num_pols * nbits // 8
    c = dict(sample_rate=float(rng.choice([2 ** 20, 2 ** 24, 3 * 2 ** 18, 10 ** 6, 3 * 10 ** 9])), fch1=float(rng.choice([0, 10 ** 9, 6 * 10 ** 9, 1420405752])),
             ascending=rng.random() < 0.5, nb=nb, taps=taps, nchans=nchans, start_chan=start, nants=nants, num_pols=num_pols, nbits=nbits,
             block_size=nants * nchans * taps * bps, blocks_per_file=1, num_subblocks=1, seed=1, noise=[[0.0, 1.0]], load_template=False)
    if nants > 1:
        c["delays"] = [0] * nants
    return c


def gen_tone(rng):
    nb = rng.choice([8, 16, 32])
    taps = 4
    sr = float(2 ** 20)
    cbw = sr / nb
    nchans = rng.randint(1, nb // 2)
    start = rng.randint(0, nb // 2 - nchans)
    ks = [k for k in range(start, start + nchans) if k >= 1]
    if not ks:
        start, nchans, ks = 1, 1, [1]
    k = rng.choice(ks)
    L = rng.choice([16, 32, 64, 15, 9, 33]); I = rng.choice([1, 2, 3])        # odd fine-FFT lengths too
    # a block computed in as many sub-blocks as the backend allows (one antenna query per group of `taps` windows), with a fine FFT that
    # spans many of those queries and the tone far from fch1: the tone must stay where it is however the block is cut up
    many = rng.random() < 0.3
    if many:
        L = rng.choice([32, 64]); k = max(ks)
    asc = rng.random() < 0.5
    fch1 = float(rng.choice([0, 10 ** 9, 6 * 10 ** 9]))
    r = rng.random()
    if r < 0.35:
        frac = rng.choice([m for m in range(-int(0.4 * L), int(0.4 * L) + 1) if m != 0]) / L        # on a fine-bin centre
    else:
        frac = rng.choice([-1, 1]) * rng.uniform(0.03, 0.4)
    if many:
        # the frozen statistics come from the first query alone (`taps` windows): the tone has to complete about a turn within it, or the
        # estimated mean -- subtracted from the whole block -- leaves a DC line as strong as the tone (a quantiser matter, not C07's)
        frac = rng.choice([-1, 1]) * rng.uniform(0.25, 0.4)
        if rng.random() < 0.35:
            frac = round(frac * L) / L
    f = fch1 + (1 if asc else -1) * (k + frac) * cbw
    num_pols = rng.choice([1, 2, 2]); nbits = rng.choice([4, 8, 8]); nants = rng.choice([1, 1, 2])
    rows = rng.choice([2, 4, 6]) * I
    if I > 1 and rng.random() < 0.4:
        rows += rng.randint(1, I - 1)      # spectra that do not fill the last integration: the reducer must drop them from the END
    if (L * rows) % taps:
        rows *= taps            # samples per block must be a multiple of the taps (constructor assertion); matters for odd L
    spb = L * rows
    bps = 2 * num_pols * nbits // 8
    drift = 0.0
    if rng.random() < 0.35 and L >= 15 and not many:
        # move by a few fine bins over the block.  To keep the spectral peak well defined (a DSP matter, not what C07 is about) the sweep
        # stays at least two fine bins inside the coarse channel (no aliasing at the channel edge) and moves at most half a bin per spectrum
        rows = 6 * I
        if (L * rows) % taps:
            rows *= taps
        spb = L * rows
        frac = max(-(0.5 - 5.0 / L), min(0.5 - 5.0 / L, frac))
        if abs(frac) < 0.03:
            frac = 0.03
        f = fch1 + (1 if asc else -1) * (k + frac) * cbw
        dur = spb * nb / sr
        drift = rng.choice([-1, 1]) * rng.uniform(1.0, 3.0) * (cbw / L) / dur
    fast = (not many) and drift == 0.0 and rng.random() < 0.2
    if fast:
        # a fast chirp: 3.2-4.5 fine bins per spectrum over eight spectra of a 64-point fine FFT, the whole sweep well inside the coarse channel.
        # Where each spectrum finds it shows WHEN its samples were taken: a sub-block written at the wrong place in the block moves it by
        # more than the tolerance (one and a half bins plus half the sweep of a spectrum)
        L = 64; I = 1; rows = 8; spb = L * rows
        per_row = rng.uniform(3.2, 4.5) * rng.choice([-1, 1])
        frac = -per_row * rows / 2 / L + rng.uniform(-0.02, 0.02)
        f = fch1 + (1 if asc else -1) * (k + frac) * cbw
        dur = spb * nb / sr
        drift = (1 if asc else -1) * per_row * rows * (cbw / L) / dur
    near = (not many) and (not fast) and drift == 0.0 and rng.random() < 0.12
    if near:
        # a tone a few fine bins from the centre of its coarse channel, in a block computed in the maximal number of sub-blocks with the
        # quantisers' DEFAULT statistics (re-estimated at every call): over one short sub-block such a tone is almost a constant, and it must
        # not be mistaken for an offset to be removed
        # (many recorded channels, so that the requantiser's one mean over the whole sub-block is not dominated by the tone's channel; a fine
        # FFT much longer than a sub-block)
        nb = 32; cbw = sr / nb; nchans = rng.randint(12, 16); start = rng.randint(0, 16 - nchans); k = rng.randint(max(start, 1) + 2, start + nchans - 3)
        L = 512; I = 1; rows = 2; spb = L * rows
        frac = rng.choice([-1, 1]) * rng.uniform(2.6, 4.4) / L
        f = fch1 + (1 if asc else -1) * (k + frac) * cbw
        num_pols = rng.choice([1, 2]); nants = 1; bps = 2 * num_pols * nbits // 8
    second = (not many) and (not fast) and (not near) and drift == 0.0 and rng.random() < 0.15
    if second:
        # the same source recorded twice (ON / OFF scans): the chirp goes on where the clock says, f_start + drift * t with t counted from the
        # start of the FIRST recording -- 2.5 to 3.5 fine bins further per recorded block
        L = 64; I = 1; rows = 8; spb = L * rows; nants = rng.choice([2, 2, 1])
        per_block = rng.uniform(2.5, 3.5) * rng.choice([-1, 1])
        frac = (0.1 if per_block > 0 else -0.1)           # the whole sweep stays on one side of the channel centre (no meeting with a DC line)
        f = fch1 + (1 if asc else -1) * (k + frac) * cbw
        dur = spb * nb / sr
        drift = (1 if asc else -1) * per_block * (cbw / L) / dur
    c = dict(sample_rate=sr, fch1=fch1, ascending=asc, nb=nb, taps=taps, nchans=nchans, start_chan=start, nants=nants, num_pols=num_pols, nbits=nbits,
             block_size=nants * nchans * bps * spb, blocks_per_file=1, num_subblocks=rng.choice([1, 2]), seed=rng.randint(0, 999),
             noise=[[0.0, 0.3]], signals=[dict(f_start=f, drift=drift, level=2.0, phase=rng.uniform(0, 6))], num_blocks=1, load_template=False,
             fftlength=L, int_factor=I, tone_hz=f, drift=drift, k=k, frac=frac, directio=rng.random() < 0.4,
             req=dict(fwhm=8 if nbits == 4 else 32), fast=fast, second=second, near=near)
    if nants > 1:
        c["delays"] = [0] * nants
    if fast or (drift and not second and rng.random() < 0.6):
        # a drifting tone in a block cut into 3 / 5 / 7 sub-blocks, which mostly leaves a shorter last one: every spectrum must still show the
        # tone where f_start + drift*t puts it (statistics frozen for a constant gain, as below)
        c["num_subblocks"] = rng.choice([3, 5, 7])
        c["req"]["period"] = -1
        c["dig"] = dict(period=-1)
    if near:
        c["num_subblocks"] = spb // 32            # sub-blocks of 32 windows
    if many:
        # quantiser statistics frozen after the first call: a constant gain, so that cutting the block up adds no amplitude modulation of its own
        c["num_subblocks"] = spb // taps
        c["req"]["period"] = -1
        c["dig"] = dict(period=-1)
    return c


def run(ctx):
    rng = ctx.rng
    quick = ctx.tier == "quick"
    ctx.rule = ("header: random (sample rate, branches, first channel, channels, antennas, pols, bits, orientation, fch1); tone: single tone or "
                "slow chirp in a recorded coarse channel other than DC, on and off fine-bin centres, within 0.4 channel of the channel centre "
                "but not on it, both orientations, first channel > 0 allowed, 4/8 bit, 1-2 pols, 1-2 antennas, fine FFT 16/32/64, "
                "integration 1-3, padded and unpadded headers, blocks computed in 1, 2 or the maximal number of sub-blocks; non-trivial = start_chan > 0 or descending; distinct = distinct case")
    ctx.assumptions = ["a sampled cosine of baseband frequency g peaks in PFB channel round(g/cbw) and fine bin round(.) -- a DSP fact that is "
                       "validated by these runs, not proved (DESIGN.md section 6)",
                       "header floats are compared with the exact rational model to 1e-12 relative"]
    # ---------------------------------------------------------------- headers
    hcases = [gen_header(rng) for _ in range(40 if quick else 600)]
    exprs = []
    for c in hcases:
        cbw = "(chan_bw %s %s %s)" % (gq(c["sample_rate"]), C.gz(c["nb"]), C.gbool(c["ascending"]))
        h = "(header %s %s %s %s %s %s %s)" % (gq(c["fch1"]), cbw, C.gz(c["start_chan"]), C.gz(c["nchans"]), C.gz(c["nants"]), gq(c["sample_rate"]), C.gz(c["nb"]))
        for fld in ("CHAN_BW", "OBSBW", "OBSFREQ", "TBIN"):
            exprs.append(qout("%s %s" % (fld, h)))
        exprs.append("OBSNCHAN %s" % h)
        exprs.append(qout("reader_chan_centre %s %s" % (h, C.gz(c["nchans"] - 1))))
    try:
        vals = C.coq_eval(IMPORTS, exprs, shard=400)
    except Exception as ex:
        ctx.model_error(str(ex)[-1500:]); vals = None
    himpl = []
    for part in C.run_impl_parallel("c07_impl", [dict(mode="header", cases=ch) for ch in C.chunks(hcases, C.NCPU)]):
        himpl.extend(part)

    def close(a, b):
        a = Fraction(a); b = Fraction(b)
        return abs(a - b) <= Fraction(1, 10 ** 12) * max(abs(a), abs(b), Fraction(1, 10 ** 6))
    for i, (c, r) in enumerate(zip(hcases, himpl)):
        ctx.count(dict(k="header", c=c), nontrivial=(c["start_chan"] > 0 or not c["ascending"]))
        ctx.tally("orientation", "ascending" if c["ascending"] else "descending"); ctx.tally("start_chan>0", c["start_chan"] > 0)
        sr = Fraction(c["sample_rate"]); cbw = sr / c["nb"] * (1 if c["ascending"] else -1); fch1 = Fraction(c["fch1"])
        # property oracle: header-derived centre of every recorded channel j = fch1 + (start+j)*cbw
        obsfreq = Fraction(float.fromhex(r["OBSFREQ"])); obsbw = Fraction(float.fromhex(r["OBSBW"])); hcbw = Fraction(float.fromhex(r["CHAN_BW"]))
        for j in (0, c["nchans"] - 1):
            got = (obsfreq - obsbw / 2 + (j + Fraction(1, 2)) * hcbw) * 10 ** 6
            want = fch1 + (c["start_chan"] + j) * cbw
            if abs(got - want) > abs(cbw) * Fraction(1, 10 ** 6):
                ctx.impl_violation("header-locates-channel", "recorded channel %d: header-derived centre %r Hz, antenna says %r Hz" % (j, float(got), float(want)), c)
                break
        if not close(float.fromhex(r["rp_fch1"]), fch1) and abs(Fraction(float.fromhex(r["rp_fch1"])) - fch1) > abs(cbw) * Fraction(1, 10 ** 6):
            ctx.impl_violation("raw-params-fch1", "get_raw_params fch1 %r, antenna fch1 %r" % (float.fromhex(r["rp_fch1"]), float(fch1)), c)
        if not close(float.fromhex(r["rp_chan_bw"]), cbw) or r["rp_asc"] != c["ascending"] or r["rp_nchans"] != c["nchans"]:
            ctx.impl_violation("raw-params", "get_raw_params chan_bw/orientation/nchans = %r/%s/%d" % (float.fromhex(r["rp_chan_bw"]), r["rp_asc"], r["rp_nchans"]), c)
        if r["OBSNCHAN"] != c["nchans"] * c["nants"] or not close(float.fromhex(r["TBIN"]), Fraction(c["nb"]) / sr):
            ctx.impl_violation("header-obsnchan-tbin", "OBSNCHAN/TBIN cards %s/%s" % (r["OBSNCHAN"], float.fromhex(r["TBIN"])), c)
        if vals is not None:
            m = vals[6 * i:6 * i + 6]
            for fld, mv in zip(("CHAN_BW", "OBSBW", "OBSFREQ", "TBIN"), m[:4]):
                if not close(float.fromhex(r[fld]), Fraction(mv[0], mv[1])):
                    ctx.mismatch("%s: model %r, header card %r" % (fld, float(Fraction(mv[0], mv[1])), float.fromhex(r[fld])), c)
            if m[4] != r["OBSNCHAN"]:
                ctx.mismatch("OBSNCHAN: model %s, header %s" % (m[4], r["OBSNCHAN"]), c)
    # ---------------------------------------------------------------- tones
    tcases = corpus() + [gen_tone(rng) for _ in range(40 if quick else 800)]
    exprs = ["reducer_shape %s %s %s %s" % (C.gz(c["block_size"] // (c["nants"] * c["nchans"] * (2 * c["num_pols"] * c["nbits"] // 8))), C.gz(c["nchans"]),
                                             C.gz(c["fftlength"]), C.gz(c["int_factor"])) for c in tcases]
    try:
        svals = C.coq_eval(IMPORTS, exprs, shard=400)
    except Exception as ex:
        ctx.model_error(str(ex)[-1500:]); svals = [None] * len(tcases)
    timpl = []
    for part in C.run_impl_parallel("c07_impl", [dict(mode="tone", cases=ch) for ch in C.chunks(tcases, C.NCPU)]):
        timpl.extend(part)
    for c, r, sv in zip(tcases, timpl, svals):
        ctx.count(dict(k="tone", c=c), nontrivial=(c["start_chan"] > 0 or not c["ascending"]))
        ctx.tally("tone_kind", ("fast chirp" if c.get("fast") else "chirp in a second recording" if c.get("second") else "chirp") if c["drift"] else ("tone near the channel centre, maximal partition" if c.get("near") else "tone")); ctx.tally("fftlength", c["fftlength"]); ctx.tally("int_factor", c["int_factor"])
        ctx.tally("tone_bits_pols", "%d/%d" % (c["nbits"], c["num_pols"])); ctx.tally("subblocks", "maximal partition" if c["num_subblocks"] > 7 else c["num_subblocks"])
        fine = r["fine_hz"]
        rows = len(r["indep_peaks_hz"])
        dt_row = c["fftlength"] * c["int_factor"] * r["tbin"]
        for path in ("indep", "lib"):
            pk = r.get(path + "_peaks_hz")
            if pk is None:
                continue
            for row, f in enumerate(pk):
                t_mid = (row + 0.5) * dt_row
                want = c["tone_hz"] + c["drift"] * (r.get("t_offset", 0.0) + t_mid)
                tol = fine * (1.0 if not c["drift"] else 1.5) + abs(c["drift"]) * dt_row / 2
                if abs(f - want) > tol:
                    ctx.impl_violation("tone-location-" + path,
                                       "%s reducer: spectrum %d peaks at %.3f Hz by the file's header, tone is at %.3f Hz (fine bin %.3f Hz; %s, start_chan %d, PFB channel %d)"
                                       % ("library" if path == "lib" else "independent", row, f, want, fine, "ascending" if c["ascending"] else "descending", c["start_chan"], c["k"]), c)
                    break
        if r.get("lib_vs_indep_maxdiff") is not None and r["lib_vs_indep_maxdiff"] > 1e-6:
            ctx.impl_violation("reducer-bins", "get_waterfall_from_raw(fftlength=%d) puts power in other fine bins than a per-channel FFT + fftshift of the same bytes "
                               "(normalised spectra differ by %.3g; peaks at columns %s vs %s)" % (c["fftlength"], r["lib_vs_indep_maxdiff"], r.get("lib_peak_idx"), r["indep_peak_idx"][:len(r.get("lib_peak_idx") or [])]), c)
        if "lib_error" in r:
            ctx.impl_violation("reducer-raises", "get_waterfall_from_raw raised %s" % r["lib_error"], c)
        if "lib_shape" in r:
            spb = r["spb"]
            want = [spb // c["fftlength"] // c["int_factor"], c["nchans"] * c["fftlength"]]
            if r["lib_shape"] != want:
                ctx.impl_violation("reducer-shape", "get_waterfall_from_raw(int_factor=%d, fftlength=%d) returned shape %s, expected %s"
                                   % (c["int_factor"], c["fftlength"], r["lib_shape"], want), c)
            if sv is not None and list(sv) != r["lib_shape"]:
                ctx.mismatch("reducer shape: model %s, implementation %s" % (list(sv), r["lib_shape"]), c)
    ctx.sample(dict(kind="header", case=hcases[0], header=himpl[0]))
    ctx.sample(dict(kind="tone", case=dict((k, tcases[-1][k]) for k in ("nb", "start_chan", "nchans", "ascending", "tone_hz", "drift", "fftlength", "int_factor")),
                    result=dict((k, timpl[-1].get(k)) for k in ("indep_peaks_hz", "lib_peaks_hz", "lib_shape", "fine_hz"))))


def corpus():
    p = os.path.join(C.ROOT, "corpus", "c07.json")
    return json.load(open(p)) if os.path.exists(p) else []


def replay(ctx, payload):
    c = payload["case"]
    mode = "tone" if "tone_hz" in c else "header"
    r = C.run_impl("c07_impl", dict(mode=mode, cases=[c]))[0]
    print(json.dumps(r, indent=1)[:2000])
    return 0
