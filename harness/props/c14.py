"""C14 -- injection onto existing RAW.  The Gallina model supplies the request plan (sub-block
partition per block), the number of output blocks and the assumed input header size; the
implementation side rebuilds requant(input + scaled synthetic) from that plan with numpy and
compares sample by sample; decode, framing and the gain sequence are checked directly."""
import json
import os
from harness import common as C
from harness.props.c20 import g_cfg, bps_of
from harness.props.c02 import nsub_chain

IMPORTS = ("From Coq Require Import List ZArith.\nFrom SV Require Import Base.PySeq Model.Backend Model.RawLayout Model.RawInject.\n"
           "Import ListNotations.\n")


def gen_case(rng):
    nb = rng.choice([8, 16])
    taps = rng.choice([2, 4])
    nchans = rng.randint(1, nb // 2)
    start = rng.randint(0, nb // 2 - nchans)
    nants = rng.choice([1, 1, 2])
    num_pols = rng.choice([1, 2]); nbits = rng.choice([4, 8])
    bps = 2 * num_pols * nbits // 8
    w = rng.randint(1, 6)
    sr = float(2 ** 16)
    asc = rng.random() < 0.5
    in_blocks = rng.randint(1, 5)
    in_bpf = rng.randint(1, 3)
    directio = rng.random() < 0.5
    filler = 0
    if directio and rng.random() < 0.35:
        base = 15 + (1 if nants > 1 else 0) + 1 + 1      # aim at an already aligned (multiple of 32 cards) header
        filler = (32 - base % 32) % 32
    else:
        filler = rng.randint(0, 6)
    cbw = sr / nb
    k = rng.randint(max(start, 1), start + nchans - 1) if start + nchans - 1 >= max(start, 1) else start
    c = dict(sample_rate=sr, fch1=rng.choice([0.0, 1e9]), ascending=asc, nb=nb, taps=taps, nchans=nchans, start_chan=start, nants=nants,
             num_pols=num_pols, nbits=nbits, block_size=nants * nchans * taps * bps * w, seed=rng.randint(0, 999), noise=[[0.0, 1.0]],
             in_blocks=in_blocks, in_bpf=in_bpf, directio=directio, filler=filler, req=dict(fwhm=8 if nbits == 4 else 32),
             inj_seed=rng.randint(0, 999), inj_noise=rng.choice([[], [[0.0, 0.05]]]), digitize=rng.random() < 0.6,
             num_subblocks=rng.randint(1, w + 2), requested=rng.choice([None, rng.randint(1, in_blocks + 2)]), dig_fwhm=rng.choice([32, 8]))
    f = c["fch1"] + (1 if asc else -1) * (k + rng.uniform(-0.3, 0.3)) * cbw
    c["inj_signals"] = [dict(f_start=f, drift=0.0, level=rng.uniform(0.5, 2.0), phase=1.0)]
    if nants > 1:
        c["delays"] = [rng.randint(0, 2) for _ in range(nants)]
    # half of the cases leave the filterbank's response estimate to the backend (made lazily, mid-stream, the first time a sub-block is requantised)
    c["lazy_stds"] = rng.random() < 0.5
    if c["num_pols"] == 2 and rng.random() < 0.3:
        c["npol4"] = True          # the input describes its two polarisations the telescope way: NPOL = 4
    return c


def run(ctx):
    rng = ctx.rng
    quick = ctx.tier == "quick"
    ctx.rule = ("input recordings made by the library (4/8 bit, 1-2 pols, 1-2 antennas, DIRECTIO on/off incl. already aligned headers, 1-5 blocks "
                "over 1-3 per file, last file partial), synthetic tone (+ optional faint noise), digitiser on/off, num_subblocks 1..windows+2, "
                "requested blocks fewer / equal / more than the input or unspecified; non-trivial = at least two first-requantisation calls; "
                "distinct = distinct case")
    ctx.assumptions = ["estimate_channelized_stds is seeded by the harness (factor=200, seed=7) and treated as a constant of the recording",
                       "quantiser statistics refresh on every call (default period): the reference follows the model's sub-block plan",
                       "numpy FFT / mean / std trusted (both sides call them)"]
    cases = corpus() + [gen_case(rng) for _ in range(48 if quick else 700)]
    exprs = []
    for c in cases:
        nout = min(c["requested"], c["in_blocks"]) if c["requested"] is not None else c["in_blocks"]
        cfg = g_cfg(dict(c, blocks_per_file=1))
        chain = nsub_chain(dict(c, blocks_per_file=1), c["num_subblocks"], max(nout, 1))
        w = "(spb %s / taps %s)%%Z" % (cfg, cfg)
        exprs.append("(block_requests %s %s true %d%%nat, %s, out_blocks %s %s)"
                     % (cfg, C.gz(c["num_subblocks"]), max(nout, 1), C.glist(["plan %s %s" % (w, ns) for ns in chain]),
                        "None" if c["requested"] is None else "(Some %s)" % C.gz(c["requested"]), C.gz(c["in_blocks"])))
    try:
        vals = C.coq_eval(IMPORTS, exprs, shard=200)
    except Exception as ex:
        ctx.model_error(str(ex)[-1500:])
        return
    for c, v in zip(cases, vals):
        reqs, plans, nout = v
        c["model_requests"] = [list(x) for x in reqs]
        c["model_plans"] = [list(x) for x in plans]
        c["model_nout"] = nout
    impl = []
    for part in C.run_impl_parallel("c14_impl", [dict(cases=ch) for ch in C.chunks(cases, C.NCPU)]):
        impl.extend(part)
    for c, r in zip(cases, impl):
        small = dict((k, v) for k, v in c.items() if not k.startswith("model_"))
        ctx.tally("input_npol_card", 4 if c.get("npol4") else c["num_pols"]); ctx.tally("response_estimate", "lazy (by the backend, mid-stream)" if c.get("lazy_stds") else "before recording")
        ncalls = max((len(v) for v in r.get("gains", {}).values()), default=0)
        ctx.count(small, nontrivial=ncalls >= 2)
        ctx.tally("bits/pols/ants", "%d/%d/%d" % (c["nbits"], c["num_pols"], c["nants"])); ctx.tally("directio", c["directio"])
        ctx.tally("digitize", c["digitize"]); ctx.tally("requested", "none" if c["requested"] is None else ("<" if c["requested"] < c["in_blocks"] else ("=" if c["requested"] == c["in_blocks"] else ">")))
        ctx.tally("gain_calls", ncalls)
        if "error" in r:
            ctx.impl_violation("raises", "injection onto existing RAW raised: %s (input: %d blocks over %d per file, DIRECTIO=%s, %s header cards)"
                               % (r["error"], c["in_blocks"], c["in_bpf"], c["directio"], r.get("in_cards")), small)
            continue
        ctx.tally("aligned_input_header", r["in_cards"] % 32 == 0 and c["directio"])
        for key, msg in r["fails"]:
            ctx.impl_violation(key, msg, small)
        # framing preserved
        def npol_norm(hs):
            # NPOL = 4 is the telescope's way of writing two polarisations (four real streams); setigen writes 2 and reads both as two
            return [dict(h, NPOL=("2" if str(h.get("NPOL")).strip() == "4" else h.get("NPOL"))) for h in hs]
        if npol_norm(r["in_hdr"]) != npol_norm(r["out_hdr"]) or r["out_ndata"] != [c["block_size"]]:
            ctx.impl_violation("framing", "output framing %s / data sizes %s differ from the input's %s" % (r["out_hdr"], r["out_ndata"], r["in_hdr"]), small)
        want = min(c["requested"], c["in_blocks"]) if c["requested"] is not None else c["in_blocks"]
        if r["n_out"] != want:
            ctx.impl_violation("block-count", "%d output blocks, expected min(requested=%s, input=%d)" % (r["n_out"], c["requested"], c["in_blocks"]), small)
        be = r["be"]
        if (be["block_size"], be["nbits"], be["nchans"], be["npols"], be["nants"], be["input_num_blocks"]) != (c["block_size"], c["nbits"], c["nchans"], c["num_pols"], c["nants"], c["in_blocks"]):
            ctx.impl_violation("from-data-params", "from_data derived %s from the input files" % be, small)
        if c["model_nout"] != r["n_out"]:
            ctx.mismatch("output blocks: model %d, implementation %d" % (c["model_nout"], r["n_out"]), small)
    ctx.sample(dict(case=dict((k, cases[-1][k]) for k in ("nbits", "num_pols", "nants", "block_size", "in_blocks", "in_bpf", "directio", "digitize", "num_subblocks", "requested")),
                    model_requests=cases[-1]["model_requests"][:2], gains=dict(list(impl[-1].get("gains", {}).items())[:1])))


def corpus():
    p = os.path.join(C.ROOT, "corpus", "c14.json")
    return json.load(open(p)) if os.path.exists(p) else []


def replay(ctx, payload):
    c = payload["case"]
    # recompute the plan with the model, then run
    ctx2 = None
    nout = min(c["requested"], c["in_blocks"]) if c["requested"] is not None else c["in_blocks"]
    cfg = g_cfg(dict(c, blocks_per_file=1))
    chain = nsub_chain(dict(c, blocks_per_file=1), c["num_subblocks"], max(nout, 1))
    w = "(spb %s / taps %s)%%Z" % (cfg, cfg)
    v = C.coq_eval(IMPORTS, ["(block_requests %s %s true %d%%nat, %s)" % (cfg, C.gz(c["num_subblocks"]), max(nout, 1), C.glist(["plan %s %s" % (w, ns) for ns in chain]))])[0]
    c["model_requests"] = [list(x) for x in v[0]]; c["model_plans"] = [list(x) for x in v[1]]
    r = C.run_impl("c14_impl", dict(cases=[c]))[0]
    fails = r.get("fails", []) + ([["raises", r["error"]]] if "error" in r else [])
    for k, m in fails:
        print("FAILS: %s: %s" % (k, m))
    print("replay: %d property failure(s) on %s" % (len(fails), C.REPO))
    return 1 if fails else 0
