"""C18 -- cadence = guarded Python list with stable order labels.

Correspondence: random operation sequences run on real Cadence / OrderedCadence objects and
on the Gallina state machine (Model/CadenceList.v, evaluated by vm_compute); the observation
after every operation (error class, returned ids, member ids, labels) must agree.
Oracle: the property statement re-evaluated directly on the implementation's observations
with plain Python lists."""
import itertools
import json
from harness import common as C

IMPORTS = ("From Coq Require Import List ZArith.\nFrom SV Require Import Base.PySeq Model.CadenceList.\n"
           "Import ListNotations.\nOpen Scope Z_scope.\n")
ERRNAME = {0: "ok", 1: "TypeError", 2: "AttributeError", 3: "IndexError", 4: "KeyError", 99: "other"}


# ------------------------------------------------------------------ generation
def gen_pool(rng):
    pool = []
    n_ok = rng.randint(2, 5)
    i = 1
    for _ in range(n_ok):
        pool.append(dict(id=i, kind="frame", cls=0, desc=rng.random() < 0.3)); i += 1        # same band, either orientation flag
    for _ in range(rng.randint(0, 2)):
        pool.append(dict(id=i, kind="frame", cls=rng.choice([1, 2, 3, 4, 6]))); i += 1     # 6: other orientation with the reference's fch1
    for _ in range(rng.randint(0, 2)):
        pool.append(dict(id=i, kind="other")); i += 1
    return pool


def gen_case(rng, maxlen):
    pool = gen_pool(rng)
    ordered = rng.random() < 0.65
    order = "".join(rng.choice("ABCD") for _ in range(rng.choice([1, 2, 3, 6, 6, 6, 8, 10])))
    if rng.random() < 0.3:
        order = "ABACAD"
    prelabels = {}
    if ordered and rng.random() < 0.3:
        for o in pool:
            if o["kind"] == "frame" and rng.random() < 0.3:
                prelabels[str(o["id"])] = rng.choice("ABCDX")
    ids = [o["id"] for o in pool]
    good = [o["id"] for o in pool if o["kind"] == "frame" and o["cls"] == 0]
    ops = []
    est = 0  # rough current length, to aim indices around the interesting boundary

    def pick():
        return rng.choice(good) if rng.random() < 0.8 else rng.choice(ids)

    def idx():
        r = rng.random()
        if r < 0.6:
            return rng.randint(-est - 1, est + 1)
        if r < 0.8:
            return rng.choice([est, est + 1, est + 2, -est - 1, -est - 2, 0, -1])
        return rng.randint(-est - 6, est + 6)

    def bound():
        return None if rng.random() < 0.25 else idx()

    n = rng.randint(1, maxlen)
    for _ in range(n):
        r = rng.random()
        if r < 0.22:
            ops.append(["insert", idx(), pick()]); est += 1
        elif r < 0.38:
            ops.append(["append", pick()]); est += 1
        elif r < 0.46:
            k = rng.randint(0, 3)
            ops.append(["extend", [pick() for _ in range(k)]]); est += k
        elif r < 0.58:
            ops.append(["setitem", idx(), pick()])
        elif r < 0.66:
            ops.append(["delitem", idx()]); est = max(0, est - 1)
        elif r < 0.70:
            ops.append(["delslice", bound(), bound()]); est = max(0, est - 1)
        elif r < 0.76:
            ops.append(["pop", idx()]); est = max(0, est - 1)
        elif r < 0.82:
            ops.append(["getint", idx()])
        elif r < 0.87:
            ops.append(["getslice", bound(), bound()])
        elif r < 0.91:
            ops.append(["getidx", [idx() for _ in range(rng.randint(0, 3))], rng.random() < 0.5])
        elif ordered and r < 0.95:
            ops.append(["setorder", "".join(rng.choice("ABCD") for _ in range(rng.choice([2, 6, 8, 12])))])
        elif ordered:
            ops.append(["bylabel", rng.choice("ABCD")])
        else:
            ops.append(["getint", idx()])
    c = dict(pool=pool, ordered=ordered, order=order, prelabels=prelabels, ops=ops)
    if rng.random() < 0.3:
        c["t_slew"] = rng.choice([30.0, 0.0, 10.5])     # built with t_overwrite=True: re-times what is given at construction; later members keep their own times
    return c


def exhaustive_cases(maxops):
    """All op sequences of length <= maxops over a small pool and a small index range."""
    pool = [dict(id=1, kind="frame", cls=0), dict(id=2, kind="frame", cls=0),
            dict(id=3, kind="frame", cls=1), dict(id=4, kind="other")]
    alphabet = []
    for v in (1, 2, 3, 4):
        alphabet.append(["append", v])
    for i in (-3, -1, 0, 1, 3):
        for v in (1, 2, 3):
            alphabet.append(["insert", i, v])
        alphabet.append(["setitem", i, 2])
        alphabet.append(["delitem", i])
    alphabet.append(["pop", -1])
    cases = []
    for n in range(1, maxops + 1):
        for seq in itertools.product(alphabet, repeat=n):
            for ordered in (True, False):
                cases.append(dict(pool=pool, ordered=ordered, order="AB", prelabels={}, ops=[list(o) for o in seq]))
    return cases


# ------------------------------------------------------------------ model side
def g_obj(case, i):
    o = next(o for o in case["pool"] if o["id"] == i)
    return "(Frame %d%%nat %d%%nat)" % (i, o["cls"]) if o["kind"] == "frame" else "(Other %d%%nat)" % i


def g_opt(b):
    return "None" if b is None else "(Some %s)" % C.gz(b)


def g_str(s):
    return C.glist([C.gz(ord(c)) for c in s])


def g_op(case, op):
    k = op[0]
    if k == "insert":
        return "Insert %s %s" % (C.gz(op[1]), g_obj(case, op[2]))
    if k == "append":
        return "Append %s" % g_obj(case, op[1])
    if k == "extend":
        return "Extend %s" % C.glist([g_obj(case, i) for i in op[1]])
    if k == "setitem":
        return "SetItem %s %s" % (C.gz(op[1]), g_obj(case, op[2]))
    if k == "delitem":
        return "DelItem %s" % C.gz(op[1])
    if k == "delslice":
        return "DelSlice %s %s" % (g_opt(op[1]), g_opt(op[2]))
    if k == "pop":
        return "Pop %s" % C.gz(op[1])
    if k == "getint":
        return "GetInt %s" % C.gz(op[1])
    if k == "getslice":
        return "GetSlice %s %s" % (g_opt(op[1]), g_opt(op[2]))
    if k == "getidx":
        return "GetIdx %s" % C.glist([C.gz(i) for i in op[1]])
    if k == "setorder":
        return "SetOrder %s" % g_str(op[1])
    if k == "bylabel":
        return "ByLabel %s" % C.gz(ord(op[1]))
    raise ValueError(k)


def g_case(case):
    pool = C.glist(["%d%%nat" % o["id"] for o in case["pool"]])
    pre = C.glist(["(%d%%nat, %s)" % (int(k), C.gz(ord(v))) for k, v in sorted(case["prelabels"].items())])
    return "trace %s (init %s %s %s) %s" % (pool, C.gbool(case["ordered"]), g_str(case["order"]), pre,
                                             C.glist([g_op(case, o) for o in case["ops"]]))


# ------------------------------------------------------------------ oracle (property statement on the impl)
def py_insert(lst, i, v):
    l = list(lst); l.insert(i, v); return l


def oracle(case, trace):
    """Returns list of (key, message) property failures on the implementation's observations."""
    fails = []
    kind = {o["id"]: o for o in case["pool"]}
    pos_of = {o["id"]: n for n, o in enumerate(case["pool"])}
    members = []
    labels = [-1] * len(case["pool"])
    for k, v in case["prelabels"].items():
        labels[pos_of[int(k)]] = ord(v)
    order = case["order"]
    for n, (op, obs) in enumerate(zip(case["ops"], trace)):
        k = op[0]
        err = obs["err"]
        new = obs["members"]
        newlab = obs["labels"]

        def bad(key, msg):
            fails.append((key, "op %d %s: %s (members before %s, after %s, err=%s)" % (n, op, msg, members, new, ERRNAME.get(err, err))))

        def admissible(v, cur):
            o = kind[v]
            if o["kind"] != "frame":
                return False
            return (not cur) or kind[cur[0]]["cls"] == o["cls"]

        def lab(v, arr):
            return arr[pos_of[v]]

        expect_lab = list(labels)

        def check_added(v, pos, cur_order):
            # label rule for a frame accepted at position pos
            if case["ordered"] and lab(v, labels) == -1 and lab(v, expect_lab) == -1:
                if pos < len(cur_order):
                    expect_lab[pos_of[v]] = ord(cur_order[pos])
                    return True
                return False  # no label exists: raising is acceptable
            return True

        if err == 99:
            bad("unexpected-exception", "unexpected exception %s" % obs["extra"].get("exc"))
        if k in ("insert", "append", "setitem"):
            v = op[-1]
            if k == "append":
                want = members + [v]; pos = len(members); valid = True
            elif k == "insert":
                want = py_insert(members, op[1], v); pos = want.index(v) if v not in members else None; valid = True
                i = op[1]
                pos = max(0, len(members) + i) if i < 0 else min(i, len(members))
            else:
                i = op[1]
                valid = -len(members) <= i < len(members)
                if valid:
                    want = list(members); want[i] = v; pos = i % len(members)
            if not admissible(v, members):
                if err == 0 or new != members:
                    bad("guard-bypassed", "inadmissible object %s was not rejected cleanly" % v)
            elif not valid:
                if err == 0 or new != members:
                    bad("setitem-out-of-range", "out-of-range item assignment did not raise / changed the cadence")
            else:
                has_label = check_added(v, pos, order)
                if err == 0:
                    if new != want:
                        bad("list-semantics", "members differ from plain list result %s" % want)
                    elif case["ordered"] and not has_label:
                        bad("label-missing", "accepted at position %d beyond the order string" % pos)
                elif has_label:
                    bad("valid-op-rejected", "a valid list operation raised")
            if err != 0:
                expect_lab = list(labels)
                if new != members:
                    bad("failed-op-changed-members", "raising operation changed the cadence")
            if newlab != expect_lab:
                bad("label-rule", "labels %s, expected %s (order %r)" % (newlab, expect_lab, order))
        elif k == "extend":
            cur = list(members)
            stopped = False
            for v in op[1]:
                if not admissible(v, cur):
                    stopped = True; break
                if not check_added(v, len(cur), order):
                    stopped = True; break
                cur.append(v)
            if new != cur:
                bad("extend-prefix", "members differ from list-with-guard result %s" % cur)
            if stopped != (err != 0):
                bad("extend-error", "error status %s, expected raise=%s" % (err, stopped))
            if newlab != expect_lab:
                bad("label-rule", "labels %s, expected %s" % (newlab, expect_lab))
        elif k in ("delitem", "pop"):
            i = op[1]
            valid = -len(members) <= i < len(members)
            if valid:
                want = list(members); r = want.pop(i)
                if err != 0 or new != want:
                    bad("list-semantics", "delete/pop differs from plain list result %s" % want)
                if k == "pop" and obs["ret"] != [r]:
                    bad("list-semantics", "pop returned %s, list returns %s" % (obs["ret"], r))
            elif err != 3 or new != members:
                bad("list-semantics", "out-of-range delete/pop must raise IndexError and change nothing")
            if newlab != labels:
                bad("label-rule", "labels changed by delete/pop")
        elif k == "delslice":
            want = list(members); del want[op[1]:op[2]]
            if err != 0 or new != want or newlab != labels:
                bad("list-semantics", "slice deletion differs from plain list result %s" % want)
        elif k == "getint":
            i = op[1]
            valid = -len(members) <= i < len(members)
            if valid and (err != 0 or obs["ret"] != [members[i]]):
                bad("list-semantics", "cadence[%d] returned %s" % (i, obs["ret"]))
            if not valid and err != 3:
                bad("list-semantics", "out-of-range index must raise IndexError")
            if new != members or newlab != labels:
                bad("getter-mutates", "a getter changed the cadence")
        elif k == "getslice":
            want = members[op[1]:op[2]]
            if err != 0 or obs["ret"] != want:
                bad("list-semantics", "slice returned %s, list gives %s" % (obs["ret"], want))
            if new != members or newlab != labels:
                bad("getter-mutates", "a getter changed the cadence")
        elif k == "getidx":
            valid = all(-len(members) <= i < len(members) for i in op[1])
            if valid:
                want = [members[i] for i in op[1]]
                if err != 0 or obs["ret"] != want:
                    bad("list-semantics", "index-array selection returned %s, expected %s" % (obs["ret"], want))
            elif err == 0:
                bad("list-semantics", "out-of-range index array did not raise")
            if new != members or newlab != labels:
                bad("getter-mutates", "a getter changed the cadence")
        elif k == "setorder":
            o2 = op[1]
            exp = list(labels)
            for p, m in enumerate(members):
                if p < len(o2):
                    exp[pos_of[m]] = ord(o2[p])
            # (members repeated in the cadence take the label of their last position, as iteration does)
            if len(o2) >= len(members):
                if err != 0 or newlab != exp:
                    bad("set-order", "labels %s, expected %s" % (newlab, exp))
            if new != members:
                bad("set-order", "set_order changed membership")
            order = obs["order"] if obs["order"] is not None else o2
        elif k == "bylabel":
            want = [m for m in members if lab(m, labels) == ord(op[1])]
            if err != 0 or obs["ret"] != want:
                bad("by-label", "by_label returned %s, members carrying the label are %s" % (obs["ret"], want))
            if new != members or newlab != labels:
                bad("getter-mutates", "a getter changed the cadence")
        ag = obs.get("agg")
        if ag and (ag["tchans"] != ag["exp_tchans"] or ag["obs_range"] != ag["exp_obs_range"] or ag["slew"] != ag["exp_slew"]):
            bad("aggregates", "aggregate properties disagree with member frames: %s" % ag)
        members = new
        labels = newlab
    return fails


def classify(case, key, msg):
    """Narrow classification for known_findings.json (input class + failure kind)."""
    return key


# ------------------------------------------------------------------ run
def model_obs(v):
    # (err, ret, members, labels)
    (e, ret, mem, lab) = v
    return dict(err=e, ret=list(ret), members=list(mem), labels=list(lab))


def evaluate(ctx, cases):
    exprs = [g_case(c) for c in cases]
    try:
        model = C.coq_eval(IMPORTS, exprs, shard=150)
    except Exception as ex:
        ctx.model_error(str(ex)[-1500:])
        model = [None] * len(cases)
    impl = []
    for part in C.run_impl_parallel("c18_impl", [dict(cases=ch) for ch in C.chunks(cases, C.NCPU)]):
        impl.extend(part)
    for case, mtrace, itrace in zip(cases, model, impl):
        opkinds = sorted(set(o[0] for o in case["ops"]))
        ctx.count(dict(ops=case["ops"], ordered=case["ordered"], order=case["order"], pre=case["prelabels"],
                       pool=[(o["id"], o.get("cls")) for o in case["pool"]]),
                  nontrivial=any(t["err"] == 0 and t["members"] for t in itrace))
        for o in case["ops"]:
            ctx.tally("op_kinds", o[0])
        for t in itrace:
            ctx.tally("impl_outcomes", ERRNAME.get(t["err"], t["err"]))
        ctx.tally("cadence_class", "ordered" if case["ordered"] else "plain")
        ctx.tally("ops_per_case", len(case["ops"]) // 10 * 10)
        for key, msg in oracle(case, itrace):
            k2 = classify(case, key, msg)
            if k2 not in ctx.extra.setdefault("_shrunk", {}):
                small = shrink(case, key)
                ctx.extra["_shrunk"][k2] = small
                try:
                    tr = C.run_impl("c18_impl", dict(cases=[small]))[0]
                    msg = next(m for kk, m in oracle(small, tr) if kk == key)
                except Exception:
                    small = case
                ctx.impl_violation(k2, msg, small)
            else:
                ctx.impl_violation(k2, msg, case)
        if mtrace is not None:
            for n, (mo, io) in enumerate(zip(mtrace, itrace)):
                m = model_obs(mo)
                i = dict(err=io["err"], ret=io["ret"], members=io["members"], labels=io["labels"])
                if m != i:
                    ctx.mismatch("op %d %s: model %s, implementation %s" % (n, case["ops"][n], m, i), case)
                    break
        ctx.sample(dict(ordered=case["ordered"], order=case["order"], ops=case["ops"][:6],
                        final_members=itrace[-1]["members"] if itrace else []))


def shrink(case, key):
    """Greedy delta-debugging on the op list; each round evaluates every one-op deletion in a
    single implementation process (oracle re-run on the implementation)."""
    cur = case
    try:
        for _ in range(12):
            cands = [dict(cur, ops=cur["ops"][:i] + cur["ops"][i + 1:]) for i in range(len(cur["ops"]))]
            cands = [c for c in cands if c["ops"]]
            if not cands:
                break
            traces = C.run_impl("c18_impl", dict(cases=cands))
            nxt = None
            for c, tr in zip(cands, traces):
                if any(k == key for k, _ in oracle(c, tr)):
                    nxt = c
                    break
            if nxt is None:
                break
            cur = nxt
    except Exception:
        pass
    return cur


def run(ctx):
    rng = ctx.rng
    ctx.rule = ("random operation sequences over a pool of compatible frames (either orientation flag), incompatible frames (df, dt, fchans, fmin, or the other orientation with the same fch1) and non-frames on Cadence and "
                "OrderedCadence (indices around and beyond both ends, order strings shorter and longer than the cadence, pre-labelled "
                "frames); thorough adds every sequence of <=3 operations over a 16-letter alphabet; a case is non-trivial when at least one "
                "operation succeeded on a non-empty cadence; distinct = distinct (pool, order, op list)")
    ctx.assumptions = ["frames are abstracted to (identity, (df,dt,fchans,fmin) class); labels to one character",
                       "collections.abc.MutableSequence mixins as in CPython 3.12 (append/extend/pop expanded in the model)"]
    corpus = C_corpus()
    n = 150 if ctx.tier == "quick" else 3000
    maxlen = 25 if ctx.tier == "quick" else 60
    cases = corpus + [gen_case(rng, maxlen) for _ in range(n)]
    if ctx.tier == "thorough":
        cases += exhaustive_cases(3)
    else:
        cases += exhaustive_cases(1)
    evaluate(ctx, cases)


def C_corpus():
    import os
    p = os.path.join(C.ROOT, "corpus", "c18.json")
    return json.load(open(p)) if os.path.exists(p) else []


def replay(ctx, payload):
    case = payload["case"]
    tr = C.run_impl("c18_impl", dict(cases=[case]))[0]
    f = oracle(case, tr)
    for k, m in f:
        print("FAILS: %s: %s" % (k, m))
    print("replay: %d property failure(s) on %s" % (len(f), C.REPO))
    return 1 if f else 0
