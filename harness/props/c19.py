"""C19 -- splitting utilities.  Real filterbank files whose pixels encode (row, file channel) are split
and every piece located; arrays whose values encode (y, x) are tiled.  Piece ranges / tile rectangles
against the Gallina model (Model/Split.v), and against the property's closed forms."""
import json
import os
from harness import common as C

IMPORTS = "From Coq Require Import List ZArith.\nFrom SV Require Import Model.Split.\nImport ListNotations.\n"


def gen_fil(rng):
    r = rng.random()
    if r < 0.35:
        fchans = rng.choice([16, 64, 256]); k = rng.randint(1, 12); nchans = fchans * k       # exact multiple
        f_shift = None if rng.random() < 0.6 else rng.choice([fchans, fchans // 2])
    elif r < 0.5:
        nchans = rng.choice([64, 100, 512]); fchans = nchans; f_shift = None                   # single piece
    else:
        nchans = rng.randint(8, 1500); fchans = rng.randint(3, nchans); f_shift = rng.choice([None, rng.randint(1, fchans)])
    if rng.random() < 0.05:
        nchans = rng.randint(8, 64); fchans = nchans + rng.randint(1, 40); f_shift = rng.choice([None, rng.randint(1, 8)])      # pieces wider than the file: none fit
    T = rng.randint(3, 6)
    return dict(nchans=nchans, fchans=fchans, f_shift=f_shift, tchans_file=T, tchans=rng.choice([None, None, rng.randint(1, T)]),
                df=rng.choice([2.7939677238464355, 2.835503418452676, 1.0, 2.0, 91.552734375, rng.uniform(0.5, 500)]), dt=rng.choice([18.253611008, 1.0]),
                fch1=rng.choice([6000.0e6, 1420.405752e6, 8421.38671875e6, rng.uniform(1e9, 9e9)]), ascending=rng.random() < 0.5,
                split_fil=rng.random() < 0.3, consumers=rng.random() < 0.15, presplit=rng.random() < 0.5)


def gen_array(rng):
    H = rng.randint(1, 12); W = rng.randint(1, 14)
    th = rng.choice([None, rng.randint(1, H + 2)]); tw = rng.choice([None, rng.randint(1, W + 2)])
    equal = rng.random() < 0.7
    ts = None if equal else rng.choice([None, rng.randint(1, H + 1)])
    fs = None if equal else rng.choice([None, rng.randint(1, W + 1)])
    return dict(H=H, W=W, th=th, tw=tw, ts=ts, fs=fs, t_trim=rng.random() < 0.4, f_trim=rng.random() < 0.4)


def run(ctx):
    rng = ctx.rng
    quick = ctx.tier == "quick"
    ctx.rule = ("fil: nchans 8..3072, fchans 3..nchans, shifts equal / smaller / arbitrary, exact multiples, remainders, single piece, leading "
                "integrations, realistic and random header frequencies / resolutions, both orientations, split_fil and distribution consumers; "
                "array: shapes up to 12 x 14, tile sizes up to the shape + 2, shifts equal to the sizes (70%) or arbitrary, all trim flags; "
                "non-trivial = more than one piece / tile; distinct = distinct case")
    ctx.assumptions = ["blimpy's channel selection (round((f - f0)/foff)) and file I/O are exercised, not proved",
                       "tiles of unequal shape cannot be returned as one rectangular ndarray: an object array (or list) of tiles is accepted"]
    # ------------------------------------------------------------------ files
    fcases = corpus("fil") + [gen_fil(rng) for _ in range(70 if quick else 1500)]
    fimpl = []
    for part in C.run_impl_parallel("c19_impl", [dict(mode="fil", cases=ch) for ch in C.chunks(fcases, C.NCPU)]):
        fimpl.extend(part)
    exprs = ["pieces %d%%nat %d%%nat %d%%nat" % (c["nchans"], c["fchans"], c["f_shift"] or c["fchans"]) for c in fcases]
    try:
        fvals = C.coq_eval(IMPORTS, exprs, shard=200)
    except Exception as ex:
        ctx.model_error(str(ex)[-1500:]); fvals = [None] * len(fcases)
    for c, r, mv in zip(fcases, fimpl, fvals):
        s = c["f_shift"] or c["fchans"]
        want_n = (c["nchans"] - c["fchans"]) // s + 1 if c["fchans"] <= c["nchans"] else 0
        ctx.count(dict(k="fil", c=c), nontrivial=want_n > 1)
        ctx.tally("fil_orientation", "asc" if c["ascending"] else "desc"); ctx.tally("fil_exact_multiple", (c["nchans"] - c["fchans"]) % s == 0)
        ctx.tally("fil_pieces", min(want_n, 20))
        if "err" in r:
            ctx.impl_violation("split-raises", "split_waterfall_generator raised %s" % r["err"], c); continue
        ps = r["pieces"]
        T = c["tchans"] or c["tchans_file"]
        if len(ps) != want_n:
            ctx.impl_violation("piece-count", "%d pieces, expected floor((%d - %d)/%d) + 1 = %d (foff %s%r MHz, fch1 %r MHz)"
                               % (len(ps), c["nchans"], c["fchans"], s, want_n, "+" if c["ascending"] else "-", c["df"] * 1e-6, c["fch1"] * 1e-6), c)
        for i, p in enumerate(ps[:want_n]):
            if (p["lo"], p["hi"]) != (i * s, i * s + c["fchans"]) or not p["contiguous"] or not p["consistent"] or p["n"] != c["fchans"]:
                ctx.impl_violation("piece-channels", "piece %d covers file channels [%d,%d) (%d channels), expected [%d,%d)"
                                   % (i, p["lo"], p["hi"], p["n"], i * s, i * s + c["fchans"]), c); break
            if p["rows"] != [0, T]:
                ctx.impl_violation("piece-integrations", "piece %d holds integrations %s, expected the leading %d" % (i, p["rows"], T), c); break
            want_f = r["file_fch1"] + i * s * r["file_foff"]
            if abs(p["fch1"] - want_f) > abs(r["file_foff"]) * 1e-3:
                ctx.impl_violation("piece-frequency", "piece %d frequency axis starts at %r MHz, its first channel is at %r MHz" % (i, p["fch1"], want_f), c); break
        for key, msg in r.get("fails", []):
            ctx.impl_violation(key, msg, c)
        sf = r.get("split_fil")
        if sf is not None:
            if "err" in sf:
                ctx.impl_violation("split-fil", "split_fil / loading a piece raised %s" % sf["err"], c)
            elif sf["n"] != want_n or any(sh[:2] != [T, c["fchans"]] for sh in sf["shapes"]):
                ctx.impl_violation("split-fil", "split_fil wrote %d files with shapes %s, expected %d of (%d, %d)" % (sf["n"], sf["shapes"][:3], want_n, T, c["fchans"]), c)
        if r.get("consumers") is not None and r["consumers"] != [want_n] * 4:
            ctx.impl_violation("consumers", "distribution lengths %s, expected %d" % (r["consumers"], want_n), c)
        if mv is not None and [[p["lo"], p["hi"]] for p in ps] != [list(x) for x in mv]:
            ctx.mismatch("pieces: model %s..., implementation %s..." % ([list(x) for x in mv][:3] + [len(mv)], [[p["lo"], p["hi"]] for p in ps][:3] + [len(ps)]), c)
    # ------------------------------------------------------------------ arrays
    acases = corpus("array") + [gen_array(rng) for _ in range(250 if quick else 6000)]
    aimpl = []
    for part in C.run_impl_parallel("c19_impl", [dict(mode="array", cases=ch) for ch in C.chunks(acases, 8)]):
        aimpl.extend(part)
    exprs = []
    for c in acases:
        th = c["th"] or c["H"]; tw = c["tw"] or c["W"]; ts = c["ts"] or th; fs = c["fs"] or tw
        exprs.append("trim %d%%nat %d%%nat %s %s (split_rects %d%%nat %d%%nat %d%%nat %d%%nat %d%%nat %d%%nat)" % (th, tw, C.gbool(c["t_trim"]), C.gbool(c["f_trim"]), c["H"], c["W"], th, tw, ts, fs))
    try:
        avals = C.coq_eval(IMPORTS, exprs, shard=300)
    except Exception as ex:
        ctx.model_error(str(ex)[-1500:]); avals = [None] * len(acases)
    for c, r, mv in zip(acases, aimpl, avals):
        H, W = c["H"], c["W"]
        th = c["th"] or H; tw = c["tw"] or W; ts = c["ts"] or th; fs = c["fs"] or tw
        equal = (ts == th and fs == tw)
        ny = -(-H // th); nx = -(-W // tw)
        ctx.count(dict(k="array", c=c), nontrivial=ny * nx > 1)
        ctx.tally("array_equal_shifts", equal); ctx.tally("array_trim", "%d%d" % (c["t_trim"], c["f_trim"])); ctx.tally("array_ragged", H % th != 0 or W % tw != 0)
        if equal:
            want = []
            for rr in range(ny):
                for cc in range(nx):
                    t = [rr * th, min((rr + 1) * th, H), cc * tw, min((cc + 1) * tw, W)]
                    if c["t_trim"] and t[1] - t[0] != th:
                        continue
                    if c["f_trim"] and t[3] - t[2] != tw:
                        continue
                    want.append(t)
            if r["err"] is not None:
                ctx.impl_violation("split-array-raises", "split_array(%dx%d, tiles %dx%d, trim %s/%s) raised %s" % (H, W, th, tw, c["t_trim"], c["f_trim"], r["err"]), c)
            else:
                got = [t[:4] for t in r["tiles"]]
                if got != want or not all(t[4] for t in r["tiles"]):
                    ctx.impl_violation("tiles", "tiles %s..., expected the row-major partition %s..." % (got[:4], want[:4]), c)
        if mv is not None and r["err"] is None:
            norm = lambda t: "empty" if (t[1] <= t[0] or t[3] <= t[2]) else list(t[:4])     # empty tiles carry no position
            if [norm(t) for t in r["tiles"]] != [norm(list(x)) for x in mv]:
                ctx.mismatch("split_array rectangles: model %s, implementation %s" % ([list(x) for x in mv][:4], [t[:4] for t in r["tiles"]][:4]), c)
    ctx.sample(dict(kind="fil", case=fcases[-1], pieces=[(p["lo"], p["hi"]) for p in fimpl[-1].get("pieces", [])][:4]))
    ctx.sample(dict(kind="array", case=acases[-1], tiles=aimpl[-1].get("tiles", [])[:4]))


def corpus(kind):
    p = os.path.join(C.ROOT, "corpus", "c19_%s.json" % kind)
    return json.load(open(p)) if os.path.exists(p) else []


def replay(ctx, payload):
    c = payload["case"]
    mode = "array" if "H" in c else "fil"
    r = C.run_impl("c19_impl", dict(mode=mode, cases=[c]))[0]
    print(json.dumps(r)[:1500])
    return 0
