"""C16 -- cadence injection: time-continuous, time axes intact (also on a raise).  The exact
statements (offset times, seamless continuation, slew times, consolidated length) against the rational
model; bit-for-bit comparisons of time axes and data on the implementation."""
import json
import os
from fractions import Fraction
from harness import common as C

IMPORTS = ("From Coq Require Import List ZArith QArith.\nFrom SV Require Import Model.CadenceInject.\nImport ListNotations.\nLocal Open Scope Q_scope.\n"
           "Definition qo (q : Q) : Z * Z := let r := Qred q in (Qnum r, Zpos (Qden r)).\n")


def gq(x):
    return C.gq(Fraction(x))


def gen_case(rng):
    n = rng.randint(1, 6)
    F = rng.choice([16, 24]); df = 2.0; dt = float(rng.choice([1, 2]))
    realistic = rng.random() < 0.5
    if realistic:
        dt = rng.choice([18.253611008, 1.4316557653333333, 0.33554432])
    t = rng.choice([1.6e9 + rng.random() * 1e6, 1.7e9 + 0.123]) if realistic else float(rng.choice([0, 100, 5000]))
    frames = []
    for k in range(n):
        T = rng.randint(1, 4)
        frames.append(dict(T=T, t_start=t))
        gap = rng.choice([0.0, 0.0, 10.0, 37.5, 300.0]) if not realistic else rng.choice([0.0, 13.7, 301.25])
        t = t + T * dt + gap
    c = dict(F=F, df=df, dt=dt, fch1=1000.0, ascending=rng.random() < 0.5, frames=frames, realistic=realistic,
             signal=dict(start_ch=rng.randint(2, F - 3), drift=rng.choice([0.0, 0.02, -0.03, 0.1]) * df / dt if realistic else rng.choice([0.0, 0.25, -0.5]) * df / dt,
                         width=rng.choice([2.0, 4.0]) * df, tprof=rng.choice(["const", "sine"]), period=rng.choice([7.0, 50.0]),
                         integrate_path=rng.random() < 0.25, integrate_t=rng.random() < 0.25, smear=rng.random() < 0.3),
             repeat=rng.choice([1, 1, 2, 5]), t_slew=rng.choice([0.0, 10.0, 123.5]))
    c["t_overwrite"] = rng.random() < 0.35
    if rng.random() < 0.3:
        c["pre"] = rng.choice(["tail", "each"])      # the frames were injected into before, under other offsets
        if rng.random() < 0.6:
            c["signal"]["integrate_path"] = True; c["signal"]["integrate_t"] = rng.random() < 0.7
    if n >= 2 and rng.random() < 0.2:
        # the cadence's reference is its FIRST frame, whatever the chronological order: frames listed out of time order
        rng.shuffle(frames)
        c["t_overwrite"] = False
        c["unordered"] = True
    if rng.random() < 0.3:
        c["ts_shift"] = rng.choice([0.5, 0.25, 3.0])       # frames carrying their own time axis (sample mid-points, an offset of a few samples)
    r = rng.random()
    if r < 0.25 and n >= 2:
        a = rng.randint(0, n - 1); b = rng.randint(a + 1, n)
        c["slice"] = rng.choice([[a, b], [a, n, 2], [n - 1, None, -1]])       # the last one: the cadence reversed
    elif r < 0.35 and n >= 2:
        c["index"] = sorted(rng.sample(range(n), rng.randint(1, n)))
    elif r < 0.5:
        c["ordered"] = True; c["order"] = "ABACAD"; c["label"] = rng.choice(["A", "B"])
    return c


def run(ctx):
    rng = ctx.rng
    quick = ctx.tier == "quick"
    ctx.rule = ("cadences of 1-6 frames of 1-4 rows with gaps, integer and realistic unix start times, in and out of chronological order, both orientations, whole cadence / slice (also reversed) / "
                "label subset; constant or sine time profile, drifting box signal, integrate_path / integrate_t / smearing; 1, 2 or 5 repeated "
                "injections, also after earlier injections into the same frames alone or through the cadence's tail; a callback raising on the k-th frame for every k; overwrite_times, slew_times, consolidate; "
                "non-trivial = at least two frames; distinct = distinct case")
    ctx.assumptions = ["time axes are compared bit for bit (np.array_equal) before/after", "slew times of realistic unix start times are compared to 1e-6 s"]
    cases = corpus() + [gen_case(rng) for _ in range(120 if quick else 2500)]
    impl = []
    for part in C.run_impl_parallel("c16_impl", [dict(cases=ch) for ch in C.chunks(cases, C.NCPU)]):
        impl.extend(part)
    # exact model: cadence times of every row, slew times after overwrite, consolidated length
    exprs = []
    for c in cases:
        fs = C.glist(["{| T := %d%%nat; dt := %s; q_start := %s |}" % (f["T"], gq(c["dt"]), gq(f["t_start"])) for f in c["frames"]])
        exprs.append("(map qo (slew_times (overwrite_times %s %s)), Z.of_nat (length (consolidated_ts %s)))" % (gq(c["t_slew"]), fs, fs))
    try:
        vals = C.coq_eval(IMPORTS, exprs, shard=200)
    except Exception as ex:
        ctx.model_error(str(ex)[-1500:]); vals = [None] * len(cases)
    for c, r, mv in zip(cases, impl, vals):
        ctx.count(c, nontrivial=len(c["frames"]) >= 2)
        ctx.tally("frames", len(c["frames"])); ctx.tally("times", "unix" if c["realistic"] else "integer"); ctx.tally("repeat", c["repeat"])
        ctx.tally("subset", "slice" if c.get("slice") else ("index" if c.get("index") else ("label" if c.get("label") else "all")))
        ctx.tally("t_overwrite", bool(c.get("t_overwrite"))); ctx.tally("earlier_injection", c.get("pre") or "none"); ctx.tally("chronological", not (c.get("unordered") or (c.get("slice") or [0])[-1] == -1))
        for key, msg in r["fails"]:
            ctx.impl_violation(key, msg, c)
        if mv is not None:
            sl, n = mv
            if n != sum(f["T"] for f in c["frames"]) or any(Fraction(a, b) != Fraction(c["t_slew"]) for (a, b) in sl) or len(sl) != max(0, len(c["frames"]) - 1):
                ctx.mismatch("model slew times / consolidated length inconsistent: %s / %s" % (sl, n), c)
    ctx.sample(dict(case=dict(frames=cases[-1]["frames"], signal=cases[-1]["signal"], repeat=cases[-1]["repeat"]), result=impl[-1]))


def corpus():
    p = os.path.join(C.ROOT, "corpus", "c16.json")
    return json.load(open(p)) if os.path.exists(p) else []


def replay(ctx, payload):
    c = payload["case"]
    r = C.run_impl("c16_impl", dict(cases=[c]))[0]
    for k, m in r["fails"]:
        print("FAILS: %s: %s" % (k, m))
    print("replay: %d property failure(s) on %s" % (len(r["fails"]), C.REPO))
    return 1 if r["fails"] else 0
