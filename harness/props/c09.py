"""C09 -- quantisers.  Kernel: quantize_real with supplied statistics, bit-exact against the
binary64 twin (and against the exact rational model on inputs where double arithmetic is exact).
Histories: RealQuantizer/ComplexQuantizer call sequences against the refresh state machine."""
import json
import math
import os
import struct
from fractions import Fraction
from harness import common as C

IMPORTS = ("From Coq Require Import List ZArith QArith PrimFloat.\nFrom SV Require Import Base.F64 Base.Rounding Model.Quant.\n"
           "Import ListNotations.\n")


def gf(x):
    return "(%s)%%float" % float(x).hex()


def rand_double(rng):
    r = rng.random()
    if r < 0.5:
        return rng.gauss(0, 10 ** rng.uniform(-3, 3))
    if r < 0.6:
        return rng.choice([1e300, -1e300, 1e-300, -1e-300, 1e150, 5e-324, 0.0])
    if r < 0.8:
        return rng.randint(-300, 300) / 2.0
    return rng.uniform(-1, 1) * 2.0 ** rng.randint(-60, 60)


def gen_kernel(rng, exact):
    b = rng.randint(2, 8)
    if exact:
        ds = 2.0 ** rng.randint(-4, 4)
        ts = float(rng.randint(0, 40))
        dm = rng.randint(-2 ** 12, 2 ** 12) / 2.0 ** rng.randint(0, 8)
        tm = rng.randint(-64, 64) / 4.0
        xs = [dm + rng.randint(-2 ** 10, 2 ** 10) / 2.0 ** rng.randint(0, 8) for _ in range(12)]
        if rng.random() < 0.15:
            ds = 0.0
    else:
        ds = abs(rand_double(rng)) if rng.random() < 0.9 else 0.0
        ts = abs(rng.gauss(13.6, 10)) if rng.random() < 0.8 else rng.uniform(0, 200)
        dm = rand_double(rng)
        tm = rng.choice([0.0, 0.5, -1.5, 3.25, rng.uniform(-20, 20)])
        xs = []
        for _ in range(12):
            r = rng.random()
            if r < 0.5 and ds > 0 and math.isfinite(ds):
                xs.append(dm + rng.gauss(0, 2) * ds)
            elif r < 0.7 and ds > 0 and ts > 0:
                # aim at a rounding boundary: factor*(x-dm)+tm = k + 0.5
                k = rng.randint(-2 ** (b - 1) - 2, 2 ** (b - 1) + 1)
                xs.append(dm + (k + 0.5 - tm) * ds / ts)
            else:
                xs.append(rand_double(rng))
        xs = [x for x in xs if math.isfinite(x)]
    return dict(b=b, tm=tm, ts=ts, dm=dm, ds=ds, xs=xs, exact=exact)


def nan_free(c):
    # the property excludes NaNs: drop inputs whose affine image is NaN/inf-inf in doubles
    try:
        f = 0.0 if c["ds"] == 0 else c["ts"] / c["ds"]
    except OverflowError:
        return False
    ok = []
    for x in c["xs"]:
        y = f * (x - c["dm"]) + c["tm"]
        if math.isfinite(y) or (math.isinf(y) and not math.isnan(y)):
            if not math.isnan(y):
                ok.append(x)
    c["xs"] = ok
    return math.isfinite(f) and bool(ok)


def gq(x):
    return C.gq(Fraction(x))


def run(ctx):
    rng = ctx.rng
    quick = ctx.tier == "quick"
    ctx.rule = ("kernel: quantize_real on random doubles (gaussian around the mean, half-integer boundaries of the affine image, huge/tiny/"
                "denormal values, zero deviation) for b=2..8, compared bit for bit with the binary64 twin, and with the exact rational model on a "
                "dyadic domain where double arithmetic is exact; histories: random quantize/reset sequences on RealQuantizer and ComplexQuantizer "
                "with periods -2..4, scalar / pair custom deviations, constant and varying data; non-trivial = at least two distinct output levels "
                "(kernel) or at least two quantize calls (history)")
    ctx.assumptions = ["numpy evaluates factor*(x-mean)+target_mean with one rounding per operation (no FMA) -- checked by the bit-exact twin",
                       "np.mean/np.std of the leading samples are trusted numerics (both sides call them)"]
    # ---------------- kernel
    nk = 300 if quick else 6000
    kcases = []
    while len(kcases) < nk:
        c = gen_kernel(rng, exact=(len(kcases) % 3 == 0))
        if nan_free(c):
            kcases.append(c)
    exprs = []
    for c in kcases:
        exprs.append("map (quantize_real_f %s %s %s %s %s) %s" % (C.gz(c["b"]), gf(c["tm"]), gf(c["ts"]), gf(c["dm"]), gf(c["ds"]),
                                                                  C.glist([gf(x) for x in c["xs"]])))
    qidx = [i for i, c in enumerate(kcases) if c["exact"]]
    for i in qidx:
        c = kcases[i]
        exprs.append("map (quantize_real %s %s %s %s %s) %s" % (C.gz(c["b"]), gq(c["tm"]), gq(c["ts"]), gq(c["dm"]), gq(c["ds"]),
                                                                C.glist([gq(x) for x in c["xs"]])))
    try:
        vals = C.coq_eval(IMPORTS, exprs, shard=200)
    except Exception as ex:
        ctx.model_error(str(ex)[-1500:])
        vals = None
    payload = [dict(b=c["b"], tm=float(c["tm"]).hex(), ts=float(c["ts"]).hex(), dm=float(c["dm"]).hex(), ds=float(c["ds"]).hex(),
                    xs=[float(x).hex() for x in c["xs"]]) for c in kcases]
    impl = []
    for part in C.run_impl_parallel("c09_impl", [dict(mode="kernel", cases=ch) for ch in C.chunks(payload, 8)]):
        impl.extend(part)
    for i, c in enumerate(kcases):
        out = impl[i]
        lo, hi = -2 ** (c["b"] - 1), 2 ** (c["b"] - 1) - 1
        ctx.count(dict(k="kernel", c=payload[i]), nontrivial=len(set(out)) >= 2)
        ctx.tally("kernel_domain", "exact-dyadic" if c["exact"] else "general")
        ctx.tally("kernel_bits", c["b"])
        # direct oracle: range + monotone + zero variance
        if any(v < lo or v > hi for v in out):
            ctx.impl_violation("kernel-range", "quantize_real output outside [%d,%d]: %s" % (lo, hi, out), payload[i])
        pairs = sorted(zip(c["xs"], out))
        if c["ts"] >= 0 and c["ds"] >= 0 and any(pairs[k][1] > pairs[k + 1][1] for k in range(len(pairs) - 1)):
            ctx.impl_violation("kernel-monotone", "quantize_real not monotone: %s" % pairs, payload[i])
        if c["ds"] == 0:
            tmq = Fraction(c["tm"])
            fl = math.floor(tmq); r = tmq - fl
            rh = fl if r < Fraction(1, 2) else fl + 1 if r > Fraction(1, 2) else (fl if fl % 2 == 0 else fl + 1)
            want = min(max(rh, lo), hi)
            if any(v != want for v in out):
                ctx.impl_violation("kernel-zero-variance", "zero deviation must give clip(round(target_mean))=%d, got %s" % (want, out), payload[i])
        # direct oracle for the formula: each output is within rounding distance of the clipped exact affine image
        # (exact rational arithmetic; double round-off in factor*(x-mean)+target_mean is far below the 1e-6 allowance)
        if c["ds"] != 0 and math.isfinite(c["ds"]):
            fq = Fraction(c["ts"]) / Fraction(c["ds"])
            for x, v in zip(c["xs"], out):
                y = fq * (Fraction(x) - Fraction(c["dm"])) + Fraction(c["tm"])
                yc = min(max(y, Fraction(lo)), Fraction(hi))
                if abs(Fraction(v) - yc) > Fraction(1, 2) + Fraction(1, 10 ** 6):
                    ctx.impl_violation("kernel-formula", "quantize_real(x=%r; data mean %r, deviation %r; target %r, %r; %d bits) = %d, but target_std/data_std*(x-mean)+target_mean = %.6g (clipped %.6g)"
                                       % (x, c["dm"], c["ds"], c["tm"], c["ts"], c["b"], v, float(y), float(yc)), payload[i])
                    break
        if vals is not None:
            if list(vals[i]) != out:
                ctx.mismatch("quantize_real: binary64 model %s, implementation %s" % (vals[i], out), payload[i])
    if vals is not None:
        for k, i in enumerate(qidx):
            mq = list(vals[len(kcases) + k])
            if mq != impl[i]:
                ctx.mismatch("quantize_real on the exact dyadic domain: rational model %s, implementation %s" % (mq, impl[i]), payload[i])
    ctx.sample(dict(kind="kernel", case=payload[0], impl=impl[0]))

    # ---------------- histories
    nh = 120 if quick else 2500
    hcases = corpus() + [gen_hist(rng) for _ in range(nh)]
    exprs = []
    for c in hcases:
        ops = C.glist(["Quant" if o[0] == "q" else "Reset" for o in c["ops"]])
        exprs.append("qrun (fresh %s) %s" % (C.gz(c["period"]), ops))
    try:
        msrc = C.coq_eval(IMPORTS, exprs, shard=300)
    except Exception as ex:
        ctx.model_error(str(ex)[-1500:])
        msrc = [None] * len(hcases)
    himpl = []
    for part in C.run_impl_parallel("c09_impl", [dict(mode="hist", cases=ch) for ch in C.chunks(hcases, C.NCPU)]):
        himpl.extend(part)
    for c, ms, tr in zip(hcases, msrc, himpl):
        nq = sum(1 for o in c["ops"] if o[0] == "q")
        ctx.count(dict(k="hist", c=c), nontrivial=nq >= 2)
        ctx.tally("hist_period", c["period"])
        ctx.tally("hist_class", "complex" if c["complex"] else "real")
        ctx.tally("hist_calls", nq)
        # python oracle for the schedule (property text): refresh on calls 0,p,2p.. since the last reset
        exp = []
        r = 0; k = 0; n = 0
        for o in c["ops"]:
            if o[0] == "reset":
                r = n; k = 0
            else:
                p = c["period"]
                exp.append(r + (k - k % p) if p > 0 else r)
                k += 1; n += 1
        qi = 0
        lo, hi = -2 ** (c["b"] - 1), 2 ** (c["b"] - 1) - 1
        for o, rec in zip(c["ops"], tr):
            if o[0] != "q":
                continue
            for pi, part in enumerate(rec["parts"]):
                where = "call %d part %d of %s" % (qi, pi, json.dumps(dict(period=c["period"], complex=c["complex"], b=c["b"])))
                if not (part["in_range"] and part["finite"] and part["is_int"]):
                    ctx.impl_violation("hist-range", "output out of range / not finite integers at %s" % where, c)
                if not part["mono"]:
                    ctx.impl_violation("hist-monotone", "output not a non-decreasing function of the input at %s" % where, c)
                if not part["formula_ok"]:
                    ctx.impl_violation("hist-formula", "output differs from clip(round(ts/ds*(x-mean)+tm)) with the cached statistics (%d samples) at %s"
                                       % (part["n_first_diff"], where), c)
                if exp[qi] not in part["src"]:
                    ctx.impl_violation("hist-schedule", "cached statistics come from call(s) %s, scheduled call is %d at %s" % (part["src"], exp[qi], where), c)
                if ms is not None and ms[qi] not in part["src"]:
                    ctx.mismatch("refresh state machine says statistics of call %d, implementation caches those of %s at %s" % (ms[qi], part["src"], where), c)
                if part["zero_var"] and o[2] is None and exp[qi] == qi:
                    tmq = Fraction(c["tm"]); fl = math.floor(tmq); rr = tmq - fl
                    rh = fl if rr < Fraction(1, 2) else fl + 1 if rr > Fraction(1, 2) else (fl if fl % 2 == 0 else fl + 1)
                    want = min(max(rh, lo), hi)
                    if part["values"] != [want]:
                        ctx.impl_violation("zero-variance-roundoff", "constant input (value %r, n=%d) maps to %s instead of the target mean %d at %s"
                                           % (o[1]["mu"], o[1]["n"], part["values"], want, where),
                                           dict(c, ops=[o]))
            qi += 1
    ctx.sample(dict(kind="history", case=dict(hcases[-1], ops=hcases[-1]["ops"][:3]), model_sources=msrc[-1]))
    # the stand-alone functions and the digitize alias
    fcases = []
    for i in range(60 if quick else 1500):
        dist = rng.choice(["normal", "normal", "uniform", "const", "halfint"])
        fcases.append(dict(via=["quantize_real", "quantize_complex", "digitize"][i % 3], b=rng.randint(2, 8), tm=rng.choice([0, 0, 0.5, -1.5, 2.25]), fwhm=rng.choice([32, 8, 3.5, 100]),
                           num=rng.choice([5, 50, 10000]), spec=dict(seed=rng.randint(0, 10 ** 6), n=rng.choice([1, 3, 17, 200, 1000]), dist=dist,
                                                                     mu=rng.choice([0.0, 0.3, 7.7, -123.456, rng.uniform(-50, 50)]), sigma=10 ** rng.uniform(-2, 2))))
    fimpl = []
    for part in C.run_impl_parallel("c09_impl", [dict(mode="func", cases=ch) for ch in C.chunks(fcases, C.NCPU)]):
        fimpl.extend(part)
    for c, r in zip(fcases, fimpl):
        ctx.count(dict(k="func", c=c), nontrivial=c["spec"]["n"] > 1)
        ctx.tally("function", c["via"])
        for key, msg in r["fails"]:
            ctx.impl_violation(key, msg + " (%s)" % json.dumps(dict(b=c["b"], tm=c["tm"], fwhm=c["fwhm"], num=c["num"], n=c["spec"]["n"], dist=c["spec"]["dist"])), dict(k="func", **c))


def gen_hist(rng):
    ops = []
    n_ops = rng.randint(1, 9)
    seed = rng.randint(0, 10 ** 6)
    num = rng.choice([5, 50, 10000])
    cplx = rng.random() < 0.4
    for i in range(n_ops):
        if rng.random() < 0.15:
            ops.append(["reset"])
            continue
        dist = rng.choice(["normal", "normal", "uniform", "const", "halfint"])
        mu = rng.choice([0.0, 0.1, 0.3, 7.7, -123.456, 1 / 3.0, 5.0, rng.uniform(-50, 50)])
        spec = dict(seed=seed + i, n=rng.choice([1, 3, 17, 200, 1000]), dist=dist, mu=mu, sigma=10 ** rng.uniform(-2, 2))
        custom = None
        if rng.random() < 0.25:
            custom = rng.uniform(0.1, 30)
            if cplx and rng.random() < 0.5:
                custom = [custom, rng.uniform(0.1, 30)]
        ops.append(["q", spec, custom])
    return dict(b=rng.randint(2, 8), tm=rng.choice([0, 0, 0.5, -1.5, 2.25]), fwhm=rng.choice([32, 8, 3.5, 100]),
                period=rng.randint(-2, 4), num=num, complex=cplx, ops=ops)


def corpus():
    p = os.path.join(C.ROOT, "corpus", "c09.json")
    return json.load(open(p)) if os.path.exists(p) else []


def replay(ctx, payload):
    case = payload["case"]
    if case.get("k") == "func":
        r = C.run_impl("c09_impl", dict(mode="func", cases=[case]))[0]
        print(r["fails"]); print("replay: property %s on %s" % ("FAILS" if r["fails"] else "holds", C.REPO))
        return 1 if r["fails"] else 0
    if "ops" in case:
        tr = C.run_impl("c09_impl", dict(mode="hist", cases=[case]))[0]
        print(json.dumps(tr, indent=1)[:3000])
        bad = any((p["zero_var"] and p["values"] != [0]) or not p["formula_ok"] or not p["in_range"] or not p["mono"]
                  for r in tr if r["op"] == "q" for p in r["parts"])
        print("replay: property %s on %s" % ("FAILS" if bad else "holds", C.REPO))
        return 1 if bad else 0
    out = C.run_impl("c09_impl", dict(mode="kernel", cases=[case]))[0]
    print(out)
    return 0
