"""C08 -- PFB front end + cache.  Model rows (exact integers, vm_compute) -> numpy FFT -> must equal
channelize() bit for bit, call by call, for any chunking, cache flag, interleaving of objects."""
import json
import math
import os
from harness import common as C

IMPORTS = ("From Coq Require Import List ZArith.\nFrom SV Require Import Model.PFB.\nImport ListNotations.\n")


def gzl(l):
    return C.glist([C.gz(v) for v in l])


def gen_case(rng, maxwin):
    taps = rng.choice([1, 2, 3, 4, 5, 8])
    nb = rng.choice([2, 4, 6, 8, 16, 32, 10, 13, 14, 22, 26, 34])      # "for all num_branches": odd counts and prime factors above 11 included
    if nb >= 13:
        taps = min(taps, 4)
    win = taps * nb
    h = [rng.randint(-9, 9) for _ in range(win)]
    nobj = rng.choice([1, 1, 2, 3])
    cplx = rng.random() < 0.25
    calls = []
    for _ in range(rng.randint(1, 6)):
        k = rng.randint(1, maxwin)
        o = rng.randrange(nobj)
        use_cache = rng.random() < 0.85
        x = [rng.randint(-99, 99) for _ in range(k * win)]
        xi = [rng.randint(-99, 99) for _ in range(k * win)] if cplx else None
        calls.append(dict(obj=o, cache=use_cache, x=x, xi=xi))
    # "arbitrary real or complex input": the stream may arrive in single precision or as integers (one dtype per case: chunks of one stream)
    dt = rng.choice(["double", "double", "single", "int"])
    for cl in calls:
        cl["dtype"] = dt
    return dict(taps=taps, nb=nb, h=h, calls=calls, seed=rng.randint(0, 10 ** 6))


def compositions(n):
    if n == 0:
        yield []
        return
    for k in range(1, n + 1):
        for rest in compositions(n - k):
            yield [k] + rest


def model_exprs(c, part):
    calls = C.glist(["(%d%%nat, %s, %s)" % (cl["obj"], C.gbool(cl["cache"]), gzl(cl[part])) for cl in c["calls"]])
    return "run_multi_z %d%%nat %d%%nat %s %s" % (c["taps"], c["nb"], gzl(c["h"]), calls)


def run(ctx):
    rng = ctx.rng
    quick = ctx.tier == "quick"
    ctx.rule = ("streams of more than 2^22 samples in one call vs two calls vs the definition (implementation only); random (taps, branches, integer window, integer stream) with 1-3 filterbank objects called in interleaved order, cache on/off "
                "per call, real and complex input, chunks of 1..k windows; plus every composition of a stream of n windows into chunks "
                "(n<=6 quick, n<=10 thorough) and scipy windows (hamming/hann/boxcar/blackman) checked chunked-vs-one-shot; "
                "non-trivial = at least one call returned spectra; distinct = distinct case")
    ctx.assumptions = ["numpy's FFT of a row does not depend on the other rows in the batch (re-checked in this run)",
                       "FFT = DFT is validated numerically (1e-9) against the O(n^2) definition, not proved",
                       "scipy.signal.firwin is trusted numerics; the window is data to the model"]
    cases = corpus() + [gen_case(rng, 3 if quick else 5) for _ in range(150 if quick else 2500)]
    # all compositions of n windows
    nmax = 6 if quick else 10
    for comp in compositions(nmax):
        taps, nb = rng.choice([(2, 4), (3, 2), (4, 8), (1, 4)])
        win = taps * nb
        h = [rng.randint(-9, 9) for _ in range(win)]
        calls = [dict(obj=0, cache=True, x=[rng.randint(-99, 99) for _ in range(k * win)], xi=None) for k in comp]
        cases.append(dict(taps=taps, nb=nb, h=h, calls=calls, seed=1))
    # environment assumption check + real windows (implementation-only oracle)
    for wf in ["hamming", "hann", "boxcar", "blackman"]:
        for _ in range(2 if quick else 10):
            c = gen_case(rng, 3)
            c["real_window"] = True
            c["window_fn"] = wf
            c["nomodel"] = True
            order = ["hamming", "hann", "boxcar", "blackman"]
            rng.shuffle(order)
            c["window_order"] = order[:rng.randint(2, 4)]
            cases.append(c)
    exprs = []
    index = []
    for i, c in enumerate(cases):
        if c.get("nomodel"):
            continue
        index.append((i, "x")); exprs.append(model_exprs(c, "x"))
        if c["calls"][0]["xi"] is not None:
            index.append((i, "xi")); exprs.append(model_exprs(c, "xi"))
        index.append((i, "front"))
        exprs.append("rows_z %d%%nat %d%%nat %s %s" % (c["taps"], c["nb"], gzl(c["h"]), gzl(c["calls"][0]["x"])))
    try:
        vals = C.coq_eval(IMPORTS, exprs, shard=60)
    except Exception as ex:
        ctx.model_error(str(ex)[-1500:])
        vals = None
    if vals is not None:
        for (i, part), v in zip(index, vals):
            c = cases[i]
            if part == "front":
                c["front_rows"] = [list(r) for r in v]
            else:
                for cl, rows in zip(c["calls"], v):
                    cl["rows" if part == "x" else "rows_i"] = [list(r) for r in rows]
    impl = []
    for part in C.run_impl_parallel("c08_impl", [dict(cases=ch) for ch in C.chunks(cases, C.NCPU)]):
        impl.extend(part)
    for c, r in zip(cases, impl):
        small = dict(taps=c["taps"], nb=c["nb"], h=c["h"], window_fn=c.get("window_fn"), real_window=c.get("real_window", False),
                     calls=[dict(obj=cl["obj"], cache=cl["cache"], x=cl["x"], xi=cl["xi"], dtype=cl.get("dtype")) for cl in c["calls"]], seed=c.get("seed", 0), window_order=c.get("window_order"))
        ctx.count(small, nontrivial=any(rc["shape"][0] > 0 for rc in r["calls"]))
        ctx.tally("taps", c["taps"]); ctx.tally("branches", c["nb"])
        ctx.tally("input", "complex" if c["calls"][0]["xi"] is not None else "real")
        ctx.tally("input_dtype", c["calls"][0].get("dtype", "double"))
        ctx.tally("calls_per_case", len(c["calls"]))
        ctx.tally("window", "scipy:" + c["window_fn"] if c.get("real_window") else "integer")
        for key, msg in r["fails"]:
            ctx.impl_violation(key, msg, small)
        if vals is not None and not c.get("nomodel"):
            for k, rc in enumerate(r["calls"]):
                if not rc.get("match", True):
                    ctx.mismatch("call %d: channelize output != FFT of the model's front-end rows (shape %s, maxdiff %s)"
                                 % (k, rc["shape"], rc.get("maxdiff")), small)
                    break
            if r.get("front_match") is False:
                ctx.mismatch("pfb_frontend differs from the model rows", small)
    c0 = cases[len(corpus())]
    ctx.sample(dict(taps=c0["taps"], nb=c0["nb"], h=c0["h"][:8], calls=[dict(obj=cl["obj"], cache=cl["cache"], n=len(cl["x"])) for cl in c0["calls"]]))
    # streams of several million samples in one call (implementation only: one call vs two calls vs the definition at a few spectra)
    lcases = []
    for _ in range(3 if quick else 12):
        taps = rng.choice([3, 5, 6, 4]); nb = rng.choice([64, 32, 48])
        lcases.append(dict(taps=taps, nb=nb, windows=(2 ** 22 + rng.randint(1, 2 ** 19)) // (taps * nb) + rng.randint(2, 9), seed=rng.randint(0, 10 ** 6), window_fn=rng.choice(["hamming", "hann"])))
    lres = []
    for part in C.run_impl_parallel("c08_impl", [dict(mode="long", cases=[c]) for c in lcases]):
        lres.extend(part)
    for c, r in zip(lcases, lres):
        ctx.count(dict(k="long", c=c), nontrivial=True)
        ctx.tally("long_stream_samples_log2", int(math.log2(c["windows"] * c["taps"] * c["nb"])))
        for key, msg in r["fails"]:
            ctx.impl_violation(key, msg, dict(k="long", **c))


def corpus():
    p = os.path.join(C.ROOT, "corpus", "c08.json")
    return json.load(open(p)) if os.path.exists(p) else []


def replay(ctx, payload):
    case = payload["case"]
    r = C.run_impl("c08_impl", dict(mode="long", cases=[case]))[0] if case.get("k") == "long" else C.run_impl("c08_impl", dict(cases=[case]))[0]
    for k, m in r["fails"]:
        print("FAILS: %s: %s" % (k, m))
    print("replay: %d property failure(s) on %s" % (len(r["fails"]), C.REPO))
    return 1 if r["fails"] else 0
