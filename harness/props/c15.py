"""C15 -- shared background delayed per antenna.  Integer-tag sources: every output sample names the
own-stream index and the background index it was built from; compared with the Gallina model
(vm_compute) and with the property formula own[k] + bg[k + maxd - d]."""
import json
import os
from harness import common as C

IMPORTS = "From Coq Require Import List ZArith.\nFrom SV Require Import Model.AntArray.\nImport ListNotations.\n"


def compositions(total, rng, minsize):
    parts = []
    left = total
    while left > 0:
        k = rng.randint(minsize, max(minsize, min(left, minsize + 12)))
        if left - k < minsize and left - k != 0:
            k = left
        parts.append(k)
        left -= k
    return parts


def gen_case(rng):
    nants = rng.randint(1, 5)
    num_pols = rng.choice([1, 2])
    r = rng.random()
    if r < 0.12:
        delays = None
    elif r < 0.25:
        delays = [0] * nants
    else:
        delays = [rng.randint(0, 7) for _ in range(nants)]
    maxd = max(delays) if delays else 0
    t0 = rng.choice([0, 0, 5, 1000])
    ops = []
    clock = t0
    pinned = [t0]
    for seg in range(rng.randint(1, 3)):
        for n in compositions(rng.randint(maxd + 1, 40 + maxd), rng, maxd + 1):
            ops.append(["get", n]); clock += n
        if seg < 2 and rng.random() < 0.7:
            k = rng.choice(["set_time", "reset_start", "add_time"])
            if k == "set_time":
                # also back to exactly a time the array was pinned at before (its construction time, an earlier set_time): a replay
                t = rng.choice([rng.randint(0, 3000), t0, pinned[-1], pinned[-1]]); ops.append([k, t]); clock = t; pinned.append(t)
            elif k == "add_time":
                t = rng.randint(0, 50); ops.append([k, t]); clock += t
            else:
                ops.append([k])
    own_base = [[10 ** 7 * (1 + 2 * i + p) for p in range(num_pols)] for i in range(nants)]
    bg_base = [10 ** 9 * (1 + p) for p in range(num_pols)]
    return dict(nants=nants, num_pols=num_pols, delays=delays, t0=t0, ops=ops, own_base=own_base, bg_base=bg_base, seed=rng.randint(0, 999))


def model_ops(c):
    """ops with clocks resolved to absolute SetTime t (clock arithmetic belongs to C10)"""
    out = []
    clock = c["t0"]
    for op in c["ops"]:
        if op[0] == "get":
            out.append("Get %d%%nat" % op[1]); clock += op[1]
        elif op[0] == "set_time":
            clock = op[1]; out.append("SetTime %d%%nat" % clock)
        elif op[0] == "add_time":
            clock += op[1]; out.append("SetTime %d%%nat" % clock)
        else:
            out.append("SetTime %d%%nat" % clock)
    return C.glist(out)


def expected(c):
    """property formula evaluated directly"""
    delays = c["delays"] if c["delays"] is not None else [0] * c["nants"]
    maxd = max(delays)
    res = []
    clock = c["t0"]
    for op in c["ops"]:
        if op[0] == "get":
            n = op[1]
            res.append([[[c["own_base"][i][p] + k + c["bg_base"][p] + k + maxd - delays[i] for k in range(clock, clock + n)]
                         for p in range(c["num_pols"])] for i in range(c["nants"])])
            clock += n
        elif op[0] == "set_time":
            clock = op[1]
        elif op[0] == "add_time":
            clock += op[1]
    return res


def run(ctx):
    rng = ctx.rng
    quick = ctx.tier == "quick"
    ctx.rule = ("1-5 antennas, delays 0-7 (unsorted, repeated, all-zero, omitted default), 1-2 pols, 1-3 observation segments each a random "
                "partition into requests larger than the largest delay, separated by set_time / add_time / reset_start; integer-tag sources; "
                "non-trivial = at least two requests in one segment; distinct = distinct case")
    ctx.assumptions = ["tags are integers < 2^53 at a dyadic sample rate, so double arithmetic is exact",
                       "the clock value handed to set_time is resolved by the harness (clock arithmetic is C10's subject)"]
    cases = corpus() + [gen_case(rng) for _ in range(120 if quick else 2500)]
    exprs = []
    idx = []
    for ci, c in enumerate(cases):
        delays = c["delays"] if c["delays"] is not None else [0] * c["nants"]
        maxd = max(delays)
        for i in range(c["nants"]):
            for p in range(c["num_pols"]):
                exprs.append("run Z (fun k => (%d + Z.of_nat k)%%Z) (fun k => (%d + Z.of_nat k)%%Z) Z.add %d%%nat %d%%nat (reset Z %d%%nat) %s"
                             % (c["own_base"][i][p], c["bg_base"][p], maxd, delays[i], c["t0"], model_ops(c)))
                idx.append((ci, i, p))
    try:
        vals = C.coq_eval(IMPORTS, exprs, shard=120)
    except Exception as ex:
        ctx.model_error(str(ex)[-1500:]); vals = None
    impl = []
    for part in C.run_impl_parallel("c15_impl", [dict(cases=ch) for ch in C.chunks(cases, C.NCPU)]):
        impl.extend(part)
    model = {}
    if vals is not None:
        for (ci, i, p), v in zip(idx, vals):
            model[(ci, i, p)] = [list(x) for x in v]
    for ci, (c, r) in enumerate(zip(cases, impl)):
        ngets = sum(1 for o in c["ops"] if o[0] == "get")
        ctx.count(c, nontrivial=ngets >= 2)
        ctx.tally("nants", c["nants"]); ctx.tally("pols", c["num_pols"])
        ctx.tally("delays", "omitted" if c["delays"] is None else ("all-zero" if not any(c["delays"]) else "mixed"))
        ctx.tally("requests", ngets)
        small = dict(c)
        if "error" in r:
            key = "default-delays-crash" if c["delays"] is None else "raises"
            ctx.impl_violation(key, "MultiAntennaArray %s with delays=%s" % (r["error"], c["delays"]), small)
            continue
        exp = expected(c)
        if r["out"] != exp:
            # locate first difference
            msg = "output differs from own[k] + bg[k + maxd - d]"
            for g, (a, b) in enumerate(zip(r["out"], exp)):
                if a != b:
                    for i in range(c["nants"]):
                        for p in range(c["num_pols"]):
                            if a[i][p] != b[i][p]:
                                j = next(j for j in range(len(b[i][p])) if j >= len(a[i][p]) or a[i][p][j] != b[i][p][j])
                                msg += " at request %d antenna %d pol %d sample %d: got %s expected %s" % (
                                    g, i, p, j, a[i][p][j] if j < len(a[i][p]) else None, b[i][p][j])
                                break
                        else:
                            continue
                        break
                    break
            ctx.impl_violation("alignment", msg, small)
        if vals is not None:
            for i in range(c["nants"]):
                for p in range(c["num_pols"]):
                    got = [req[i][p] for req in r["out"]]
                    if model[(ci, i, p)] != got:
                        ctx.mismatch("antenna %d pol %d: model and implementation differ" % (i, p), small)
                        break
    ctx.sample(dict(case=dict((k, cases[-1][k]) for k in ("nants", "num_pols", "delays", "t0", "ops"))))


def corpus():
    p = os.path.join(C.ROOT, "corpus", "c15.json")
    return json.load(open(p)) if os.path.exists(p) else []


def replay(ctx, payload):
    c = payload["case"]
    r = C.run_impl("c15_impl", dict(cases=[c]))[0]
    bad = "error" in r or r["out"] != expected(c)
    print(r.get("error", "ran"))
    print("replay: property %s on %s" % ("FAILS" if bad else "holds", C.REPO))
    return 1 if bad else 0
