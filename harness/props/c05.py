"""C05 -- frame axes and conversions.  The binary64 kernels of Model/Grid.v (numpy's operations in
numpy's order) are compared bit for bit with frames built through every construction route; the exact
statements of the property are evaluated on the implementation (and, for the discrete results,
compared with the exact rational model: a divergence is a double rounding that breaks the property)."""
import json
import math
import os
from fractions import Fraction
from harness import common as C

IMPORTS = "From Coq Require Import List ZArith QArith PrimFloat.\nFrom SV Require Import Base.F64 Base.Rounding Model.Grid.\nImport ListNotations.\n"


def gf(x):
    return "(%s)%%float" % float(x).hex()


def f2(x):
    return math.ldexp(x[0], x[1])


def gen_case(rng):
    route = rng.choice(["sizes", "sizes", "units", "shape", "data", "from_data", "backend", "units_scaled"])
    r = rng.random()
    if r < 0.4:
        df = rng.choice([2.7939677238464355, 2.835503418452676, 1.0, 0.5, 3.0517578125])
        dt = rng.choice([18.253611008, 1.0, 0.33554432, 17.986224])
    elif r < 0.7:
        df = rng.uniform(0.1, 1000.0); dt = rng.uniform(0.01, 100.0)
    else:
        df = float(rng.choice([1, 2, 3, 10, 1000])); dt = float(rng.choice([1, 2, 5, 30]))
    fch1 = rng.choice([6e9, 8.4e9, 1.42040575e9, 1e9, rng.uniform(1e8, 1e10), float(rng.randint(10 ** 8, 10 ** 10))])
    F = rng.choice([1, 2, 8, 33, 256, 1024, 4096, rng.randint(1, 5000), 2 ** rng.randint(10, 20)])
    T = rng.choice([1, 2, 16, 33, rng.randint(1, 300)])
    if rng.random() < 0.2:
        # (count, step) pairs for which a float-stepped range of count*step miscounts: "the time axis is i*dt", exactly tchans entries
        T, dt = rng.choice([(15, 1.073741824), (30, 1.073741824), (60, 1.073741824), (3, 0.1), (6, 0.1), (29, 0.1), (15, 1.4316557653333333), (49, 1.4316557653333333),
                            (59, 1.4316557653333333), (126, 1.073741824)])
    if F * T > 2 ** 19:          # keep frames small: every frame allocates F*T doubles and sigma-clips them
        T = max(1, 2 ** 19 // F)
    asc = rng.random() < 0.5
    c = dict(route=route, F=F, T=T, df=float(df).hex(), dt=float(dt).hex(), fch1=float(fch1).hex(), ascending=asc)
    if route != "backend" and rng.random() < 0.12:
        c["neg_df"] = True
    if rng.random() < 0.2:
        c["flag_kind"] = rng.choice(["numpy", "int"])       # the orientation flag as a numpy bool or 0 / 1: a truth value, not the literal True
    if route == "backend":
        sr = rng.choice([3e9, 2.0 ** 31, 1e9]); nb = rng.choice([64, 1024]); ffl = rng.choice([1024, 1048576, 4096]); intf = rng.randint(1, 51)
        cbw = sr / nb; dfb = cbw / ffl; dtb = intf / dfb
        obs = rng.choice([300.0, rng.uniform(1, 5) * dtb * rng.randint(1, 40), dtb * rng.randint(1, 50)])
        c["backend"] = dict(sample_rate=float(sr).hex(), nb=nb, fftlength=ffl, int_factor=intf, obs_length=float(obs).hex())
        c["df"] = float(dfb).hex(); c["dt"] = float(dtb).hex(); c["T"] = int(obs / dtb)
        if c["T"] < 1:
            c["backend"]["obs_length"] = float(dtb * 3.5).hex(); c["T"] = int((dtb * 3.5) / dtb)
        c["backend"]["with_data"] = rng.random() < 0.4      # channel count inferred from a preloaded array instead of fchans
        c["F"] = min(F, 4096)
        if c["F"] * c["T"] > 2 ** 19:
            c["F"] = max(1, 2 ** 19 // c["T"])
    F = c["F"]; T = c["T"]
    c["probes_f"] = sorted(set([0, F - 1, F // 2] + [rng.randrange(F) for _ in range(5)]))
    c["probes_t"] = sorted(set([0, T - 1] + [rng.randrange(T) for _ in range(3)]))
    dfv = float.fromhex(c["df"]); f1 = float.fromhex(c["fch1"])
    fmin = f1 if asc else f1 - (F - 1) * dfv
    freqs = []
    for _ in range(6):
        j = rng.randrange(F)
        k = rng.random()
        off = rng.choice([0.0, 0.25, -0.25, 0.49, -0.49, 0.5, -0.5]) if k < 0.7 else rng.uniform(-0.5, 0.5)
        freqs.append(fmin + (j + off) * dfv)
    c["freqs"] = [float(f).hex() for f in freqs]
    return c


def run(ctx):
    rng = ctx.rng
    quick = ctx.tier == "quick"
    ctx.rule = ("frames built by explicit sizes, shape=, data=, from_data, from_backend_params, unit-carrying (Hz/s/pixel and kHz/MHz) arguments; "
                "df/dt realistic (2.79 Hz, 18.25 s), random and integral; fch1 1e8..1e10; fchans 1..2^20; both orientations; probes at first / "
                "last / middle / random channels, frequencies on channels, quarter / near-half / exactly half channel off; "
                "non-trivial = more than one channel; distinct = distinct case")
    ctx.assumptions = ["numpy.linspace(endpoint=False)[j] = j*((stop-start)/num) + start and np.round = rint (validated bit for bit by this run)",
                       "the exact theorems speak about rational arithmetic; for doubles the round trip / nearest-channel claims are checked on the "
                       "implementation for every channel of every generated frame (sampling of geometries, not a proof)"]
    cases = corpus() + [gen_case(rng) for _ in range(150 if quick else 4000)]
    impl = []
    for part in C.run_impl_parallel("c05_impl", [dict(cases=ch) for ch in C.chunks(cases, C.NCPU)]):
        impl.extend(part)
    exprs = []
    for c, r in zip(cases, impl):
        if "crash" in r:
            exprs.extend(["0%Z"] * 5)
            continue
        F, T, asc = c["F"], c["T"], c["ascending"]
        df, dt, f1 = float.fromhex(c["df"]), float.fromhex(c["dt"]), float.fromhex(c["fch1"])
        fmin = "(fmin_f %s %s %s %s)" % (C.gz(F), gf(df), gf(f1), C.gbool(asc))
        exprs.append(C.glist(["obs (fs_f %s %s %s %s %s)" % (C.gz(F), gf(df), gf(f1), C.gbool(asc), C.gz(j)) for j in r["pj"]]))
        exprs.append(C.glist(["obs (ts_f %s %s %s)" % (C.gz(T), gf(dt), C.gz(i)) for i in r["pi"]]))
        exprs.append("(obs %s, chi2_df_f %s %s)" % (fmin, gf(df), gf(dt)))
        exprs.append(C.glist(["get_index_f %s %s %s" % (fmin, gf(df), gf(float.fromhex(f))) for f in c["freqs"]]))
        exprs.append(C.glist(["obs (get_frequency_f %s %s %s)" % (fmin, gf(df), C.gz(j)) for j in r["pj"]]))
    try:
        vals = C.coq_eval(IMPORTS, exprs, shard=250)
    except Exception as ex:
        ctx.model_error(str(ex)[-1500:]); vals = None
    for i, (c, r) in enumerate(zip(cases, impl)):
        F, T, asc = c["F"], c["T"], c["ascending"]
        df, dt, f1 = float.fromhex(c["df"]), float.fromhex(c["dt"]), float.fromhex(c["fch1"])
        exact = c["route"] != "units_scaled"
        ctx.count(c, nontrivial=F > 1)
        if "crash" in r:
            ctx.impl_violation("frame-unusable", "building / probing a %dx%d frame (route %s, df %r, dt %r) raised %s" % (T, F, c["route"], df, dt, r["crash"]), c)
            continue
        ctx.tally("route", c["route"]); ctx.tally("df_sign_given", "-" if c.get("neg_df") else "+"); ctx.tally("orientation", "asc" if asc else "desc"); ctx.tally("log2_fchans", int(math.log2(F)) if F else 0)

        def bad(key, msg):
            ctx.impl_violation(key, msg, c)
        fmin = float.fromhex(r["fmin"]); fmax = float.fromhex(r["fmax"])
        tol = 8 * math.ulp(max(abs(f1), abs(fmin), abs(fmax)))
        # ---- property on the implementation
        if r["F"] != F or r["T"] != T or r["len_fs"] != F or r["len_ts"] != T or r["shape"] != [T, F] or r["data_shape"] != [T, F]:
            bad("shape", "frame has fchans=%s tchans=%s, axes %d/%d, shape %s; requested %d x %d" % (r["F"], r["T"], r["len_fs"], r["len_ts"], r["shape"], T, F))
            continue
        if r["ascending"] != asc:
            bad("orientation-lost", "frame built with ascending=%s reports ascending=%s (route %s)" % (asc, r["ascending"], c["route"]))
        if exact and (float.fromhex(r["df"]) != df or float.fromhex(r["dt"]) != dt or float.fromhex(r["fch1"]) != f1):
            bad("resolution", "df/dt/fch1 %r/%r/%r differ from the arguments %r/%r/%r" % (float.fromhex(r["df"]), float.fromhex(r["dt"]), float.fromhex(r["fch1"]), df, dt, f1))
        want_fmin = f1 if asc else f1 - (F - 1) * df
        if abs(fmin - want_fmin) > tol or abs(fmax - (want_fmin + (F - 1) * df)) > tol:
            bad("fch1-role", "fmin/fmax %r/%r; fch1=%r should be %s" % (fmin, fmax, f1, "fmin" if asc else "fmax"))
        if not r["increasing"] or not r["fs0_is_fmin"] or not r["fsN_is_fmax"]:
            bad("axis-order", "frequency axis not strictly increasing from fmin to fmax in memory")
        if float.fromhex(r["max_dev"]) > tol:
            bad("axis-uniform", "fs deviates from fmin + j*df by %r Hz" % float.fromhex(r["max_dev"]))
        if float.fromhex(r["ts_max_dev"]) > 8 * math.ulp(max(T * dt, 1e-300)):
            bad("time-axis", "ts deviates from i*dt by %r s" % float.fromhex(r["ts_max_dev"]))
        if r["len_ts_ext"] != T + 1 or abs(float.fromhex(r["ts_ext_last"]) - T * dt) > 8 * math.ulp(T * dt):
            bad("ts-ext", "ts_ext has %d entries ending at %r" % (r["len_ts_ext"], float.fromhex(r["ts_ext_last"])))
        if not r.get("ts_ext_follows_ts", True):
            bad("ts-ext", "ts_ext is not the frame's time axis plus one step when that axis does not start at 0 (as inside a cadence)")
        if r.get("retime"):
            bad("derived-after-retime", r["retime"])
        if not r["roundtrip_all"]:
            bad("index-roundtrip", "get_index(get_frequency(j)) != j for some channel (fchans=%d, fch1/df=%.3g)" % (F, f1 / df))
        if not r["index_of_fs_all"]:
            bad("index-of-axis", "get_index(fs[j]) != j for some channel")
        for f, idx in zip(c["freqs"], r["get_index"]):
            fv = Fraction(float.fromhex(f)); q = (fv - Fraction(fmin)) / Fraction(df)
            if abs(q - idx) > Fraction(1, 2) + Fraction(1, 10 ** 6):
                bad("nearest", "get_index(%r) = %d but the frequency is %.4f channels from fmin" % (float.fromhex(f), idx, float(q)))
        for un, got in sorted(r.get("get_index_units", {}).items()):
            if isinstance(got, str):
                bad("index-units", "get_index with a frequency in %s %s" % (un, got)); continue
            for f, idx in zip(c["freqs"], got):
                fv = Fraction(float.fromhex(f)); q = (fv - Fraction(fmin)) / Fraction(df)
                if abs(q - idx) > Fraction(1, 2) + Fraction(1, 10 ** 4):
                    bad("index-units", "get_index(%r Hz expressed in %s) = %d but the frequency is %.4f channels from fmin" % (float.fromhex(f), un, idx, float(q)))
                    break
        ga = r.get("get_index_array")
        if ga is not None and ga != r["get_index"]:
            bad("index-array", "get_index of an array of frequencies gives %s, element by element %s" % (ga, r["get_index"]))
        if abs(float.fromhex(r["fmid"]) - (fmin + fmax) / 2) > tol or float.fromhex(r["obs_length"]) != T * dt or \
                float.fromhex(r["unit_drift_rate"]) != float.fromhex(r["df"]) / float.fromhex(r["dt"]) or abs(float.fromhex(r["t_stop"]) - (float.fromhex(r["t_start"]) + T * dt)) > 1e-6:
            bad("derived", "fmid / obs_length / unit_drift_rate / t_stop inconsistent with the grid")
        if r["pj"] and r["drift_rate"] is not None:
            a, b = r["pj"][0], r["pj"][-1]
            want = (b - a) * float.fromhex(r["df"]) / (T * float.fromhex(r["dt"]))
            if abs(float.fromhex(r["drift_rate"]) - want) > 1e-12 * max(1.0, abs(want)):
                bad("derived", "get_drift_rate(%d,%d) = %r, grid says %r" % (a, b, float.fromhex(r["drift_rate"]), want))
        if r["twin_fs_dev"] is None or float.fromhex(r["twin_fs_dev"]) > tol or not r["twin_ts_equal"]:
            bad("orientation-twin", "the frame describing the same band with the opposite orientation flag has different axes (max %s Hz)" % (r["twin_fs_dev"] and float.fromhex(r["twin_fs_dev"])))
        # ---- model vs implementation (bit exact)
        if vals is not None and exact:
            mfs, mts, (mfmin_m, mfmin_e, mchi), midx, mgf = vals[5 * i:5 * i + 5]
            if [f2(x) for x in mfs] != [float.fromhex(x) for x in r["fs"]]:
                ctx.mismatch("fs at probes %s: binary64 kernel %s, implementation %s" % (r["pj"], [f2(x) for x in mfs][:3], [float.fromhex(x) for x in r["fs"]][:3]), c)
            if [f2(x) for x in mts] != [float.fromhex(x) for x in r["ts"]]:
                ctx.mismatch("ts at probes: binary64 kernel differs", c)
            if f2((mfmin_m, mfmin_e)) != fmin or mchi != r["chi2_df"]:
                ctx.mismatch("fmin / chi2_df: kernel %r/%s, implementation %r/%s" % (f2((mfmin_m, mfmin_e)), mchi, fmin, r["chi2_df"]), c)
            if list(midx) != r["get_index"]:
                ctx.mismatch("get_index: kernel %s, implementation %s" % (list(midx), r["get_index"]), c)
            if [f2(x) for x in mgf] != [float.fromhex(x) for x in r["get_frequency"]]:
                ctx.mismatch("get_frequency: kernel differs", c)
    ctx.sample(dict(case=dict((k, cases[-1][k]) for k in ("route", "F", "T", "ascending")), df=float.fromhex(cases[-1]["df"]), fch1=float.fromhex(cases[-1]["fch1"]),
                    impl=dict((k, impl[-1][k]) for k in ("fmin", "fmax", "roundtrip_all", "increasing", "get_index"))))


def corpus():
    p = os.path.join(C.ROOT, "corpus", "c05.json")
    return json.load(open(p)) if os.path.exists(p) else []


def replay(ctx, payload):
    c = payload["case"]
    r = C.run_impl("c05_impl", dict(cases=[c]))[0]
    print(json.dumps(r, indent=1)[:2500])
    return 0
