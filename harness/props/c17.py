"""C17 -- derived frames keep data and axis registration.  Slices / de-drifted frames / integrations of
frames with distinct integer data: data, axes, rejection and inherited attributes against the rational
model (Model/Derived.v) and against the property statement evaluated on the implementation."""
import json
import math
import os
from fractions import Fraction
from harness import common as C

IMPORTS = ("From Coq Require Import List ZArith QArith.\nFrom SV Require Import Base.Tab Model.Derived.\nImport ListNotations.\nLocal Open Scope Q_scope.\n"
           "Definition qo (q : Q) : Z * Z := let r := Qred q in (Qnum r, Zpos (Qden r)).\n")


def gq(x):
    return C.gq(Fraction(x))


def gen_case(rng):
    T = rng.choice([1, 2, 4, 8, 3, 5]); F = rng.choice([4, 8, 16, 6, 11, 24])
    df = float(rng.choice([1, 2, 4])); dt = float(rng.choice([1, 2]))
    asc = rng.random() < 0.5
    fmin = float(rng.choice([1000, 4096]))
    c = dict(T=T, F=F, df=df, dt=dt, fch1=fmin if asc else fmin + (F - 1) * df, ascending=asc, fmin=fmin,
             data=[[float(i * F + j + 1) for j in range(F)] for i in range(T)], from_file=None)
    if rng.random() < 0.2 and T >= 3 and F >= 3:
        c["from_file"] = rng.choice(["fil", "h5"])
    k = rng.random()
    unit = df / dt
    if k < 0.3:
        l = rng.randint(0, F - 1); r = rng.randint(l + 1, F)
        c["op"] = ["slice", l, r]
        if rng.random() < 0.25:
            # "all slice bounds": Python-style negative bounds name the same columns counted from the end
            lr = l - F if rng.random() < 0.6 else l
            rr = r - F if (r < F and rng.random() < 0.6) else r
            c["raw_bounds"] = [lr, rr]
    elif k < 0.7:
        D = rng.choice([0.0, 0.5, -0.5, 1.0, -1.0, 1.5, -1.5, 2.0, 0.25, -0.75, 3.0, -3.0, 0.125]) * rng.choice([1, 1, 2])
        d = D * unit
        if rng.random() < 0.25:
            c["meta_drift"] = d; c["op"] = ["dedrift", None]
        else:
            c["op"] = ["dedrift", d]
            if rng.random() < 0.4:      # metadata may record some other rate: an explicit argument (zero included) wins
                c["meta_drift"] = rng.choice([1.0, -1.5, 0.5, 2.0]) * unit
        c["D"] = D
        if rng.random() < 0.25:
            # a frame whose time axis does not start at 0 (what Cadence.consolidate returns: absolute times): row i is still i*dt after row 0
            c["ts_origin"] = rng.choice([1.7e9, 37.5, 3600.0])
    elif k < 0.85:
        c["op"] = ["integrate", rng.choice(["t", "f", 0, 1]), rng.choice(["mean", "sum", "s", "m"]), rng.random() < 0.5]
    elif k < 0.93:
        c["op"] = ["spectrum", rng.choice(["mean", "sum"])]
    else:
        c["op"] = ["timeseries", rng.choice(["mean", "sum"])]
    if rng.random() < 0.2:
        c["t_start_zero"] = True
    if c["op"][0] in ("integrate", "spectrum", "timeseries") and rng.random() < 0.45:
        c["normalize"] = True
        if rng.random() < 0.5 and T * F >= 12:
            # an outlier, so that the sigma clipping of the normalisation has something to reject
            c["data"][rng.randrange(T)][rng.randrange(F)] += float(rng.choice([1000, 5000, -3000])) * T * F
    return c


def clip_stats(x):
    """mean and deviation after 3-sigma clipping about the median, at most 5 rounds (written from the description of the
    estimator astropy.stats.sigma_clip implements with its defaults; population deviation)"""
    x = list(x)
    for _ in range(5):
        srt = sorted(x); n = len(srt)
        med = srt[n // 2] if n % 2 else 0.5 * (srt[n // 2 - 1] + srt[n // 2])
        mu = sum(x) / n
        sd = (sum((v - mu) ** 2 for v in x) / n) ** 0.5
        keep = [v for v in x if med - 3 * sd <= v <= med + 3 * sd]
        if len(keep) == len(x):
            break
        x = keep
    mu = sum(x) / len(x)
    return mu, (sum((v - mu) ** 2 for v in x) / len(x)) ** 0.5


def g_frame(c):
    return ("{| T := %d%%nat; F := %d%%nat; df := %s; dt := %s; fmin := %s; ascending := %s; t_start := 12345; source := 1%%nat; data := %s |}"
            % (c["T"], c["F"], gq(c["df"]), gq(c["dt"]), gq(c["fmin"]), C.gbool(c["ascending"]),
               C.glist([C.glist([gq(x) for x in row]) for row in c["data"]])))


def g_expr(c):
    op = c["op"]
    fr = g_frame(c)
    show = "(1%%Z, Z.of_nat (F x), qo (fmin x), map (map qo) (data x))"
    if op[0] == "slice":
        return "let x := get_slice %s %d%%nat %d%%nat in %s" % (fr, op[1], op[2], show.replace("%%", "%"))
    if op[0] == "dedrift":
        d = c["meta_drift"] if op[1] is None else op[1]
        return "match dedrift %s %s with Ok x => %s | Err => (0%%Z, 0%%Z, (0%%Z, 1%%Z), []) end" % (fr, gq(d), show.replace("%%", "%"))
    axis_f = (op[0] == "timeseries") or (op[0] == "integrate" and op[1] in ("f", 1))
    mode = op[1] if op[0] != "integrate" else op[2]
    mean = C.gbool(mode[0] != "s")
    return "map qo (%s %s %s)" % ("timeseries" if axis_f else "spectrum", fr, mean)


def fr_of(h):
    return Fraction(float.fromhex(h))


def run(ctx):
    rng = ctx.rng
    quick = ctx.tier == "quick"
    ctx.rule = ("frames up to 8 x 24 with distinct integer pixels on an exact grid, both orientations, synthetic or loaded from .fil/.h5; every "
                "slice [l,r); de-drift by 0, +-1/8 .. +-6 channels per step (argument or metadata), including rates beyond the frame's limit; "
                "de-drifting also of frames whose time axis starts at 37.5 / 3600 / 1.7e9 s (as a consolidated cadence's does); integrate over either axis with sum/mean and every axis/mode alias, as array or frame; spectrum / timeseries; each with and without normalisation (ramp data, half of them with an outlier); "
                "non-trivial = derived object has more than one pixel; distinct = distinct case")
    ctx.assumptions = ["normalisation (normalize=True) is compared to 1e-9 with (x - m) / s for m, s from an independent 3-sigma clipping about the median (the model and its theorems cover the un-normalised integration)", "means over non-power-of-two counts are compared to 1e-12"]
    cases = corpus() + [gen_case(rng) for _ in range(200 if quick else 4000)]
    impl = []
    for part in C.run_impl_parallel("c17_impl", [dict(cases=ch) for ch in C.chunks(cases, C.NCPU)]):
        impl.extend(part)
    try:
        vals = C.coq_eval(IMPORTS, [g_expr(c) for c in cases], shard=100)
    except Exception as ex:
        ctx.model_error(str(ex)[-2000:]); vals = [None] * len(cases)
    for c, r, mv in zip(cases, impl, vals):
        op = c["op"]
        ctx.tally("op", op[0]); ctx.tally("parent", c["from_file"] or "synthetic"); ctx.tally("orientation", "asc" if c["ascending"] else "desc"); ctx.tally("time_axis_origin", c.get("ts_origin", 0)); ctx.tally("slice_bounds_negative", bool(c.get("raw_bounds")) if op[0] == "slice" else "n/a")
        T, F, df, dt, fmin = c["T"], c["F"], c["df"], c["dt"], c["fmin"]
        data = c["data"]

        def bad(key, msg):
            ctx.impl_violation(key, msg, c)
        res = r.get("res")
        ctx.count(c, nontrivial=(res is not None and res["shape"][0] * res["shape"][1] > 1) or "array" in r)
        for key, msg in r["fails"]:
            bad(key, msg)
        # ---------------- property oracle
        if op[0] == "slice":
            l, rr = op[1], op[2]
            if r["err"] is not None:
                bad("slice-raises", "get_slice(%d,%d) raised %s" % (l, rr, r["err"])); continue
            want = [[row[j] for j in range(l, rr)] for row in data]
            got = [[float.fromhex(x) for x in row] for row in res["data"]]
            if got != want:
                bad("slice-data", "slice [%d,%d) does not hold columns %d..%d of the data" % (l, rr, l, rr - 1))
            pfs = [float.fromhex(x) for x in r["parent"]["fs"]]
            tolf = 1e-6 * df
            if res["nfs"] != rr - l or abs(float.fromhex(res["fs0"]) - pfs[l]) > tolf or abs(float.fromhex(res["fsN"]) - pfs[rr - 1]) > tolf:
                bad("slice-axis", "slice [%d,%d): frequency axis %s..%s (%d), expected %s..%s" % (l, rr, float.fromhex(res["fs0"]), float.fromhex(res["fsN"]), res["nfs"], fmin + l * df, fmin + (rr - 1) * df))
        elif op[0] == "dedrift":
            d = c["meta_drift"] if op[1] is None else op[1]
            D = abs(d) * dt / df

            def rhe(q):
                q = Fraction(q); fl = math.floor(q); x = q - fl
                return fl if x < Fraction(1, 2) else fl + 1 if x > Fraction(1, 2) else (fl if fl % 2 == 0 else fl + 1)
            mo = rhe(Fraction(D) * T)
            if mo >= F:
                if r["err"] != "ValueError":
                    bad("dedrift-not-rejected", "drift %.3g ch/step over %d steps leaves no channels of %d but was not rejected (%s)" % (D, T, F, r["err"]))
                continue
            if r["err"] is not None:
                bad("dedrift-raises", "dedrift(%.3g ch/step) raised %s though %d channels remain" % (D, r["err"], F - mo)); continue
            W = F - mo
            want = []
            for i in range(T):
                off = rhe(Fraction(D) * i)
                want.append(data[i][off:off + W] if d >= 0 else data[i][F - off - W:F - off])
            got = [[float.fromhex(x) for x in row] for row in res["data"]]
            if got != want:
                bad("dedrift-data", "de-drifted rows are not the input rows shifted by round(|d| i dt/df) (drift %.3g ch/step)" % (d * dt / df))
            lo = 0 if d >= 0 else mo
            pfs = [float.fromhex(x) for x in r["parent"]["fs"]]
            if res["nfs"] != W or abs(float.fromhex(res["fs0"]) - pfs[lo]) > 1e-6 * df:
                bad("dedrift-axis", "de-drifted axis starts at %s, row 0's first pixel came from %s (drift %.3g ch/step, %s)"
                    % (float.fromhex(res["fs0"]), fmin + lo * df, d * dt / df, "ascending" if c["ascending"] else "descending"))
        else:
            axis_f = (op[0] == "timeseries") or (op[0] == "integrate" and op[1] in ("f", 1))
            mode = op[1] if op[0] != "integrate" else op[2]
            if r["err"] is not None:
                bad("integrate-raises", "%s raised %s" % (op, r["err"])); continue
            if axis_f:
                want = [sum(row) / (F if mode[0] != "s" else 1) for row in data]
            else:
                want = [sum(data[i][j] for i in range(T)) / (T if mode[0] != "s" else 1) for j in range(F)]
            if "array" in r:
                got = [float.fromhex(x) for x in r["array"]]
            else:
                got = [float.fromhex(x) for row in res["data"] for x in row]
            if c.get("normalize"):
                gotn, got = got, [float.fromhex(x) for x in r["raw"]]
                mu, sd = clip_stats(want)
                ctx.tally("normalised", "degenerate (zero deviation)" if sd == 0 else "yes")
                if sd > 0:
                    wn = [(v - mu) / sd for v in want]
                    if len(gotn) != len(wn) or any(not abs(a - b) <= 1e-9 * max(1.0, abs(b)) for a, b in zip(gotn, wn)):
                        bad("integrate-normalised", "%s with normalisation (%s): values %s..., expected (x - clipped mean) / clipped deviation = %s..." %
                            (op, "object" if res is not None else "array", gotn[:3], wn[:3]))
            if len(got) != len(want) or any(abs(a - b) > 1e-12 * max(1.0, abs(b)) for a, b in zip(got, want)):
                bad("integrate-values", "%s: values %s..., expected %s..." % (op, got[:3], want[:3]))
            if res is not None:
                par = r["parent"]
                if axis_f:
                    if res["cls"] != "TimeSeries" or res["nts"] != T or float.fromhex(res["ts_last"]) != float.fromhex(par["ts"][-1]):
                        bad("integrate-axis", "time series does not carry the parent's time axis")
                else:
                    if res["cls"] != "Spectrum" or res["nfs"] != F or res["fs0"] != par["fs"][0] or res["fsN"] != par["fs"][-1]:
                        bad("integrate-axis", "spectrum does not carry the parent's frequency axis")
        if res is not None:
            par = r["parent"]
            if res["ascending"] != c["ascending"] or float.fromhex(res["dt"]) != dt and op[0] in ("slice", "dedrift") or float.fromhex(res["df"]) != df and op[0] in ("slice", "dedrift"):
                bad("meta-lost", "derived frame has orientation/resolutions %s/%s/%s" % (res["ascending"], float.fromhex(res["df"]), float.fromhex(res["dt"])))
            if res["t_start"] != par["t_start"] or res["source_name"] != par["source_name"]:
                bad("meta-not-inherited", "%s result has t_start=%r source_name=%r, parent %r %r" % (op[0], res["t_start"], res["source_name"], par["t_start"], par["source_name"]))
            if res["shares"]:
                bad("view-not-copy", "derived frame's data shares memory with the parent's")
        # ---------------- model vs implementation
        if mv is not None:
            if op[0] in ("slice", "dedrift"):
                ok, Fm, fminm, mdata = mv
                if (ok == 0) != (r["err"] is not None):
                    ctx.mismatch("%s: model %s, implementation %s" % (op, "rejects" if ok == 0 else "accepts", r["err"] or "ok"), c)
                elif ok == 1:
                    got = [[fr_of(x) for x in row] for row in res["data"]]
                    want = [[Fraction(a, b) for (a, b) in row] for row in mdata]
                    if got != want or abs(Fraction(fminm[0], fminm[1]) - fr_of(res["fs0"])) > Fraction(df) / 10 ** 6 or Fm != res["nfs"]:
                        ctx.mismatch("%s: model data/axis differ from the implementation's" % (op,), c)
            elif r["err"] is None:
                got = [fr_of(x) for x in r["raw"]] if c.get("normalize") else ([fr_of(x) for x in r["array"]] if "array" in r else [fr_of(x) for row in res["data"] for x in row])
                want = [Fraction(a, b) for (a, b) in mv]
                if len(got) != len(want) or any(abs(a - b) > Fraction(1, 10 ** 12) * max(1, abs(b)) for a, b in zip(got, want)):
                    ctx.mismatch("%s: model values differ from the implementation's" % (op,), c)
    ctx.sample(dict(case=dict((k, cases[-1][k]) for k in ("T", "F", "df", "dt", "ascending", "op", "from_file")), result=dict((k, (impl[-1].get("res") or {}).get(k)) for k in ("shape", "fs0", "t_start", "source_name"))))


def corpus():
    p = os.path.join(C.ROOT, "corpus", "c17.json")
    return json.load(open(p)) if os.path.exists(p) else []


def replay(ctx, payload):
    c = payload["case"]
    r = C.run_impl("c17_impl", dict(cases=[c]))[0]
    print(json.dumps(dict((k, r.get(k)) for k in ("err", "fails")), indent=1)); print(json.dumps(r.get("res"), indent=1)[:1500])
    return 0
