"""C13 -- constant-signal helper = general injection.  The helper's bounding box and sub-step count
(observed through the keyword arguments it passes on) against the rational model; the helper's array
against general injection on the implementation; for the box profile the whole array against the model."""
import json
import math
import os
from fractions import Fraction
from harness import common as C
from harness.props import sigcommon as S

IMPORTS = S.IMPORTS.replace("From SV Require Import Base.Tab Model.Signal.", "From SV Require Import Base.Tab Model.Signal Model.ConstSignal.")


def gq(x):
    return C.gq(Fraction(x))


def gen_case(rng):
    T = rng.randint(1, 6); F = rng.randint(8, 40)
    df = float(rng.choice([1, 2, 4, 0.125, 0.0625, 16])); dt = float(rng.choice([1, 2]))      # "all frame geometries": channels much finer and coarser than 1 Hz
    asc = rng.random() < 0.5
    fmin = float(rng.choice([1000, 4096]))
    fch1 = fmin if asc else fmin + (F - 1) * df
    r = rng.random()
    if r < 0.7:
        k = rng.randint(2, F - 3)
    elif r < 0.85:
        k = rng.choice([0, F - 1])
    else:
        k = rng.choice([-3, F + 2])
    frac = rng.choice([0.0, 0.0, 0.25, -0.25, 0.5, 0.4921875, -0.4921875])
    D = rng.choice([0.0, 0.0, 0.5, -0.5, 1.0, -1.0, 1.5, -2.5, 4.0, -4.0, 0.125, -0.0625, 0.3125])
    wch = rng.choice([0.0625, 0.25, 0.375, 0.5, 0.75, 1.0, 1.5, 2.5, 10.0])
    if rng.random() < 0.08:
        # a start well outside the band and a sweep longer than the band is wide, drifting in: the helper's box is measured from the start
        # frequency, not from the band
        F = rng.randint(8, 12); T = rng.choice([6, 8]); fch1 = fmin if asc else fmin + (F - 1) * df
        D = rng.choice([4.0, -4.0, 2.5, -2.5, 3.0, -3.0])
        m = rng.randint(3, 9)
        k = -m if D > 0 else F - 1 + m
    c = dict(T=T, F=F, df=df, dt=dt, fch1=fch1, ascending=asc, f_start=fmin + (k + frac) * df, drift=D * df / dt, level=float(rng.randint(1, 5)),
             width=wch * df, ptype=rng.choice(["box", "box", "sinc2", "sinc2", "gaussian", "lorentzian", "voigt"]), smear=rng.random() < 0.5)
    c["level_kind"] = rng.choice(["float", "float", "int", "int64", "float32", "float64"])      # "every level": whatever number type it arrives in
    c["mirror_ok"] = (frac == 0.0 and 0 <= k < F)
    return c, fmin


def run(ctx):
    rng = ctx.rng
    quick = ctx.tier == "quick"
    ctx.rule = ("frames 1-6 x 8-40 on an exact grid (channel widths 1/16 .. 16 Hz), both orientations; start frequency on / a quarter / almost half a channel off a channel centre, "
                "inside, at the edge of and outside the band (8 %: far outside, sweeping through the whole band); drift 0, +-1/16 .. +-4 channels per step; width 1/16 .. 10 channels; box, sinc2, gaussian, "
                "lorentzian, voigt; smearing on/off; non-trivial = the general signal is non-zero somewhere; distinct = distinct case")
    ctx.assumptions = ["compact profiles (box, truncated sinc^2) are compared everywhere, tailed ones inside the FWHM of each row (and 'general value or zero' elsewhere)",
                       "mirror symmetry is checked only for starts on a channel centre inside the band"]
    gen = [gen_case(rng) for _ in range(250 if quick else 6000)]
    cor = corpus()
    cases = [c for c, _ in cor] + [c for c, _ in gen]
    fmins = [f for _, f in cor] + [f for _, f in gen]
    impl = []
    for part in C.run_impl_parallel("c13_impl", [dict(cases=ch) for ch in C.chunks(cases, C.NCPU)]):
        impl.extend(part)
    exprs = []
    idx = []
    for ci, (c, fmin) in enumerate(zip(cases, fmins)):
        c0 = "((%s - %s) / %s)" % (gq(c["f_start"]), gq(fmin), gq(c["df"]))
        w = "(%s / %s)" % (gq(c["width"]), gq(c["df"]))
        D = "(%s * %s / %s)" % (gq(c["drift"]), gq(c["dt"]), gq(c["df"]))
        pdo = "(%s * inject_Z (sweep_steps %d%%nat %s))" % (D, c["T"], C.gbool(c["smear"]))
        exprs.append("(Z.of_nat (clampZ (box_lo %s %s %s) %d%%nat), Z.of_nat (clampZ (box_hi %s %s %s) %d%%nat), substeps %s)" % (c0, w, pdo, c["F"], c0, w, pdo, c["F"], D))
        idx.append((ci, "box"))
        if c["ptype"] == "box":
            fr = "{| T := %d%%nat; F := %d%%nat; df := %s; dt := %s; fmin := %s; t0 := 0; data := mk %d%%nat %d%%nat (fun _ _ => 0) |}" % (
                c["T"], c["F"], gq(c["df"]), gq(c["dt"]), gq(fmin), c["T"], c["F"])
            exprs.append("run1 (add_constant_signal %s %s %s %s %s (box_profile %s) %s)" % (fr, gq(c["f_start"]), gq(c["drift"]), gq(c["level"]), gq(c["width"]), gq(c["width"]), C.gbool(c["smear"])))
            idx.append((ci, "array"))
    try:
        vals = C.coq_eval(IMPORTS, exprs, shard=60)
    except Exception as ex:
        ctx.model_error(str(ex)[-2000:]); vals = None
    model = {}
    if vals is not None:
        for k, v in zip(idx, vals):
            model[k] = v
    for ci, (c, r) in enumerate(zip(cases, impl)):
        ctx.count(c, nontrivial=r.get("general_nonzero", 0) > 0)
        ctx.tally("ptype", c["ptype"]); ctx.tally("smear", c["smear"]); ctx.tally("width_ch", c["width"] / c["df"]); ctx.tally("drift_ch", c["drift"] * c["dt"] / c["df"])
        if "error" in r:
            ctx.impl_violation("helper-raises", "add_constant_signal raised %s (drift %.4g ch/step, width %.4g ch, smear=%s)" % (r["error"], c["drift"] * c["dt"] / c["df"], c["width"] / c["df"], c["smear"]), c)
            continue
        for key, msg in r["fails"]:
            ctx.impl_violation(key, msg, c)
        if (ci, "box") in model:
            lo, hi, ns = model[(ci, "box")]
            if [lo, max(lo, hi)] != [r["box"][0], max(r["box"][0], r["box"][1])]:
                ctx.mismatch("bounding box columns: model [%d,%d), helper passes [%d,%d)" % (lo, hi, r["box"][0], r["box"][1]), c)
            if c["smear"] and ns != r["n_sub"]:
                ctx.mismatch("smearing sub-steps: model %d, helper %d" % (ns, r["n_sub"]), c)
        if (ci, "array") in model:
            code, mdata, mret = model[(ci, "array")]
            if code == 0:
                ok, why = S.matrix_equal(mret, r["helper"], exact=not c["smear"] or (r["n_sub"] & (r["n_sub"] - 1)) == 0)
                if not ok:
                    ctx.mismatch("box-profile helper array: %s" % why, c)
    ctx.sample(dict(case=cases[-1], box=impl[-1].get("box"), n_sub=impl[-1].get("n_sub")))


def corpus():
    p = os.path.join(C.ROOT, "corpus", "c13.json")
    return [(c, c["_fmin"]) for c in json.load(open(p))] if os.path.exists(p) else []


def replay(ctx, payload):
    c = payload["case"]
    r = C.run_impl("c13_impl", dict(cases=[c]))[0]
    for k, m in r.get("fails", []):
        print("FAILS: %s: %s" % (k, m))
    if "error" in r:
        print("FAILS: raises", r["error"])
    bad = bool(r.get("fails")) or "error" in r
    print("replay: property %s on %s" % ("FAILS" if bad else "holds", C.REPO))
    return 1 if bad else 0
