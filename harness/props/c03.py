"""C03 -- save/load through .fil/.h5.  Frames are taken through random histories, saved in both formats
and read back by setigen, blimpy and the stand-alone helpers; the shape the writer uses is compared
with the shape state machine of Model/FrameIO.v."""
import json
import os
from harness import common as C

IMPORTS = "From Coq Require Import List ZArith.\nFrom SV Require Import Model.FrameIO.\nImport ListNotations.\n"


def gen_case(rng):
    F = rng.choice([8, 12, 16, 33, 64]); T = rng.choice([3, 4, 6, 8])
    if rng.random() < 0.3:
        T = rng.choice([15, 24, 29, 30, 49, 59, 60])          # longer files: "exactly the file's integration count" for many (tsamp, count) pairs
        F = rng.choice([8, 12, 16])
    realistic = rng.random() < 0.6
    c = dict(F=F, T=T, df=rng.choice([2.7939677238464355, 2.835503418452676, 1.3969838619232178]) if realistic else float(rng.choice([1, 2, 1000])),
             dt=rng.choice([18.253611008, 1.4316557653333333, 1.073741824, 0.1, 0.33554432]) if realistic else float(rng.choice([1, 2])),
             fch1=rng.choice([6000e6, 8421.38671875e6, 1420.405752e6]) if realistic else float(rng.choice([1e9, 2e9])),
             ascending=rng.random() < 0.5, t_start=rng.choice([1.6e9, 1.7e9 + 12345.5]), seed=rng.randint(0, 999))
    ops = []
    for _ in range(rng.randint(0, 5)):
        r = rng.random()
        if r < 0.25:
            ops.append(["get_waterfall"])
        elif r < 0.4:
            ops.append(["copy", rng.choice(["use_copy", "keep_original"])])
        elif r < 0.6:
            ops.append(["slice", rng.randint(0, 63), rng.randint(3, 63)])
        elif r < 0.75:
            ops.append(["dedrift", rng.choice([0.0, 0.25, -0.25, 0.5])])
        elif r < 0.80:
            ops.append(["retime", rng.choice([15.0, 161.029, 3600.0, -42.5])])
        elif r < 0.9:
            # the intensities change after the frame (or its Waterfall) came into being: what is written must be the current data
            ops.append(["modify", rng.choice(["inplace", "rebind", "signal", "zero", "rename", "rename"])])
        elif r < 0.95:
            ops.append(["save", rng.choice(["fil", "h5"])])
        else:
            ops.append(["load", rng.choice(["fil", "h5"])])
    c["ops"] = ops
    if rng.random() < 0.2:
        # degenerate geometries: a single integration (a spectrum), one or two channels (a time series).  blimpy's .h5 reader
        # refuses fewer than 3 integrations / channels, so these go through .fil only, with histories that keep the shape.
        c["T"] = rng.choice([1, 1, 2, c["T"]]); c["F"] = rng.choice([1, 2, 8, 33]) if c["T"] <= 2 else rng.choice([1, 2])
        c["formats"] = ["fil"]
        c["ops"] = [o if o[0] in ("get_waterfall", "copy", "retime", "modify") else [o[0], "fil"] for o in ops if o[0] in ("get_waterfall", "copy", "retime", "modify", "save", "load")]
    return c


def model_ops(c, hist):
    """translate the executed history into the shape state machine's ops (widths taken from the implementation's trace)"""
    out = []
    for op, h in zip(c["ops"], hist):
        k = op[0]
        if h[0] == "skip" or k in ("retime", "modify"):
            continue
        if k == "get_waterfall":
            out.append("GetWaterfall")
        elif k == "copy":
            out.append("Copy")
        elif k == "slice":
            out.append("Slice %d%%nat" % h[2])
        elif k == "dedrift":
            out.append("Dedrift %d%%nat" % h[2])
        elif k in ("save", "load"):
            out.append("SaveOp")
    return C.glist(out)


def run(ctx):
    rng = ctx.rng
    quick = ctx.tier == "quick"
    ctx.rule = ("frames 3-8 (30 %: 15-60) x 8-64 (and, through .fil only, 1-2 integrations and / or 1-2 channels), realistic (2.79 Hz / 18.25 s / 6 GHz) and integral headers, both orientations; histories of 0-5 operations from "
                "get_waterfall, copy (continuing with the copy or the original), slice, dedrift, re-timing (t_start assigned, as a cadence does), modification of the intensities (in place, re-bound array, injected signal, zero_data) or of the source name, intermediate save, save-and-reload; then save as "
                ".fil and .h5 and read back by setigen, blimpy and the waterfall_utils helpers; non-trivial = non-empty history; distinct = distinct case")
    ctx.assumptions = ["blimpy 2.1.4 / h5py are the modelled environment; blimpy needs >= 3 integrations and channels for .h5",
                       "intensities are compared as float32; frequency axes to 1e-9 relative (MHz <-> Hz scaling); start times to 1e-3 s (astropy MJD conversion)"]
    cases = corpus() + [gen_case(rng) for _ in range(70 if quick else 1500)]
    impl = []
    for part in C.run_impl_parallel("c03_impl", [dict(cases=ch) for ch in C.chunks(cases, C.NCPU)]):
        impl.extend(part)
    exprs = []
    idx = []
    for i, (c, r) in enumerate(zip(cases, impl)):
        if "hist" in r and "final" in r:
            exprs.append("let s := fst (run update_wf {| shape := (%d%%nat, %d%%nat); wf_shape := None |} %s) in (shape s, snd (step update_wf s SaveOp))"
                         % (c["T"], c["F"], model_ops(c, r["hist"])))
            idx.append(i)
    try:
        vals = C.coq_eval(IMPORTS, exprs, shard=200)
    except Exception as ex:
        ctx.model_error(str(ex)[-1500:]); vals = None
    model = dict(zip(idx, vals)) if vals is not None else {}
    for i, (c, r) in enumerate(zip(cases, impl)):
        ctx.count(c, nontrivial=len(c["ops"]) > 0)
        ctx.tally("history_len", len(c["ops"])); ctx.tally("orientation", "asc" if c["ascending"] else "desc")
        ctx.tally("geometry", "degenerate (T<=2 or F<=2, .fil only)" if c.get("formats") else "regular")
        for o in c["ops"]:
            ctx.tally("ops", o[0])
        for key, msg in r["fails"]:
            ctx.impl_violation(key, msg, c)
        if i in model and r.get("final"):
            v = model[i]
            # Coq prints ((a,b), Some (c,d)) as (a, b, Some (c, d)) -> ('Some', (c, d))
            sh = (v[0], v[1]); wr = v[2]
            wr = wr[1] if isinstance(wr, tuple) and wr[0] == "Some" else None
            if list(sh)[1] != r["final"]["F"]:
                ctx.mismatch("shape machine ends with %s channels, implementation with %d" % (sh, r["final"]["F"]), c)
            for s in r["saves"]:
                if "shape" in s and wr is not None and list(wr) != s["shape"]:
                    ctx.mismatch("%s: the model writes shape %s, the file reads back as %s" % (s["fmt"], list(wr), s["shape"]), c)
    ctx.sample(dict(case=cases[-1], hist=impl[-1].get("hist"), saves=impl[-1].get("saves")))


def corpus():
    p = os.path.join(C.ROOT, "corpus", "c03.json")
    return json.load(open(p)) if os.path.exists(p) else []


def replay(ctx, payload):
    c = payload["case"]
    r = C.run_impl("c03_impl", dict(cases=[c]))[0]
    for k, m in r["fails"]:
        print("FAILS: %s: %s" % (k, m))
    print("replay: %d property failure(s) on %s" % (len(r["fails"]), C.REPO))
    return 1 if r["fails"] else 0
