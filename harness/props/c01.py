"""C01 -- injected signal = pointwise product of its four components (+ integration, smearing).
Single injections on empty frames over every combination of input forms and option flags, compared
pixel for pixel with the rational model (exactly on the exact domain); shipped families against
closed forms."""
import json
import os
from harness import common as C
from harness.props import sigcommon as S


def gen_case(rng):
    c, fmin = S.gen_frame(rng, prior_choices=("zero",))
    c["signals"] = [S.gen_signal(rng, c, fmin, opts_all=True, br_kinds=["none", "none", "none", "inside", "clip-low", "clip-high"])]
    return c, fmin


def run(ctx):
    rng = ctx.rng
    quick = ctx.tier == "quick"
    ctx.rule = ("single injections on empty frames (1-6 x 3-16, exact grid, both orientations): path / time profile / bandpass each as callable, "
                "array, list or scalar; box / triangle / rational frequency profiles; all 16 combinations of integrate_path / integrate_t / "
                "integrate_f / smearing with sub-sample counts 1,2,4,8 (exact) and 3,10 (toleranced); array paths of T and T+1 values; signals "
                "inside, straddling and outside the band, both drift signs; shipped families vs closed forms; non-trivial = non-zero result")
    ctx.assumptions = ["numpy sin/exp/sinc and scipy wofz are trusted (families are compared with closed forms that call the same primitives)",
                       "the two RNG-driven families are only constrained to their envelope / documented centres and to reproducibility"]
    gen = [gen_case(rng) for _ in range(220 if quick else 5000)]
    cor = corpus()
    cases = [c for c, _ in cor] + [c for c, _ in gen]
    fmins = [f for _, f in cor] + [f for _, f in gen]
    impl = []
    for part in C.run_impl_parallel("sig_impl", [dict(cases=ch) for ch in C.chunks(cases, C.NCPU)]):
        impl.extend(part)
    for c, r in zip(cases, impl):
        s = c["signals"][0]; st = r["steps"][0]
        o = s.get("opts", {})
        nz = st["err"] is None and any(float.fromhex(x) != 0 for row in st["ret"] for x in row)
        ctx.count(c, nontrivial=nz)
        ctx.tally("flags", "".join("1" if o.get(k) else "0" for k in ("integrate_path", "integrate_t", "integrate_f", "smear")))
        ctx.tally("forms", "%s/%s/%s" % (s["path"]["kind"], s["tprof"]["kind"], (s.get("bp") or {"kind": "none"})["kind"]))
        ctx.tally("fprof", s["fprof"]["kind"]); ctx.tally("outcome", st["err"] or "ok")
        # an array path of T+1 values must be accepted with smearing, T values without
        if s["path"]["kind"] in ("arr", "list"):
            want = c["T"] + (1 if o.get("smear") else 0)
            others_ok = (s["tprof"]["kind"] not in ("arr", "list") or len(s["tprof"]["vals"]) == c["T"])     # a deliberately mis-sized t_profile must raise
            if len(s["path"]["vals"]) == want and st["err"] is not None and others_ok and "path" in (st.get("msg") or "path"):
                ctx.impl_violation("smear-array-path", "array path of %d values (tchans=%d, smearing=%s) was rejected: %s %s"
                                   % (want, c["T"], bool(o.get("smear")), st["err"], st.get("msg")), c)
        if st["err"] not in (None, "ValueError"):
            ctx.impl_violation("unexpected-" + st["err"], "add_signal raised %s: %s" % (st["err"], st.get("msg")), c)
    S.check_spec(ctx, cases, impl, fmins)
    S.evaluate(ctx, cases, impl, fmins)
    fcases = [dict(seed=rng.randint(0, 10 ** 6)) for _ in range(20 if quick else 400)]
    for c, r in zip(fcases, C.run_impl("c01_fam_impl", dict(cases=fcases))):
        ctx.count(dict(k="family", c=c), nontrivial=True)
        for key, msg in r["fails"]:
            ctx.impl_violation(key, msg, dict(mode="family", **c))
    ctx.sample(dict(frame=dict((k, cases[-1][k]) for k in ("T", "F", "df", "dt", "ascending")), signal=cases[-1]["signals"][0]))


def corpus():
    p = os.path.join(C.ROOT, "corpus", "c01.json")
    return [(c, c["_fmin"]) for c in json.load(open(p))] if os.path.exists(p) else []


def replay(ctx, payload):
    c = payload["case"]
    if c.get("mode") == "family":
        r = C.run_impl("c01_fam_impl", dict(cases=[c]))[0]
        print(r); return 1 if r["fails"] else 0
    r = C.run_impl("sig_impl", dict(cases=[c]))[0]
    for st in r["steps"]:
        print("step:", st["err"] or "ok", st.get("msg", ""))
    return 0
