"""C02 -- recorded RAW samples = reference pipeline, whatever the partitioning.
(a) every indexed write of collect_data_block into the block array (logged through a numpy.empty
    view) against the Gallina layout model (vm_compute): rows, columns, order;
(b) bytes on disk, decoded by an independent reader, against a one-shot numpy reference pipeline, for
    several (num_subblocks, blocks_per_file) per configuration, plus byte equality across them."""
import json
import os
from harness import common as C
from harness.props.c20 import g_cfg, bps_of

IMPORTS = ("From Coq Require Import List ZArith.\nFrom SV Require Import Base.PySeq Model.Backend Model.RawLayout.\n"
           "Import ListNotations.\n")


def gen_cfg(rng):
    nb = rng.choice([4, 8, 16])
    taps = rng.choice([1, 2, 3, 4])
    nchans = rng.randint(1, nb // 2)
    start_chan = rng.randint(0, nb // 2 - nchans)
    nants = rng.choice([1, 1, 2, 3])
    num_pols = rng.choice([1, 2])
    nbits = rng.choice([4, 8])
    w = rng.randint(1, 7)
    bps = 2 * num_pols * nbits // 8
    c = dict(sample_rate=float(2 ** rng.randint(10, 20)), fch1=rng.choice([0.0, 1e9]), ascending=rng.random() < 0.5,
             nb=nb, taps=taps, nchans=nchans, start_chan=start_chan, nants=nants, num_pols=num_pols, nbits=nbits,
             block_size=nants * nchans * taps * bps * w, seed=rng.randint(0, 10 ** 6), noise=[[0.0, 1.0]],
             num_blocks=rng.randint(1, 5), digitize=rng.random() < 0.8,
             dig=dict(period=-1, num=taps * nb, bits=8, fwhm=32), req=dict(period=-1, num=taps, fwhm=rng.choice([32, 6]) if nbits == 8 else 6),
             window_fn=rng.choice(["hamming", "hann", "boxcar"]))
    sr = c["sample_rate"]
    if rng.random() < 0.7:
        c["signals"] = [dict(f_start=c["fch1"] + (1 if c["ascending"] else -1) * rng.uniform(0.05, 0.45) * sr, drift=rng.uniform(-1, 1) * sr / 100,
                             level=rng.uniform(0.5, 3.0), phase=rng.uniform(0, 6))]
    if nants > 1:
        c["delays"] = [rng.randint(0, min(3, taps * nb - 1)) for _ in range(nants)]
        c["bg_noise"] = [[0.0, 0.7]]
    if rng.random() < 0.25:
        c["element_lists"] = True        # digitiser / filterbank / requantiser handed over as per-antenna, per-polarisation lists
    return c, w


def nsub_chain(c, nsub, n):
    """Gallina text for the sub-block counts used by successive blocks (num_subblocks is overwritten)."""
    w = "(spb %s / taps %s)%%Z" % (g_cfg(c), g_cfg(c))
    out = [C.gz(nsub)]
    for _ in range(n - 1):
        out.append("(nsub_eff %s %s)" % (w, out[-1]))
    return out


def run(ctx):
    rng = ctx.rng
    quick = ctx.tier == "quick"
    ctx.rule = ("random small backends: taps 1-4, branches 4/8/16, every (start_chan, num_chans), 1-7 PFB windows per block, num_subblocks from 1 "
                "to windows+2 (divisors, non-divisors, larger than the window count), blocks_per_file 1-3, 1-5 blocks, 1-2 pols, 1-3 antennas "
                "with delays and shared background, 8/4 bit, digitiser on/off, both orientations, seeded noise + chirp, scipy windows; "
                "non-trivial = more than one sub-block or more than one block; distinct = distinct configuration")
    ctx.assumptions = ["numpy's FFT of a row does not depend on the other rows in the batch (re-checked in this run)",
                       "quantiser statistics come from a common prefix (stats_calc_period=-1, few leading samples), as the property's consequence clause requires",
                       "dyadic sample rates so that chunked and one-shot evaluation times are bit-identical (C10)",
                       "numpy FFT / scipy firwin / float summation order are trusted numerics (both sides call them)"]
    # ------------------------------------------------ (a) write positions
    wcases = []
    for _ in range(40 if quick else 600):
        c, w = gen_cfg(rng)
        c["num_subblocks"] = rng.randint(1, w + 2)
        c["blocks_per_file"] = rng.randint(1, 3)
        c["num_blocks"] = rng.randint(1, 3)
        wcases.append(c)
    wcases = corpus("writes") + wcases
    exprs = []
    for c in wcases:
        chain = nsub_chain(c, c["num_subblocks"], c["num_blocks"])
        exprs.append(C.glist(["block_writes %s %s" % (g_cfg(c), ns) for ns in chain]))
    try:
        vals = C.coq_eval(IMPORTS, exprs, shard=20)
    except Exception as ex:
        ctx.model_error(str(ex)[-1500:]); vals = None
    wimpl = []
    env_ok = True
    for part in C.run_impl_parallel("c02_impl", [dict(mode="writes", cases=ch) for ch in C.chunks(wcases, C.NCPU)]):
        env_ok = env_ok and part["env_ok"]
        wimpl.extend(part["results"])
    for i, (c, r) in enumerate(zip(wcases, wimpl)):
        w = c["block_size"] // (c["nants"] * c["nchans"] * c["taps"] * bps_of(c))
        ctx.count(dict(k="writes", c=c), nontrivial=(c["num_blocks"] > 1 or c["num_subblocks"] > 1))
        ctx.tally("writes_windows_per_block", w); ctx.tally("writes_nsub", c["num_subblocks"]); ctx.tally("bits", c["nbits"])
        # property oracle on the logged writes: every cell written exactly once per block, at the standard-layout position
        q = c["nbits"] // 4
        ncols = c["block_size"] // (c["nants"] * c["nchans"])
        for b, log in enumerate(r["blocks"]):
            seen = {}
            for rows, cols in log:
                for rr in rows:
                    for cc in cols:
                        seen[(rr, cc)] = seen.get((rr, cc), 0) + 1
            missing = c["nants"] * c["nchans"] * ncols - len(seen)
            dup = sum(1 for v in seen.values() if v > 1)
            oob = sum(1 for (rr, cc) in seen if not (0 <= rr < c["nants"] * c["nchans"] and 0 <= cc < ncols))
            if missing or dup or oob:
                ctx.impl_violation("block-coverage", "block %d: %d cells never written, %d written twice, %d out of range (windows/block %d, num_subblocks %d)"
                                   % (b, missing, dup, oob, w, c["num_subblocks"]), c)
                break
        if vals is not None:
            for b, (mb, log) in enumerate(zip(vals[i], r["blocks"])):
                exp = []
                for (rows, cols, tau0, n) in mb:
                    exp.append([list(rows), list(cols)])
                    if q == 2:
                        exp.append([list(rows), [x + 1 for x in cols]])
                if exp != log:
                    k = next((j for j in range(min(len(exp), len(log))) if exp[j] != log[j]), min(len(exp), len(log)))
                    ctx.mismatch("block %d write %d: model %s, implementation %s" % (b, k, exp[k] if k < len(exp) else None, log[k] if k < len(log) else None), c)
                    break
            if len(vals[i]) != len(r["blocks"]):
                ctx.mismatch("number of blocks: model %d, implementation %d" % (len(vals[i]), len(r["blocks"])), c)
    # ------------------------------------------------ (b) bytes vs reference, across partitions
    bcases = corpus("bytes")
    for _ in range(36 if quick else 500):
        c, w = gen_cfg(rng)
        subs = sorted(set([1, w, rng.randint(1, w + 2), rng.randint(1, w + 2)]))
        c["variants"] = [[s, rng.randint(1, 3)] for s in subs]
        bcases.append(c)
    bimpl = []
    for part in C.run_impl_parallel("c02_impl", [dict(mode="bytes", cases=ch) for ch in C.chunks(bcases, C.NCPU)]):
        env_ok = env_ok and part["env_ok"]
        bimpl.extend(part["results"])
    if not env_ok:
        ctx.env_errors.append("numpy FFT is not batch-independent in this environment")
    for c, r in zip(bcases, bimpl):
        w = c["block_size"] // (c["nants"] * c["nchans"] * c["taps"] * bps_of(c))
        ctx.count(dict(k="bytes", c=c), nontrivial=(len(c["variants"]) > 1))
        ctx.tally("bytes_windows_per_block", w); ctx.tally("bytes_variants", len(c["variants"]))
        ctx.tally("digitize", c["digitize"]); ctx.tally("nants", c["nants"])
        for key, msg in r["fails"]:
            ctx.impl_violation(key, msg, c)
    ctx.sample(dict(kind="writes", cfg=dict((k, wcases[-1][k]) for k in ("nb", "taps", "nchans", "nants", "num_pols", "nbits", "block_size", "num_subblocks")),
                    first_writes=wimpl[-1]["blocks"][0][:2]))
    ctx.sample(dict(kind="bytes", cfg=dict((k, bcases[-1][k]) for k in ("nb", "taps", "nchans", "nants", "num_pols", "nbits", "block_size", "variants", "num_blocks")),
                    variants=bimpl[-1]["variants"]))


def corpus(kind):
    p = os.path.join(C.ROOT, "corpus", "c02_%s.json" % kind)
    return json.load(open(p)) if os.path.exists(p) else []


def replay(ctx, payload):
    c = payload["case"]
    mode = "bytes" if "variants" in c else "writes"
    r = C.run_impl("c02_impl", dict(mode=mode, cases=[c]))["results"][0]
    fails = r.get("fails", [])
    for k, m in fails:
        print("FAILS: %s: %s" % (k, m))
    print("replay: %d property failure(s) on %s" % (len(fails), C.REPO))
    return 1 if fails else 0
