"""C06 -- injection is additive, confined, state-preserving; injections superpose.
Sequences of 1-4 injections on frames with prior content; every bounding-range kind; each step is
modelled from the implementation's data before it (Model/Signal.v) and the before/after statements of
the property are evaluated with numpy on the implementation itself."""
import json
import os
from harness import common as C
from harness.props import sigcommon as S


def gen_case(rng):
    c, fmin = S.gen_frame(rng, prior_choices=("zero", "ramp", "ramp", "noise", "float32"))
    n = rng.choice([1, 1, 2, 3, 4])
    c["signals"] = [S.gen_signal(rng, c, fmin, opts_all=(rng.random() < 0.4)) for _ in range(n)]
    return c, fmin


def gen_lib(rng):
    F = rng.choice([16, 24, 32]); T = rng.randint(3, 8)
    df = rng.choice([2.0, 2.7939677238464355]); dt = rng.choice([1.0, 18.253611008])
    sigs = []
    for _ in range(rng.choice([1, 2, 2, 3])):
        sigs.append(dict(ch=rng.randint(2, F - 3), off=rng.choice([0.0, 0.25, -0.4]), drift=rng.choice([0.0, 0.3, -0.5, 1.0]), path=rng.choice(["constant", "squared", "sine", "rfi"]),
                         tprof=rng.choice(["constant", "sine", "sine", "pulses"]), phase=rng.choice([0.0, 2.5, 30.0, -7.0]), period=rng.choice([5.0, 40.0, 100.0]),
                         level=rng.choice([1.0, 3.0]), fprof=rng.choice(["box", "gaussian", "lorentzian", "voigt", "sinc2"]), width=rng.choice([1.0, 2.5, 4.0]),
                         seed=rng.randint(0, 999), integrate_path=rng.random() < 0.2, integrate_t=rng.random() < 0.2, smear=rng.random() < 0.2))
    return dict(F=F, T=T, df=df, dt=dt, fch1=6e9, ascending=rng.random() < 0.5, seed=rng.randint(0, 999), noise=rng.random() < 0.5, signals=sigs)


def run(ctx, prop="C06"):
    rng = ctx.rng
    quick = ctx.tier == "quick"
    ctx.rule = ("frames 1-6 x 3-16 on an exact (integer/dyadic) grid, both orientations, prior content zero / integer ramp / chi2 noise / noise cast to "
                "float32; 1-4 successive injections; components as polynomial callables, arrays, lists, scalars; box / triangle / rational "
                "profiles; bounding range none / inside / clipped low / clipped high / wholly below / wholly above / reversed / zero-width; "
                "wrong-length arrays; plus 1-3 successive injections built from the shipped path / time-profile / frequency-profile families (state, additivity, history independence, order); non-trivial = some returned array is non-zero; distinct = distinct case")
    ctx.assumptions = ["model and implementation are compared exactly on the exact domain (integer grids, power-of-two sub-sample counts) and to 1e-9 "
                       "of the scale otherwise", "'outside the range' is decided half a channel beyond the requested frequencies"]
    gen = [gen_case(rng) for _ in range(150 if quick else 3000)]
    cor = corpus()
    cases = [c for c, _ in cor] + [c for c, _ in gen]
    fmins = [f for _, f in cor] + [f for _, f in gen]
    impl = []
    for part in C.run_impl_parallel("sig_impl", [dict(cases=ch) for ch in C.chunks(cases, C.NCPU)]):
        impl.extend(part)
    for c, r in zip(cases, impl):
        nz = any(st["err"] is None and any(float.fromhex(x) != 0 for row in st["ret"] for x in row) for st in r["steps"])
        ctx.count(c, nontrivial=nz)
        ctx.tally("prior", c["prior"]); ctx.tally("n_signals", len(c["signals"]))
        for s, st in zip(c["signals"], r["steps"]):
            ctx.tally("brange", s.get("brange_kind")); ctx.tally("outcome", st["err"] or "ok")
        for key, msg in r["fails"]:
            ctx.impl_violation(key, msg, c)
        for k, (s, st) in enumerate(zip(c["signals"], r["steps"])):
            if st["err"] == "IndexError":
                ctx.impl_violation("empty-range-indexerror", "signal %d with bounding range %s (%s) raised IndexError instead of injecting nothing: %s"
                                   % (k, s.get("brange"), s.get("brange_kind"), st.get("msg")), dict(c, signals=[s]))
            elif st["err"] not in (None, "ValueError"):
                ctx.impl_violation("unexpected-" + st["err"], "signal %d raised %s: %s" % (k, st["err"], st.get("msg")), dict(c, signals=[s]))
    S.check_spec(ctx, cases, impl, fmins)
    S.evaluate(ctx, cases, impl, fmins)
    # the shipped path / profile families, value-agnostic clauses only (state, additivity, history independence, order)
    if prop == "C06":
        lcases = [gen_lib(rng) for _ in range(40 if quick else 800)]
        limpl = []
        for part in C.run_impl_parallel("c06_lib_impl", [dict(cases=ch) for ch in C.chunks(lcases, C.NCPU)]):
            limpl.extend(part)
        for c, r in zip(lcases, limpl):
            ctx.count(dict(k="lib", c=c), nontrivial=r["nonzero"])
            for sg in c["signals"]:
                ctx.tally("shipped_path", sg["path"]); ctx.tally("shipped_t_profile", sg["tprof"]); ctx.tally("shipped_f_profile", sg["fprof"])
            for key, msg in r["fails"]:
                ctx.impl_violation(key, msg, dict(k="lib", **c))
    ctx.sample(dict(frame=dict((k, cases[-1][k]) for k in ("T", "F", "df", "dt", "ascending", "prior")), signal=cases[-1]["signals"][0]))


def corpus():
    p = os.path.join(C.ROOT, "corpus", "c06.json")
    return [(c, c["_fmin"]) for c in json.load(open(p))] if os.path.exists(p) else []


def replay(ctx, payload):
    c = payload["case"]
    if c.get("k") == "lib":
        r = C.run_impl("c06_lib_impl", dict(cases=[c]))[0]
        for k, m in r["fails"]:
            print("FAILS: %s: %s" % (k, m))
        print("replay: property %s on %s" % ("FAILS" if r["fails"] else "holds", C.REPO))
        return 1 if r["fails"] else 0
    r = C.run_impl("sig_impl", dict(cases=[c]))[0]
    for k, m in r["fails"]:
        print("FAILS: %s: %s" % (k, m))
    for st in r["steps"]:
        print("step:", st["err"] or "ok", st.get("msg", ""))
    bad = bool(r["fails"]) or any(st["err"] not in (None, "ValueError") for st in r["steps"])
    print("replay: property %s on %s" % ("FAILS" if bad else "holds", C.REPO))
    return 1 if bad else 0
