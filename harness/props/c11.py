"""C11 -- synthetic noise and SNR bookkeeping.

frame histories : add_noise / add_noise_from_obs / zero_data / add_signal sequences on frames whose random
                  generator records every request; the binary64 instance of Model/Noise.v is run on the same
                  answers and must reproduce requests, returned arrays, data and estimates bit for bit.
direct oracles  : delta == returned array, floor, table membership / common index, requested-vs-re-estimated
                  parameters (independent sigma-clipping reference), inverse SNR relation, quadrature.
statistics      : sample moments of the generated noise against analytically derived >= 6 sigma bands
                  (exploration of the generator's contract that the moment theorems assume -- not a proof)."""
import json
import math
import os
from fractions import Fraction
from harness import common as C

IMPORTS = ("From Coq Require Import List ZArith QArith PrimFloat.\nFrom SV Require Import Base.F64 Base.Rounding Model.Grid Model.Noise.\n"
           "Import ListNotations.\n")
SIGMA = 6.5


def gf(x):
    """hex string or float -> Coq float literal"""
    v = float.fromhex(x) if isinstance(x, str) else float(x)
    return "(%s)%%float" % v.hex()


def f2(x):
    return math.ldexp(x[0], x[1])


def hx(x):
    return float(x).hex()


def fh(x):
    return float.fromhex(x)


# ---------------------------------------------------------------- frame histories
RES = [(1.0, 1.0), (2.0, 3.0), (2.7939677238464355, 18.253611008), (1.3969838619232178, 1.0737418239999998), (0.5, 5.0), (2.5, 1.0), (1.5, 1.0),
       (3.5, 1.0), (0.25, 6.0), (1.0, 2.4999999), (7.0, 0.5), (1000.0, 0.001), (1.1, 1.0), (2.835503418452676, 17.986224)]


def rnd_pos(rng):
    r = rng.random()
    if r < 0.3:
        return float(rng.choice([1, 2, 5, 10, 100]))
    if r < 0.4:
        return 0.0
    return round(rng.uniform(0.01, 50.0), rng.randint(1, 6))


def gen_tables(rng, equal):
    n = rng.randint(1, 5)
    ns = n if equal else rng.randint(1, 5)
    nm = n if equal else rng.randint(1, 5)
    base = rng.uniform(1, 20)
    means = [round(base + 1.37 * i + rng.random(), 4) for i in range(n)]
    stds = [round(0.3 + 0.41 * i + rng.random() * (30 if rng.random() < 0.3 else 1), 4) for i in range(ns)]
    mins = [round(-2.0 + 0.9 * i + rng.random(), 4) for i in range(nm)]
    rng.shuffle(means); rng.shuffle(stds); rng.shuffle(mins)
    return means, stds, mins


def gen_frame_case(rng):
    F = rng.randint(1, 8)
    T = rng.randint(1, max(1, min(6, 40 // F)))
    df, dt = rng.choice(RES)
    if rng.random() < 0.25:
        df = round(rng.uniform(0.5, 20.0), 3); dt = round(max(1.0 / df, rng.uniform(0.05, 20.0)) + 0.001, 3)
    c = dict(F=F, T=T, df=hx(df), dt=hx(dt), seed=rng.randint(0, 10 ** 6), prior=None, dtype="float64", ops=[])
    r = rng.random()
    if r < 0.12:
        c["prior"] = [hx(round(rng.gauss(10, 2), 3)) for _ in range(F * T)]
    elif r < 0.17:
        c["prior"] = [hx(5.0)] * (F * T)
    elif r < 0.24:
        c["prior"] = [hx(float(int(rng.gauss(100, 10)))) for _ in range(F * T)]; c["dtype"] = "float32"
    if r >= 0.24 and r < 0.29:
        # data preloaded as integers (raw counts): noise cannot be added to an integer array, but after zero_data() the frame is an
        # ordinary empty frame again
        c["prior"] = [hx(float(int(rng.gauss(100, 10)))) for _ in range(F * T)]; c["dtype"] = "int64"
        c["ops"].append(["zero"])
    for _ in range(rng.randint(1, 6)):
        r = rng.random()
        if r < 0.22:
            c["ops"].append(["noise", dict(type="chi2", m=hx(rnd_pos(rng)))])
        elif r < 0.36:
            c["ops"].append(["noise", dict(type="gauss", m=hx(rng.choice([0.0, rnd_pos(rng), -rnd_pos(rng)])), s=hx(rnd_pos(rng)), name=rng.choice(["gaussian", "normal"]))])
        elif r < 0.48:
            m = rnd_pos(rng); s = rnd_pos(rng)
            c["ops"].append(["noise", dict(type="trunc", m=hx(m), s=hx(s), mn=hx(rng.choice([0.0, m, m - s, m + s, m - 3 * s, round(rng.uniform(-5, 20), 2)])), name=rng.choice(["gaussian", "normal"]))])
        elif r < 0.58:
            means, _, _ = gen_tables(rng, True)
            c["ops"].append(["obs", dict(type="chi2", means=[hx(x) for x in means], stds=None, mins=None, share=rng.random() < 0.5)])
        elif r < 0.82:
            share = rng.random() < 0.55
            equal = rng.random() < (0.85 if share else 0.4)
            means, stds, mins = gen_tables(rng, equal)
            c["ops"].append(["obs", dict(type="gauss", means=[hx(x) for x in means], stds=[hx(x) for x in stds],
                                         mins=([hx(x) for x in mins] if rng.random() < 0.6 else None), share=share, name=rng.choice(["gaussian", "normal"]))])
        elif r < 0.92:
            c["ops"].append(["zero"])
        else:
            c["ops"].append(["signal", dict(idx=rng.randrange(F), level=hx(rng.choice([1.0, 50.0, 1e4])), w=rng.choice([1, 2]))])
    return c


def op_hop(c, op, rec, est):
    """Gallina for one step, given the generator's recorded answers"""
    idx = [e["idx"] for e in rec["log"] if e["kind"] in ("choice", "integers")]
    draws = []
    for e in rec["log"]:
        if e["kind"] in ("chisquare", "normal"):
            draws = e["draws"]
    gd = C.glist([gf(x) for x in draws])
    ge = "(%s, %s)" % (gf(est[0]), gf(est[1]))
    k = op[0]
    if k == "noise":
        a = op[1]
        kind = {"chi2": lambda: "Chi2 %s" % gf(a["m"]), "gauss": lambda: "Gauss %s %s" % (gf(a["m"]), gf(a["s"])),
                "trunc": lambda: "Trunc %s %s %s" % (gf(a["m"]), gf(a["s"]), gf(a["mn"]))}[a["type"]]()
        return "HNoise (%s) %s %s" % (kind, gd, ge)
    if k == "obs":
        a = op[1]
        ok = "OChi2" if a["type"] == "chi2" else "%s %s" % ("OShared" if a["share"] else "OIndep", C.gbool(a["mins"] is not None))
        if rec["err"] is not None:
            idx = [0]
        return "HObs %s %s %s (%s) %s %s %s" % (C.glist([gf(x) for x in a["means"]]), C.glist([gf(x) for x in (a["stds"] or [])]),
                                                 C.glist([gf(x) for x in (a["mins"] or [])]), ok, C.glist([C.gnat(i) for i in idx]), gd, ge)
    if k == "zero":
        return "HZero"
    return "HSignal %s" % C.glist([gf(x) for x in rec["ret"]])


def close(a, b, rel):
    return abs(a - b) <= rel * max(abs(a), abs(b)) + 1e-300


def check_frame_case(ctx, c, r, mrows):
    def bad(key, msg):
        ctx.impl_violation(key, msg, c)
    rel = 1e-9 if r["dtype"] == "float64" else 2e-5
    for key, msg in r["fails"]:
        bad(key, msg)
    # initial estimates: sigma-clipped statistics of the initial data
    i0 = [fh(x) for x in r["init_stats"]]; ref0 = [fh(x) for x in r["init_ref"]]
    if not (close(i0[0], ref0[0], rel) and close(i0[1], ref0[1], rel) or (abs(i0[0] - ref0[0]) < 1e-12 and abs(i0[1] - ref0[1]) < 1e-12)):
        bad("init-estimate", "a frame created with data has noise estimates %r, the sigma-clipped statistics of its data are %r" % (i0, ref0))
    empty = (i0[0] == 0 and i0[1] == 0)
    df, dt = fh(c["df"]), fh(c["dt"])
    for k, (op, rec) in enumerate(zip(c["ops"], r["steps"])):
        where = "step %d %s" % (k, json.dumps(op)[:200])
        st = None
        if rec["err"] is not None:
            expected_err = (op[0] == "obs" and op[1]["type"] == "gauss" and op[1]["share"] and
                            (len(op[1]["means"]) != len(op[1]["stds"]) or (op[1]["mins"] is not None and len(op[1]["means"]) != len(op[1]["mins"]))))
            if not expected_err:
                bad("unexpected-raise", "%s raised %s: %s" % (where, rec["err"], rec["msg"]))
                return
            if rec["err"] != "IndexError" or not rec["data_unchanged"] or rec["log"]:
                bad("share-index-error", "%s: tables of unequal length with share_index must raise IndexError before anything is drawn or changed (got %s, data unchanged %s, %d requests)"
                    % (where, rec["err"], rec["data_unchanged"], len(rec["log"])))
        else:
            st = [fh(x) for x in rec["stats"]]
            ref = [fh(x) for x in rec["ref"]]
            if op[0] in ("noise", "obs"):
                a = op[1]
                if op[0] == "noise":
                    pm = fh(a["m"])
                    ps = fh(a["s"]) if a["type"] != "chi2" else None
                else:
                    # parameters must be table entries; with share_index one common index
                    means = [fh(x) for x in a["means"]]; stds = [fh(x) for x in (a["stds"] or [])]; mins = [fh(x) for x in (a["mins"] or [])]
                    nlog = [e for e in rec["log"] if e["kind"] in ("normal", "chisquare")]
                    if len(nlog) != 1:
                        bad("draw-count", "%s: %d array draws requested from the generator" % (where, len(nlog))); return
                    if a["type"] == "chi2":
                        ret = [fh(x) for x in rec["ret"]]; dr = [fh(x) for x in nlog[0]["draws"]]
                        kk = r["chi2_df"]
                        cand = [m for m in means if all(x == u * m / kk for x, u in zip(ret, dr))]
                        if not cand:
                            bad("table-entry", "%s: the chi-squared noise is not (unit draws)*m/k for any entry m of the mean table" % where); return
                        pm = cand[0]; ps = None
                    else:
                        loc = fh(nlog[0]["loc"]); sc = fh(nlog[0]["scale"])
                        pm, ps = loc, sc
                        if a["share"]:
                            js = [j for j in range(len(means)) if means[j] == loc and j < len(stds) and stds[j] == sc]
                            if a["mins"] is not None:
                                ret = [fh(x) for x in rec["ret"]]; dr = [fh(x) for x in nlog[0]["draws"]]
                                js = [j for j in js if j < len(mins) and all(x == max(z, mins[j]) for x, z in zip(ret, dr))]
                            if not js:
                                bad("share-index", "%s: the gaussian was drawn with (%r, %r), which is not one common row of the tables" % (where, loc, sc))
                        else:
                            if sc not in stds or not (loc in means or loc == sc):
                                bad("table-entry", "%s: the gaussian was drawn with (%r, %r): not entries of the tables" % (where, loc, sc))
                            if loc < sc:
                                bad("mean-below-std", "%s: independently sampled mean %r is below the deviation %r" % (where, loc, sc))
                            if a["mins"] is not None:
                                ret = [fh(x) for x in rec["ret"]]; dr = [fh(x) for x in nlog[0]["draws"]]
                                if not any(all(x == max(z, mn) for x, z in zip(ret, dr)) for mn in mins):
                                    bad("table-entry", "%s: the floor applied is not an entry of the minimum table" % where)
                if a["type"] == "chi2":
                    kk = 4 * round(df * dt)
                    if r["chi2_df"] != kk:
                        bad("chi2-df", "frame df*dt=%r has chi2_df=%d, expected 4*round(df*dt)=%d" % (df * dt, r["chi2_df"], kk))
                    ps = math.sqrt(2 * kk) * pm / kk if kk else float("nan")
                if empty:
                    if not (st[0] == pm and (close(st[1], ps, 1e-15) if a["type"] == "chi2" else st[1] == ps)):
                        bad("first-noise-params", "%s on a frame without noise: estimates %r, requested parameters (%r, %r)" % (where, st, pm, ps))
                else:
                    if not ((close(st[0], ref[0], rel) or abs(st[0] - ref[0]) < 1e-9) and (close(st[1], ref[1], rel) or abs(st[1] - ref[1]) < 1e-9)):
                        bad("later-noise-reestimate", "%s on a frame that already had noise estimates: estimates %r, sigma-clipped statistics of the data %r" % (where, st, ref))
            elif op[0] == "zero":
                if st != [0.0, 0.0] or any(fh(x) != 0 for x in rec["data"]):
                    bad("zero-data", "%s: estimates %r / data not reset" % (where, st))
            elif op[0] == "signal":
                prev = [fh(x) for x in (r["steps"][k - 1]["stats"] if k else r["init_stats"])]
                if st != prev:
                    bad("signal-changes-estimates", "%s changed the noise estimates from %r to %r" % (where, prev, st))
            empty = (st[0] == 0 and st[1] == 0)
        # ---- model vs implementation
        if mrows is None:
            continue
        status, mreqs, mnoise, mdata, mst, wasp = mrows[k]
        mm, ms = (mst[0], mst[1]), mst[2]
        if (status == 1) != (rec["err"] is not None):
            ctx.mismatch("%s: model %s, implementation %s" % (where, "raises" if status == 1 else "succeeds", rec["err"] or "succeeds"), c); return
        if rec["err"] is not None:
            continue
        # requests
        lreq = []
        for e in rec["log"]:
            if e["kind"] == "integers":
                lreq.append((0, float(e["args"][-1]), 0.0))
            elif e["kind"] == "choice":
                a = op[1]
                t = [j for j, tb in enumerate([a.get("means"), a.get("stds"), a.get("mins")]) if tb is not None and [fh(x) for x in tb] == [fh(x) for x in e["table"]]]
                lreq.append((1, float(t[0]) if t else -1.0, 0.0) if not (len(t) > 1) else (1, None, 0.0))
            elif e["kind"] == "chisquare":
                lreq.append((2, fh(e["df"]), 0.0))
            else:
                lreq.append((3, fh(e["loc"]), fh(e["scale"])))
        mr = [(int(t), f2(a_), f2(b_)) for (t, a_, b_) in mreqs]
        same = len(mr) == len(lreq) and all(x[0] == y[0] and (y[1] is None or x[1] == y[1]) and x[2] == y[2] for x, y in zip(mr, lreq))
        if not same:
            ctx.mismatch("%s: requests to the generator: model %s, implementation %s" % (where, mr, lreq), c); return
        if op[0] in ("noise", "obs"):
            if [f2(x) for x in mnoise] != [fh(x) for x in rec["ret"]]:
                ctx.mismatch("%s: returned noise array differs from the model's (first values %s vs %s)" % (where, [f2(x) for x in mnoise][:3], [fh(x) for x in rec["ret"]][:3]), c); return
        if r["dtype"] == "float64" and [f2(x) for x in mdata] != [fh(x) for x in rec["data"]]:
            ctx.mismatch("%s: frame data differs from the model's" % where, c); return
        if op[0] in ("noise", "obs") and wasp:
            if [f2(mm), f2(ms)] != st:
                ctx.mismatch("%s: estimates: model (requested parameters) %r, implementation %r" % (where, [f2(mm), f2(ms)], st), c); return
        elif not ((close(f2(mm), st[0], rel) or abs(f2(mm) - st[0]) < 1e-9) and (close(f2(ms), st[1], rel) or abs(f2(ms) - st[1]) < 1e-9)):
            ctx.mismatch("%s: estimates: model %r, implementation %r" % (where, [f2(mm), f2(ms)], st), c); return


def run_frames(ctx, cases):
    impl = []
    for part in C.run_impl_parallel("c11_impl", [dict(mode="frame", cases=ch) for ch in C.chunks(cases, C.NCPU)]):
        impl.extend(part)
    exprs = []
    for c, r in zip(cases, impl):
        hops = []
        usable = True
        for op, rec in zip(c["ops"], r["steps"]):
            if rec["err"] is not None and op[0] != "obs":
                usable = False
                break
            est = rec.get("ref") or r["init_ref"]
            hops.append(op_hop(c, op, rec, est))
        n = c["F"] * c["T"]
        if c["prior"] is None:
            st0 = "(fresh_f %s)" % C.gnat(n)
        else:
            st0 = "{| data := %s; nmean := %s; nstd := %s |}" % (C.glist([gf(x) for x in r["init_data"]]), gf(r["init_ref"][0]), gf(r["init_ref"][1]))
        exprs.append("(chi2_df_f %s %s, htrace (of_Z (chi2_df_f %s %s)) %s %s)" % (gf(c["df"]), gf(c["dt"]), gf(c["df"]), gf(c["dt"]), st0, C.glist(hops if usable else [])))
    try:
        vals = C.coq_eval(IMPORTS, exprs, shard=60)
    except Exception as ex:
        ctx.model_error(str(ex)[-1500:]); vals = None
    for i, (c, r) in enumerate(zip(cases, impl)):
        kinds = [o[0] + ":" + (o[1]["type"] if len(o) > 1 and "type" in o[1] else "") for o in c["ops"]]
        ctx.count(dict(k="frame", c=c), nontrivial=len(c["ops"]) >= 2)
        for kd in kinds:
            ctx.tally("frame_op", kd)
        ctx.tally("frame_prior", "fresh" if c["prior"] is None else c["dtype"])
        ctx.tally("frame_errors", sum(1 for s in r["steps"] if s["err"]))
        mrows = None
        if vals is not None:
            mk, rows = vals[i]
            if mk != r["chi2_df"]:
                ctx.mismatch("chi2_df: model %s, implementation %s for df=%r dt=%r" % (mk, r["chi2_df"], fh(c["df"]), fh(c["dt"])), c)
            mrows = rows if len(rows) == len(r["steps"]) else None
        check_frame_case(ctx, c, r, mrows)
    if cases:
        ctx.sample(dict(kind="frame-history", case=dict(cases[-1], prior=None if cases[-1]["prior"] is None else "(%d values)" % len(cases[-1]["prior"])),
                        impl_stats=[s.get("stats") for s in impl[-1]["steps"]]))


# ---------------------------------------------------------------- statistics
def run_stats(ctx, n_cases):
    rng = ctx.rng
    cases = []
    for i in range(n_cases):
        df, dt = rng.choice(RES)
        F = rng.choice([1024, 4096]); T = rng.choice([16, 32])
        kind = ["chi2", "gauss", "trunc"][i % 3]
        m = rng.choice([1.0, 10.0, 3.7, 250.0])
        s = rng.choice([0.5, 1.0, 7.0])
        a = dict(type=kind, m=hx(m))
        if kind != "chi2":
            a["s"] = hx(s)
        if kind == "trunc":
            a["mn"] = hx(m + s * rng.choice([-1.0, 0.0, 0.5, -2.5]))
        cases.append(dict(F=F, T=T, df=hx(df), dt=hx(dt), seed=rng.randint(0, 10 ** 6), noise=a, obs=(i % 5 == 4), share=rng.random() < 0.5))
    impl = []
    for part in C.run_impl_parallel("c11_impl", [dict(mode="stats", cases=ch) for ch in C.chunks(cases, C.NCPU)]):
        impl.extend(part)
    for c, r in zip(cases, impl):
        a = c["noise"]; m = fh(a["m"]); n = r["n"]
        ctx.count(dict(k="stats", c=c)); ctx.tally("stats_kind", a["type"])
        if a["type"] == "chi2":
            k = 4 * round(fh(c["df"]) * fh(c["dt"]))
            var = 2 * m * m / k
            cc = m / k
            mean_band = SIGMA * math.sqrt(var / n)
            var_band = SIGMA * math.sqrt((8 * k * k + 48 * k) * cc ** 4 / n) + var / n
            if abs(r["mean"] - m) > mean_band:
                ctx.impl_violation("chi2-mean", "chi2 noise x_mean=%r k=%d: sample mean %r over %d draws is outside %r +- %.3g" % (m, k, r["mean"], n, m, mean_band), c)
            if abs(r["var"] - var) > var_band:
                ctx.impl_violation("chi2-variance", "chi2 noise x_mean=%r k=%d: sample variance %r over %d draws is outside 2*m^2/k=%r +- %.3g" % (m, k, r["var"], n, var, var_band), c)
            if r["stats"][0] != m or not close(r["stats"][1], math.sqrt(var), 1e-14):
                ctx.impl_violation("first-noise-params", "chi2 noise on a fresh frame records %r, expected (%r, %r)" % (r["stats"], m, math.sqrt(var)), c)
        else:
            s = fh(a["s"])
            if c.get("obs") and not c.get("share"):
                m = max(m, s)          # independently sampled parameters: the mean is raised to at least the deviation (documented)
            if a["type"] == "gauss":
                if abs(r["mean"] - m) > SIGMA * s / math.sqrt(n):
                    ctx.impl_violation("gauss-mean", "gaussian noise (%r, %r): sample mean %r over %d draws" % (m, s, r["mean"], n), c)
                if abs(r["var"] - s * s) > SIGMA * s * s * math.sqrt(2.0 / n) + s * s / n:
                    ctx.impl_violation("gauss-variance", "gaussian noise (%r, %r): sample variance %r over %d draws" % (m, s, r["var"], n), c)
            else:
                mn = fh(a["mn"])
                p = 0.5 * (1 + math.erf((mn - m) / (s * math.sqrt(2))))
                if r["min"] < mn:
                    ctx.impl_violation("floor", "truncated noise has minimum %r below the floor %r" % (r["min"], mn), c)
                if abs(r["frac_at_floor"] - p) > SIGMA * math.sqrt(p * (1 - p) / n) + 1.0 / n:
                    ctx.impl_violation("trunc-mass", "truncated gaussian (%r, %r, floor %r): %.5f of the samples sit on the floor, expected %.5f" % (m, s, mn, r["frac_at_floor"], p), c)
            if r["stats"] != [m, s]:
                ctx.impl_violation("first-noise-params", "gaussian noise on a fresh frame records %r, expected (%r, %r)" % (r["stats"], m, s), c)


# ---------------------------------------------------------------- SNR
def run_snr(ctx, n_cases):
    rng = ctx.rng
    cases = []
    for _ in range(n_cases):
        scale = rng.choice([1.0, 1.0, 1.0, 1e-9, 1e-12, 1e-26, 1e9])         # "all parameter values": calibrated flux units are tiny numbers, raw counts huge ones
        cases.append(dict(T=rng.choice([1, 2, 3, 16, 32, 33, rng.randint(1, 2000)]), m=hx((rnd_pos(rng) + 1) * scale), s=hx((rnd_pos(rng) + rng.choice([0.001, 0.5])) * scale),
                          snrs=[hx(rng.choice([1.0, 10.0, 25.0, 1e-3, 1e6, round(rng.uniform(0.1, 1000), 3), -5.0, 0.0])) for _ in range(6)]))
    impl = []
    for part in C.run_impl_parallel("c11_impl", [dict(mode="snr", cases=ch) for ch in C.chunks(cases, C.NCPU)]):
        impl.extend(part)
    exprs = []
    for c, r in zip(cases, impl):
        exprs.append(C.glist(["(obs (intensity_f %s %s %s), obs (snr_f %s %s %s))" % (gf(s), gf(r["std"]), C.gz(c["T"]), gf(s), gf(r["std"]), C.gz(c["T"])) for s in c["snrs"]]))
    try:
        vals = C.coq_eval(IMPORTS, exprs, shard=200)
    except Exception as ex:
        ctx.model_error(str(ex)[-1500:]); vals = None
    for i, (c, r) in enumerate(zip(cases, impl)):
        ctx.count(dict(k="snr", c=c)); ctx.tally("snr_tchans_log2", int(math.log2(c["T"])))
        if not r["empty_raises"]:
            ctx.impl_violation("snr-empty", "get_intensity / get_snr on a frame without noise must raise ValueError", c)
        sd = fh(r["std"])
        if sd != fh(c["s"]):
            ctx.impl_violation("first-noise-params", "gaussian noise std %r recorded as %r" % (fh(c["s"]), sd), c)
        for j, (s, v) in enumerate(zip(c["snrs"], r["vals"])):
            s = fh(s); inten = fh(v["intensity"]); back = fh(v["back"])
            want = Fraction(s) * Fraction(sd) / Fraction(math.sqrt(c["T"]))
            if abs(Fraction(inten) - want) > abs(want) * Fraction(1, 10 ** 12):
                ctx.impl_violation("intensity", "get_intensity(%r) = %r with noise_std=%r tchans=%d; snr*std/sqrt(tchans) = %r" % (s, inten, sd, c["T"], float(want)), c)
            if abs(back - s) > 1e-12 * abs(s):
                ctx.impl_violation("snr-inverse", "get_snr(get_intensity(%r)) = %r" % (s, back), c)
            if vals is not None:
                _v = vals[i][j]
                mi, msn = (_v[0], _v[1]), _v[2]
                if f2(mi) != inten or f2(msn) != fh(v["snr_of"]):
                    ctx.mismatch("get_intensity/get_snr(%r): binary64 model %r/%r, implementation %r/%r" % (s, f2(mi), f2(msn), inten, fh(v["snr_of"])), c)
    if cases:
        ctx.sample(dict(kind="snr", case=cases[-1], impl=impl[-1]["vals"][:2]))


# ---------------------------------------------------------------- voltage noise levels
def gen_volt(rng, sample):
    kind = rng.choice(["stream", "antenna", "array", "array", "array"])
    npols = rng.choice([1, 2])
    nant = rng.randint(1, 4) if kind == "array" else 1
    ops = []
    for _ in range(rng.randint(1, 7)):
        tgt = "bg" if (kind == "array" and rng.random() < 0.5) else "own"
        pol = None if (kind != "stream" and rng.random() < 0.5) else rng.randrange(npols)
        if kind == "stream":
            pol = 0
        std = rng.choice([0.0, 1.0, 2.0, 3.0, 0.5, round(rng.uniform(0.01, 30), rng.randint(0, 5)), 1e-8, 1e6])
        ops.append([tgt, rng.randrange(nant), hx(rng.choice([0.0, 0.0, 1.5, -2.0])), hx(std), pol])
    c = dict(kind=kind, npols=(1 if kind == "stream" else npols), nant=nant, seed=rng.randint(0, 10 ** 6), ops=ops)
    if kind == "array" and rng.random() < 0.4:
        c["update"] = True
    if sample and kind != "stream":
        for o in c["ops"]:
            if fh(o[3]) > 100 or (0 < fh(o[3]) < 0.01):
                o[3] = hx(2.5)
        c["sample"] = 40000
    return c


def run_volt(ctx, cases):
    impl = []
    for part in C.run_impl_parallel("c11_impl", [dict(mode="volt", cases=ch) for ch in C.chunks(cases, C.NCPU)]):
        impl.extend(part)
    exprs = []
    for c in cases:
        for p in range(c["npols"]):
            ops = []
            for o in c["ops"]:
                if o[4] is None or o[4] == p:
                    ops.append("StreamNoiseF %s %s" % (C.gnat(o[1]), gf(o[3])) if o[0] == "own" else "BackgroundNoiseF %s" % gf(o[3]))
                else:
                    ops.append("StreamNoiseF %s %s" % (C.gnat(c["nant"]), gf(0.0)))     # another polarisation: no effect on this one
            exprs.append("vtrace %s %s" % (C.gnat(c["nant"]), C.glist(ops)))
    try:
        vals = C.coq_eval(IMPORTS, exprs, shard=200)
    except Exception as ex:
        ctx.model_error(str(ex)[-1500:]); vals = None
    vi = 0
    for c, r in zip(cases, impl):
        ctx.count(dict(k="volt", c=c), nontrivial=len(c["ops"]) >= 2)
        ctx.tally("volt_kind", c["kind"]); ctx.tally("volt_ops", len(c["ops"]))
        ctx.tally("volt_bg_sources", sum(1 for o in c["ops"] if o[0] == "bg"))
        for p in range(c["npols"]):
            own2 = [Fraction(0)] * c["nant"]; bg2 = Fraction(0)
            mrows = vals[vi] if vals is not None else None
            vi += 1
            for k, (o, row) in enumerate(zip(c["ops"], r["rows"])):
                if o[4] is None or o[4] == p:
                    if o[0] == "own":
                        own2[o[1]] += Fraction(fh(o[3])) ** 2
                    else:
                        bg2 += Fraction(fh(o[3])) ** 2
                for a in range(c["nant"]):
                    if c["kind"] == "stream":
                        own, bg, tot = fh(row["own"][0]), fh(row["bg"]), fh(row["total"][0])
                    else:
                        own, bg, tot = fh(row["own"][a][p]), fh(row["bg"][a][p]), fh(row["total"][a][p])
                    where = "after %d noise sources (%s), antenna %d pol %d" % (k + 1, c["kind"], a, p)
                    for nm, got, want2 in (("own-quadrature", own, own2[a]), ("background-quadrature", bg, bg2), ("total-quadrature", tot, own2[a] + bg2)):
                        want = math.sqrt(want2)
                        if abs(got - want) > 1e-12 * max(want, 1e-300):
                            ctx.impl_violation(nm, "%s: %s deviation %r, quadrature sum of the sources is %r" % (where, nm.split("-")[0], got, want), c)
                    if c["kind"] == "array" and row["bgsrc"] is not None and fh(row["bgsrc"][p]) != bg:
                        ctx.impl_violation("background-propagation", "%s: antenna stream's background deviation %r differs from the background stream's %r" % (where, bg, fh(row["bgsrc"][p])), c)
                    if mrows is not None:
                        mown, mbg, mtot = mrows[k]
                        # `x**2` on numpy scalars goes through libm's pow, which is not guaranteed correctly rounded: allow a few ulps
                        if not (close(f2(mown[a]), own, 1e-15) and close(f2(mbg), bg, 1e-15) and close(f2(mtot[a]), tot, 1e-15)):
                            ctx.mismatch("%s: binary64 model own/bg/total %r/%r/%r, implementation %r/%r/%r" % (where, f2(mown[a]), f2(mbg), f2(mtot[a]), own, bg, tot), c)
            if "upd" in r:
                u_ = r["upd"]; n = u_["n"]
                est, was = u_["bgsrc"][p], u_["before"][p]
                ctx.tally("volt_bg_update", "checked")
                if abs(est - was) > SIGMA * was / math.sqrt(2 * n) + 1e-12 * max(1.0, was):
                    ctx.impl_violation("background-update-estimate", "pol %d: the background stream's update_noise() estimates %r from %d samples, its sources add up to %r" % (p, est, n, was), c)
                for a in range(c["nant"]):
                    if u_["bg"][a][p] != est:
                        ctx.impl_violation("background-propagation", "after the background stream's update_noise(): antenna %d pol %d keeps background deviation %r, the background stream now says %r"
                                           % (a, p, u_["bg"][a][p], est), c)
                    want = math.sqrt(u_["own"][a][p] ** 2 + est ** 2)
                    if abs(u_["total"][a][p] - want) > 1e-12 * max(want, 1e-300):
                        ctx.impl_violation("total-quadrature", "after the background stream's update_noise(): antenna %d pol %d total %r, own and background in quadrature %r" % (a, p, u_["total"][a][p], want), c)
            if "emp" in r:
                for a in range(c["nant"]):
                    claimed = fh(r["rows"][-1]["total"][a][p]); emp = r["emp"][a][p]; n = r["n"]
                    band = SIGMA * claimed / math.sqrt(2 * n) + 1e-12
                    ctx.tally("volt_empirical", "checked")
                    if abs(emp - claimed) > band:
                        ctx.impl_violation("total-vs-samples", "antenna %d pol %d: get_total_noise_std()=%r but %d produced samples have deviation %r (band %.3g)" % (a, p, claimed, n, emp, band), c)
    if cases:
        ctx.sample(dict(kind="voltage-noise", case=cases[-1], impl=impl[-1]["rows"][-1]))


def corpus():
    p = os.path.join(C.ROOT, "corpus", "c11.json")
    return json.load(open(p)) if os.path.exists(p) else dict(frame=[], volt=[])


# ---------------------------------------------------------------- bundled observation table
def gen_deftab(rng):
    nf = rng.choice([1, 2, 2, 3])
    frames = []
    for _ in range(nf):
        df, dt = rng.choice(RES)
        if rng.random() < 0.3:
            dt = 1.4316557653333333; df = 1.3969838619232178
        F = rng.randint(1, 8)
        frames.append(dict(F=F, T=rng.randint(1, 6), df=hx(df), dt=hx(dt), seed=rng.randint(0, 10 ** 6)))
    draws = []
    for _ in range(rng.randint(2, 6)):
        t = rng.choice(["chi2", "chi2", "gauss", "gauss"])
        draws.append(dict(frame=rng.randrange(nf), zero=rng.random() < 0.5, type=t, share=rng.random() < 0.55))
    return dict(frames=frames, draws=draws)


def run_deftab(ctx, n):
    cases = [gen_deftab(ctx.rng) for _ in range(n)]
    impl = []
    # one interpreter per scenario: what leaks between the draws of a scenario is the point, and the replay of a scenario is then self-contained
    for part in C.run_impl_parallel("c11_impl", [dict(mode="deftab", cases=[c]) for c in cases]):
        impl.extend(part)
    for c, r in zip(cases, impl):
        ctx.count(dict(k="deftab", c=c), nontrivial=True)
        for d in c["draws"]:
            ctx.tally("default_table_draw", d["type"] + ("" if d["type"] == "chi2" else (":shared" if d["share"] else ":indep")))
        for key, msg in r["fails"]:
            ctx.impl_violation(key, msg, dict(k="deftab", c=c))


def run(ctx):
    rng = ctx.rng
    quick = ctx.tier == "quick"
    ctx.rule = ("frame histories of 1-6 operations (chi2 / gaussian / truncated noise, table noise with and without a shared index and with "
                "equal / unequal table lengths, zero_data, add_signal) on fresh, preloaded float64 and float32 frames of 1..48 pixels at 14 fixed and "
                "random resolutions with df*dt >= 1 (including half-integer products); SNR round trips for tchans 1..2000; voltage noise-level "
                "histories on DataStream / Antenna / MultiAntennaArray (1-4 antennas, 1-2 polarisations, own and background sources); statistical "
                "acceptance at %.1f sigma on 2^14..2^17 draws; add_noise_from_obs with the bundled table (no arrays given): 2-6 draws per scenario over 1-3 frames of "
                "different dt in one interpreter; non-trivial = at least two operations" % SIGMA)
    ctx.assumptions = ["numpy's Generator is the oracle: chisquare(k) has mean k and variance 2k, normal(m, s) has mean m and deviation s -- the moment theorems are "
                       "conditional on it; the statistical runs sample it at %.1f sigma (exploration, not proof)" % SIGMA,
                       "the recording generator subclasses numpy.random.Generator and delegates every call, so the bit stream is the real one",
                       "sigma-clipped re-estimates are compared with an independent reference within 1e-9 relative (2e-5 for float32 data)",
                       "sqrt in the quadrature sums is numpy's and x**2 is libm's pow; the theorem tracks variances exactly, the binary64 twin (x*x, sqrt) is compared to 1e-15 relative"]
    cp = corpus()
    run_frames(ctx, cp.get("frame", []) + [gen_frame_case(rng) for _ in range(160 if quick else 3000)])
    run_snr(ctx, 60 if quick else 1500)
    vc = cp.get("volt", []) + [gen_volt(rng, sample=(i % (8 if quick else 5) == 0)) for i in range(80 if quick else 1500)]
    run_volt(ctx, vc)
    run_stats(ctx, 18 if quick else 300)
    run_deftab(ctx, 24 if quick else 400)


def replay(ctx, payload):
    case = payload["case"]
    if "kind" in case and case.get("kind") in ("stream", "antenna", "array"):
        run_volt(ctx, [case])
    elif case.get("k") == "deftab":
        r = C.run_impl("c11_impl", dict(mode="deftab", cases=[case["c"]]))[0]
        for key, msg in r["fails"]:
            ctx.impl_violation(key, msg, case)
    elif "snrs" in case:
        r = C.run_impl("c11_impl", dict(mode="snr", cases=[case]))[0]
        print(json.dumps(r, indent=1)[:2000])
        return 0
    elif "noise" in case:
        r = C.run_impl("c11_impl", dict(mode="stats", cases=[case]))[0]
        print(json.dumps(r, indent=1))
        return 0
    else:
        run_frames(ctx, [case])
    for key, what, _ in ctx.impl_violations:
        print("  %s: %s" % (key, what))
    for what, _ in ctx.mismatches:
        print("  model/implementation: %s" % what)
    bad = bool(ctx.impl_violations or ctx.mismatches)
    print("replay: property %s on %s" % ("FAILS" if bad else "holds", C.REPO))
    return 1 if bad else 0
