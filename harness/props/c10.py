"""C10 -- DataStream / Antenna timeline.  The Gallina model describes every request by (clock, n,
first generator draw per noise source); the implementation side rebuilds the voltages from that
description with numpy and compares; plus chunked-vs-merged on the implementation itself."""
import json
import os
from harness import common as C

IMPORTS = "From Coq Require Import List ZArith.\nFrom SV Require Import Model.Stream.\nImport ListNotations.\n"


def gen_case(rng):
    dyadic = rng.random() < 0.75
    sr = float(2 ** rng.randint(4, 20)) if dyadic else rng.choice([3e9, 1e6 + 1, 2.5e9, rng.uniform(1e5, 6e9)])
    nnoise = rng.choice([0, 0, 1, 1, 1, 2])
    noise = [[rng.choice([0.0, 1.5, -2.0]), rng.choice([1.0, 0.5, 3.0])] for _ in range(nnoise)]
    chirps = []
    for _ in range(rng.choice([0, 0, 1, 2]) if nnoise else rng.choice([0, 1, 1, 2])):
        chirps.append(dict(f_start=rng.uniform(0.0, sr / 2), drift=rng.uniform(-1, 1) * sr / 50, level=rng.uniform(0.1, 2), phase=rng.uniform(0, 6)))
    t0 = rng.choice([0, 0, 7, 1000, 12345])
    ops = []
    # real use requests the same chunk size over and over: draw sizes mostly from a small palette
    palette = [rng.randint(1, 48) for _ in range(rng.choice([1, 2, 3]))]

    def size():
        return rng.choice(palette) if rng.random() < 0.75 else rng.randint(1, 48)
    clock = t0                                   # in sample periods; boundary targets (0, the start, a rewind onto 0) are drawn on purpose
    for _ in range(rng.randint(1, 9)):
        r = rng.random()
        if r < 0.62:
            n = size()
            ops.append(["get", n]); clock += n
        elif r < 0.72:
            clock = rng.choice([0, 0, t0, rng.randint(0, 5000), rng.randint(0, 5000)])
            ops.append(["set_time", clock])
        elif r < 0.80:
            d = -clock if rng.random() < 0.3 else rng.randint(-min(clock, 300), 300)
            ops.append(["add_time", d]); clock += d
        elif r < 0.88:
            ops.append(["reset_start"])
        else:
            ops.append(["update_noise", size()])
    if not any(o[0] == "get" for o in ops):
        ops.append(["get", 5])
    antenna = rng.random() < 0.35
    extra = {}
    pols = rng.choice([1, 2])
    if antenna and pols == 2 and rng.random() < 0.5:
        extra["probe_y"] = rng.choice(["complex", "real", "none"])        # the polarisations need not carry the same kind of custom source
    probe = rng.choice(["complex", "complex", "real", "none", "table"])
    if probe == "table" and not (dyadic and t0 + 5000 + 9 * 348 < 24000):
        probe = "complex"            # the table-backed source indexes by sample number: exact at dyadic rates only
    return dict(extra, sr=sr, dyadic=dyadic, fch1=rng.choice([0.0, 0.0, sr * 2]), ascending=rng.random() < 0.5, t0=t0, seed=rng.randint(0, 10 ** 6),
                noise=noise, chirps=chirps, probe=probe, ops=ops, antenna=antenna, pols=pols)


def gen_frac(rng):
    """ops in eighths of a sample: gaps and targets off the sample grid, small rewinds included"""
    ops = []
    clock8 = rng.choice([0, 0, 20, 1001])
    t0 = clock8
    for _ in range(rng.randint(2, 7)):
        r = rng.random()
        if r < 0.5:
            n = rng.randint(1, 12); ops.append(["get", n]); clock8 += 8 * n
        elif r < 0.8:
            d = rng.choice([1, 3, 5, 7, 9, 29, 123, -1, -3, -5]) if rng.random() < 0.8 else 8 * rng.randint(1, 5)
            if clock8 + d < 0:
                d = 3
            ops.append(["add_time", d]); clock8 += d
        else:
            clock8 = rng.choice([0, 4, 13, 8 * rng.randint(0, 50) + rng.randint(0, 7)]); ops.append(["set_time", clock8])
    ops.append(["get", rng.randint(1, 9)])
    return dict(sr=float(2 ** rng.randint(4, 16)), t0_8=t0, antenna=rng.random() < 0.4, ops=ops, dup=rng.choice([0, 1, 2, 3]))


def g_ops(c):
    out = ["AddNoise"] * len(c["noise"])
    for op in c["ops"]:
        k = op[0]
        if k == "get":
            out.append("Get %s" % C.gz(op[1]))
        elif k == "set_time":
            out.append("SetTime %s" % C.gz(op[1]))
        elif k == "add_time":
            out.append("AddTime %s" % C.gz(op[1]))
        elif k == "reset_start":
            out.append("ResetStart")
        elif k == "update_noise":
            out.append("UpdateNoise %s" % C.gz(op[1]))
    return C.glist(out)


def run(ctx):
    rng = ctx.rng
    quick = ctx.tier == "quick"
    ctx.rule = ("DataStream and Antenna (1-2 pols) with 0-2 noise sources, 0-2 chirps, real / complex (computed or handing out views of a waveform table) / no custom source, both orientations, "
                "dyadic (bit-exact) and realistic (toleranced) sample rates, random op lists of get / set_time / add_time / reset_start / "
                "update_noise; plus op lists whose gaps / targets are odd eighths of a sample (also small rewinds), read back through the probe; non-trivial = at least two requests; distinct = distinct case")
    ctx.assumptions = ["numpy Generator.standard_normal(a) then (b) equals (a+b) (re-checked in this run)",
                       "at realistic sample rates the clock accumulates double round-off: times compared to 1e-9 relative, chirps to 1e-3 of the level",
                       "numpy cos is trusted (both sides call it)"]
    cases = corpus() + [gen_case(rng) for _ in range(150 if quick else 3000)]
    exprs = []
    for c in cases:
        exprs.append("let '(rs, s) := run (fresh %s 0) %s in (rs, clock s)" % (C.gz(c["t0"]), g_ops(c)))
    try:
        vals = C.coq_eval(IMPORTS, exprs, shard=300)
    except Exception as ex:
        ctx.model_error(str(ex)[-1500:])
        return
    for c, v in zip(cases, vals):
        rs, clk = v
        c["model_reqs"] = [[r[0], r[1], list(r[2])] for r in rs]
        c["model_clock"] = clk
    res = []
    env_ok = True
    for part in C.run_impl_parallel("c10_impl", [dict(cases=ch) for ch in C.chunks(cases, C.NCPU)]):
        env_ok = env_ok and part["env_ok"]
        res.extend(part["results"])
    if not env_ok:
        ctx.env_errors.append("numpy standard_normal is not stream-consistent in this environment")
    for c, r in zip(cases, res):
        ng = sum(1 for o in c["ops"] if o[0] == "get")
        small = dict((k, c[k]) for k in c if not k.startswith("model_"))
        ctx.count(small, nontrivial=ng >= 2)
        ctx.tally("rate", "dyadic" if c["dyadic"] else "realistic"); ctx.tally("noise_sources", len(c["noise"]))
        ctx.tally("object", "antenna" if c["antenna"] else "stream"); ctx.tally("probe", c["probe"])
        for o in c["ops"]:
            ctx.tally("ops", o[0])
        for key, msg in r["fails"]:
            ctx.impl_violation(key, msg, small)
        two = len(c["noise"]) >= 2
        for m in r["mism"]:
            ctx.mismatch(m, small)
    ctx.sample(dict(case=dict((k, cases[-1][k]) for k in ("sr", "t0", "noise", "ops", "antenna", "probe")), model_reqs=cases[-1]["model_reqs"][:3]))
    # times that are not whole numbers of samples (the model counts whole samples; this part is a direct oracle on the implementation)
    fcases = [gen_frac(rng) for _ in range(40 if quick else 600)]
    fres = []
    for part in C.run_impl_parallel("c10_impl", [dict(mode="frac", cases=ch) for ch in C.chunks(fcases, C.NCPU)]):
        fres.extend(part["results"])
    for c, r in zip(fcases, fres):
        ctx.count(dict(k="frac", c=c), nontrivial=True)
        ctx.tally("fractional_times", "antenna" if c["antenna"] else "stream")
        for key, msg in r["fails"]:
            ctx.impl_violation(key, msg, dict(k="frac", **c))


def corpus():
    p = os.path.join(C.ROOT, "corpus", "c10.json")
    return json.load(open(p)) if os.path.exists(p) else []


def replay(ctx, payload):
    c = payload["case"]
    if c.get("k") == "frac":
        r = C.run_impl("c10_impl", dict(mode="frac", cases=[c]))["results"][0]
        for k, m in r["fails"]:
            print("FAILS: %s: %s" % (k, m))
        print("replay: %d property failure(s) on %s" % (len(r["fails"]), C.REPO))
        return 1 if r["fails"] else 0
    v = C.coq_eval(IMPORTS, ["let '(rs, s) := run (fresh %s 0) %s in (rs, clock s)" % (C.gz(c["t0"]), g_ops(c))])[0]
    c["model_reqs"] = [[r[0], r[1], list(r[2])] for r in v[0]]; c["model_clock"] = v[1]
    r = C.run_impl("c10_impl", dict(cases=[c]))["results"][0]
    for k, m in r["fails"]:
        print("FAILS: %s: %s" % (k, m))
    print("replay: %d property failure(s) on %s" % (len(r["fails"]), C.REPO))
    return 1 if r["fails"] else 0
