"""C14 implementation side: makes an input recording, builds a backend from it (from_data), injects a
synthetic stream and records.  Reports: decoded input blocks vs an independent decoder, framing of the
output, the custom deviation handed to the first requantisation at every call (gain), and the output
samples vs a numpy reference of requant(input + scaled synthetic) driven by the model's sub-block plan."""
import sys, json, os, copy
import numpy as np
import recutil as R


def est(x, num):
    n = min(num, len(x))
    m = np.mean(x[:n]); s = np.std(x[:n])
    if n > 0 and np.max(x[:n]) == np.min(x[:n]):
        s = 0 * s
    return m, s


def qz(x, tm, ts, b, m, s):
    f = 0 if s == 0 else ts / s
    return np.clip(np.around(f * (x - m) + tm), -2 ** (b - 1), 2 ** (b - 1) - 1).astype(int)


def make_src(c, seed):
    cc = dict(c, seed=seed, noise=c.get("inj_noise", []), signals=c.get("inj_signals", []), bg_noise=[])
    return R.build_source(cc)


def run_case(c):
    import setigen.voltage as V
    from setigen.voltage import polyphase_filterbank as PF
    res = dict(fails=[])
    nb, taps = c["nb"], c["taps"]
    with R.Scratch() as d:
        stem_in = os.path.join(d, "in")
        cin = dict(c, num_blocks=c["in_blocks"], blocks_per_file=c["in_bpf"], num_subblocks=1, load_template=False)
        _, be_in = R.build_backend(cin)
        hd = {}
        for i in range(c.get("filler", 0)):
            hd["F%d" % i] = i
        if c["directio"]:
            hd["DIRECTIO"] = 1
        R.record(be_in, stem_in, cin, header_dict=hd)
        in_files = R.list_files(stem_in)
        if c.get("npol4") and c["num_pols"] == 2:
            # telescope files describe two polarisations as NPOL = 4 (four real streams): the readers take that as two polarisations
            old_card = ("%-8s= %20s" % ("NPOL", 2)).ljust(80).encode()
            new_card = ("%-8s= %20s" % ("NPOL", 4)).ljust(80).encode()
            for f in in_files:
                raw = open(f, "rb").read()
                if old_card in raw:
                    open(f, "wb").write(raw.replace(old_card, new_card))
        in_blocks = []
        for f in in_files:
            in_blocks.extend(R.parse_raw_bytes(open(f, "rb").read()))
        nct = c["nchans"] * c["nants"]
        in_dec = [R.decode_block(b["data"], nct, c["num_pols"], c["nbits"]) for b in in_blocks]     # (row, T, pol)
        res["in_cards"] = len(in_blocks[0]["cards"]) + 1
        # ---- injection backend
        src = make_src(c, c["inj_seed"])
        fb = V.PolyphaseFilterbank(num_taps=taps, num_branches=nb)
        lazy = bool(c.get("lazy_stds"))
        if not lazy:
            fb.estimate_channelized_stds(factor=200, seed=7)
            stds0 = np.array(fb.channelized_stds, dtype=float).copy()
        else:
            stds0 = None        # left to the backend: estimated (unseeded) the first time a sub-block is requantised, i.e. mid-stream
        dg = V.RealQuantizer(target_fwhm=c.get("dig_fwhm", 32), num_bits=8)
        try:
            be = V.RawVoltageBackend.from_data(stem_in, src, digitizer=dg, filterbank=fb, start_chan=c["start_chan"], num_subblocks=c["num_subblocks"])
        except Exception as ex:
            return dict(error="from_data: " + repr(ex))
        res["be"] = dict(block_size=int(be.block_size), nbits=int(be.num_bits), nchans=int(be.num_chans), npols=int(be.num_pols), nants=int(be.num_antennas),
                         input_num_blocks=int(be.input_num_blocks), header_size=int(be.header_size), blocks_per_file=int(be.blocks_per_file))
        gains = {}
        for a in range(be.num_antennas):
            for p in range(be.num_pols):
                rq = be.requantizer[a][p]
                orig = rq.quantize

                def wrapped(v, custom_stds=None, orig=orig, key=(a, p)):
                    if custom_stds is not None:
                        gains.setdefault("%d,%d" % key, []).append([float(x) for x in np.asarray(custom_stds, dtype=float)])
                    return orig(v, custom_stds=custom_stds)
                rq.quantize = wrapped
        decoded = []
        orig_read = be._read_next_block

        def read_wrapped():
            iv = orig_read()
            decoded.append(np.array(iv))
            return iv
        be._read_next_block = read_wrapped
        stem_out = os.path.join(d, "out")
        kw = dict(digitize=c["digitize"], verbose=False, header_dict={})
        try:
            with R.quiet():
                if c["requested"] is None:
                    be.record(output_file_stem=stem_out, length_mode="num_blocks", **kw)
                else:
                    be.record(output_file_stem=stem_out, num_blocks=c["requested"], length_mode="num_blocks", **kw)
        except Exception as ex:
            return dict(error="record: " + repr(ex), be=res["be"])
        out_blocks = []
        out_files = R.list_files(stem_out)
        for f in out_files:
            try:
                out_blocks.extend(R.parse_raw_bytes(open(f, "rb").read()))
            except Exception as ex:
                return dict(error="output not well-formed: " + str(ex), be=res["be"])
        res["n_out"] = len(out_blocks)
        res["out_hdr"] = [dict((k, b["hdr"].get(k)) for k in ("BLOCSIZE", "NBITS", "OBSNCHAN", "NPOL", "NANTS")) for b in out_blocks[:1]]
        res["in_hdr"] = [dict((k, b["hdr"].get(k)) for k in ("BLOCSIZE", "NBITS", "OBSNCHAN", "NPOL", "NANTS")) for b in in_blocks[:1]]
        res["out_ndata"] = sorted(set(len(b["data"]) for b in out_blocks))
        res["n_in"] = len(in_blocks)
        # ---- decode exact
        dec_ok = True
        for k, iv in enumerate(decoded):
            ref = in_dec[k]                                  # (row, T, pol)
            T = ref.shape[1]
            mine = iv.reshape((nct, T, c["num_pols"]))
            if mine.shape != ref.shape or not np.array_equal(mine, ref):
                dec_ok = False
                res["fails"].append(["decode", "input block %d decoded by _read_next_block differs from the samples stored in it (%d of %d differ)"
                                     % (k, int(np.sum(mine != ref)) if mine.shape == ref.shape else -1, ref.size)])
                break
        # ---- gain
        ts_d = float(dg.target_std)
        want_ap = {}
        for a in range(be.num_antennas):
            for p_ in range(be.num_pols):
                st = stds0 if not lazy else np.array(be.filterbank[a][p_].channelized_stds, dtype=float)
                want_ap[(a, p_)] = st * (ts_d if c["digitize"] else 1.0)
        res["stds0"] = None if lazy else stds0.tolist(); res["gain_want"] = want_ap[(0, 0)].tolist()
        res["gains"] = gains
        for key, lst in gains.items():
            arr = np.array(lst)
            want = want_ap[tuple(int(x) for x in key.split(","))]
            if not np.allclose(arr, want[None, :], rtol=1e-9, atol=0):
                k = int(np.argmax(~np.all(np.isclose(arr, want[None, :], rtol=1e-9, atol=0), axis=1)))
                res["fails"].append(["gain-not-stationary", "antenna,pol %s: custom deviation at call %d is %s, at call 0 %s, expected %s at every call (digitize=%s)"
                                     % (key, k, arr[k].tolist(), arr[0].tolist(), want.tolist(), c["digitize"])])
                break
        # ---- reference: requant(input + scaled synthetic), driven by the model's request plan
        reqs = c["model_requests"]        # per block: list of request sizes
        plans = c["model_plans"]          # per block: list of windows per sub-block
        ref_src = make_src(c, c["inj_seed"])
        h = PF.get_pfb_window(taps, nb, "hamming").reshape((taps, nb))
        caches = {}
        nblk = res["n_out"]
        bits = c["nbits"]
        bad = None
        for b in range(min(nblk, len(reqs))):
            out_dec = R.decode_block(out_blocks[b]["data"], nct, c["num_pols"], bits)
            inb = in_dec[b]
            tau0 = 0
            for s, (n, kwin) in enumerate(zip(reqs[b], plans[b])):
                v_all = ref_src.get_samples(n)
                nrows = taps * kwin
                for a in range(c["nants"]):
                    for p in range(c["num_pols"]):
                        x = np.asarray(v_all[a][p])
                        if c["digitize"]:
                            m, sd = est(x, 10000)
                            x = qz(x, 0, ts_d, 8, m, sd)
                        prev = caches.get((a, p))
                        xx = x if prev is None else np.concatenate([prev, x])
                        caches[(a, p)] = xx[-taps * nb:]
                        W = len(xx) // (taps * nb)
                        xp_ = xx[:W * taps * nb].reshape((W * taps, nb))
                        rows = np.zeros(((W - 1) * taps, nb))
                        for t in range((W - 1) * taps):
                            rows[t, :] = np.sum(xp_[t:t + taps, :] * h, axis=0)
                        X = np.fft.fft(rows, nb, axis=1)[:, c["start_chan"]:c["start_chan"] + c["nchans"]] / nb ** 0.5
                        rsl = slice(a * c["nchans"], (a + 1) * c["nchans"])
                        Rin = inb[rsl, :, p].real; Iin = inb[rsl, :, p].imag
                        tmr, tsr = np.mean(Rin), np.std(Rin); tmi, tsi = np.mean(Iin), np.std(Iin)
                        mr, _ = est(X.real, 10000); mi, _ = est(X.imag, 10000)
                        want = want_ap[(a, p)]
                        v = qz(X.real, 0, tsr, bits, mr, want[0]) + 1j * qz(X.imag, 0, tsi, bits, mi, want[1])
                        v = v + inb[rsl, tau0:tau0 + nrows, p].T
                        m2r, s2r = est(v.real, 10000); m2i, s2i = est(v.imag, 10000)
                        o = qz(v.real, tmr, tsr, bits, m2r, s2r) + 1j * qz(v.imag, tmi, tsi, bits, m2i, s2i)
                        got = out_dec[rsl, tau0:tau0 + nrows, p].T
                        if got.shape != o.shape or not np.array_equal(got, o):
                            if bad is None:
                                bad = "block %d sub-block %d antenna %d pol %d: %d of %d samples differ from requant(input + scaled synthetic)" % (
                                    b, s, a, p, int(np.sum(got != o)) if got.shape == o.shape else -1, o.size)
                tau0 += nrows
        if bad:
            res["fails"].append(["block-is-sum", bad])
    return res


def main():
    payload = json.load(sys.stdin)
    json.dump([run_case(c) for c in payload["cases"]], open(sys.argv[1], "w"))


if __name__ == "__main__":
    main()
