"""Helpers shared by the voltage-side implementation runners: build antenna sources and
backends from a JSON config, record into a scratch directory, and parse GUPPI RAW files with
an independent reader (80-byte cards up to END; when DIRECTIO is non-zero the header is padded to
the next multiple of 512 only if not already a multiple; then BLOCSIZE bytes)."""
import copy
import glob
import io
import os
import shutil
import sys
import tempfile
import contextlib
import numpy as np


def quiet():
    return contextlib.redirect_stderr(io.StringIO())


def build_source(c):
    import setigen.voltage as V
    kw = dict(sample_rate=c["sample_rate"], fch1=c.get("fch1", 0.0), ascending=c.get("ascending", True),
              num_pols=c.get("num_pols", 2), t_start=c.get("t_start", 0), seed=c.get("seed", 1))
    if c.get("nants", 1) > 1 or c.get("force_array"):
        if "delays" in c:
            src = V.MultiAntennaArray(num_antennas=c["nants"], delays=c["delays"], **kw)
        else:
            src = V.MultiAntennaArray(num_antennas=c["nants"], **kw)
        ants = src.antennas
        bgs = src.bg_streams
    else:
        src = V.Antenna(**kw)
        ants = [src]
        bgs = []
    for a in ants:
        for s in a.streams:
            for (m, sd) in c.get("noise", [[0.0, 1.0]]):
                s.add_noise(v_mean=m, v_std=sd)
            for sig in c.get("signals", []):
                s.add_constant_signal(f_start=sig["f_start"], drift_rate=sig.get("drift", 0.0),
                                      level=sig.get("level", 1.0), phase=sig.get("phase", 0.0))
    for b in bgs:
        for (m, sd) in c.get("bg_noise", []):
            b.add_noise(v_mean=m, v_std=sd)
    return src


def build_backend(c, src=None):
    import setigen.voltage as V
    if src is None:
        src = build_source(c)
    dg = c.get("dig", {})
    rq = c.get("req", {})
    digitizer = V.RealQuantizer(target_fwhm=dg.get("fwhm", 32), num_bits=dg.get("bits", 8),
                                stats_calc_period=dg.get("period", 1), stats_calc_num_samples=dg.get("num", 10000))
    filterbank = V.PolyphaseFilterbank(num_taps=c["taps"], num_branches=c["nb"], window_fn=c.get("window_fn", "hamming"))
    requantizer = V.ComplexQuantizer(target_fwhm=rq.get("fwhm", 32), num_bits=c.get("nbits", 8),
                                     stats_calc_period=rq.get("period", 1), stats_calc_num_samples=rq.get("num", 10000))
    if c.get("element_lists"):
        # the documented alternative to one prototype per element: a list of separate objects per antenna and polarisation
        na = int(getattr(src, "num_antennas", 1))
        npol = int(src.num_pols)
        mk = lambda proto: [[copy.deepcopy(proto) for _ in range(npol)] for _ in range(na)]
        digitizer, filterbank, requantizer = mk(digitizer), mk(filterbank), mk(requantizer)
    be = V.RawVoltageBackend(src, digitizer=digitizer, filterbank=filterbank, requantizer=requantizer,
                             start_chan=c.get("start_chan", 0), num_chans=c["nchans"], block_size=c["block_size"],
                             blocks_per_file=c.get("blocks_per_file", 128), num_subblocks=c.get("num_subblocks", 32))
    return src, be


class Scratch(object):
    def __enter__(self):
        self.d = tempfile.mkdtemp(prefix="svrec_")
        return self.d

    def __exit__(self, *a):
        shutil.rmtree(self.d, ignore_errors=True)


def record(be, stem, c, header_dict=None):
    kw = dict(digitize=c.get("digitize", True), load_template=c.get("load_template", True), verbose=False)
    if header_dict is not None:
        kw["header_dict"] = header_dict
    if c.get("obs_length") is not None:
        kw.update(obs_length=c["obs_length"], length_mode="obs_length")
    else:
        kw.update(num_blocks=c.get("num_blocks"), length_mode=c.get("length_mode", "num_blocks"))
    with quiet():
        be.record(output_file_stem=stem, **kw)


def parse_card(card):
    s = card.decode("latin-1")
    key = s[:8].strip()
    val = s[9:].strip() if len(s) > 9 else ""
    return key, val, s


def parse_raw_bytes(buf):
    """Independent GUPPI RAW reader.  Returns list of blocks: dict(cards=[(key, val, raw80)], hdr_len, pad, data=bytes)
    or raises ValueError on malformed framing."""
    blocks = []
    pos = 0
    n = len(buf)
    while pos < n:
        cards = []
        start = pos
        while True:
            if pos + 80 > n:
                raise ValueError("truncated header at byte %d" % pos)
            card = buf[pos:pos + 80]
            pos += 80
            if card[:3] == b"END" and card[3:].strip() == b"":
                break
            k, v, s = parse_card(card)
            if len(s) < 10 or s[8] != "=":
                raise ValueError("malformed card at byte %d: %r" % (pos - 80, s))
            cards.append((k, v, s))
        d = dict((k, v) for k, v, _ in cards)
        directio = 0
        if "DIRECTIO" in d:
            try:
                directio = int(d["DIRECTIO"].replace("'", "").strip())
            except ValueError:
                directio = 0
        pad = 0
        hl = pos - start
        if directio != 0 and hl % 512 != 0:
            pad = 512 - hl % 512      # relative to the header (== file-relative when BLOCSIZE % 512 == 0)
        pos += pad
        bs = int(d["BLOCSIZE"])
        if pos + bs > n:
            raise ValueError("truncated data block at byte %d (BLOCSIZE %d, %d left)" % (pos, bs, n - pos))
        data = buf[pos:pos + bs]
        blocks.append(dict(cards=cards, hdr=d, hdr_len=pos - pad - start, pad=pad, pad_bytes=buf[pos - pad:pos], data=data, offset=start))
        pos += bs
    return blocks


def list_files(stem):
    return sorted(glob.glob(stem + ".*.raw"))


def decode_block(data, nchan_total, npols, nbits):
    """-> complex array (obsnchan, T, npols), standard layout channel-major / time / pol / re-im"""
    raw = np.frombuffer(data, dtype=np.int8).reshape((nchan_total, -1))
    if nbits == 8:
        T = raw.shape[1] // (2 * npols)
        a = raw.reshape((nchan_total, T, npols, 2)).astype(int)
        return a[..., 0] + 1j * a[..., 1]
    if nbits == 4:
        T = raw.shape[1] // npols
        q = raw.reshape((nchan_total, T, npols)).astype(int)
        u = q & 0xFF
        hi = (u >> 4) & 0xF
        lo = u & 0xF
        hi = np.where(hi >= 8, hi - 16, hi)
        lo = np.where(lo >= 8, lo - 16, lo)
        return hi + 1j * lo
    raise ValueError(nbits)
