"""C03 implementation side: a frame is taken through a history (get_waterfall / copy / slice / dedrift /
intermediate save / reload), then saved as .fil and .h5 and read back three ways: by setigen, by blimpy,
and by the stand-alone helpers of waterfall_utils."""
import sys, json, os, io, contextlib
import numpy as np
import setigen as stg
from setigen import waterfall_utils as WU
from blimpy import Waterfall
import recutil as R


def quiet():
    return contextlib.redirect_stdout(io.StringIO())


def run_case(c):
    out = dict(fails=[], saves=[])
    with R.Scratch() as d:
        fr = stg.Frame(fchans=c["F"], tchans=c["T"], df=c["df"], dt=c["dt"], fch1=c["fch1"], ascending=c["ascending"], t_start=c["t_start"], source_name="SRC_%d" % c["F"], seed=1)
        rng = np.random.default_rng(c["seed"])
        fr.data = (np.arange(c["T"])[:, None] * 1000.0 + np.arange(c["F"])[None, :] + rng.uniform(0, 0.5, (c["T"], c["F"]))).astype(np.float32).astype(float)
        k = 0
        hist = []
        for op in c["ops"]:
            try:
                with quiet():
                    if op[0] == "get_waterfall":
                        fr.get_waterfall()
                    elif op[0] == "copy":
                        fr = fr.copy() if op[1] == "use_copy" else (fr.copy(), fr)[1]
                    elif op[0] == "slice":
                        l = op[1] % fr.fchans; r = min(fr.fchans, l + max(3, op[2] % fr.fchans))
                        if r - l >= 3:
                            fr = fr.get_slice(l, r)
                    elif op[0] == "dedrift":
                        try:
                            g2 = stg.dedrift(fr, drift_rate=op[1] * fr.df / fr.dt)
                        except ValueError:
                            # a rate that would leave no channels is rejected (C17): the history simply does not contain this step
                            hist.append(["skip", int(fr.tchans), int(fr.fchans), fr.waterfall is not None])
                            continue
                        if g2.fchans >= 3:         # blimpy's .h5 reader needs at least 3 channels
                            fr = g2
                    elif op[0] == "retime":
                        # what Cadence.overwrite_times does to its frames: the start time is simply assigned
                        fr.t_start = fr.t_start + op[1]
                    elif op[0] == "modify":
                        if op[1] == "inplace":
                            fr.data[...] += 7.0
                        elif op[1] == "rebind":
                            fr.data = fr.data * 2.0 + 1.0
                        elif op[1] == "rename":
                            fr.source_name = "RENAMED_%d" % len(hist)       # the frame's name is what is written, whatever an earlier Waterfall said
                        elif op[1] == "signal":
                            fr.add_constant_signal(f_start=fr.get_frequency(fr.fchans // 2), drift_rate=0.0, level=5000.0, width=2 * fr.df, f_profile_type="box")
                        else:
                            fr.zero_data()
                            fr.data += np.arange(fr.fchans)[None, :] * 3.0 + np.arange(fr.tchans)[:, None] * 500.0
                    elif op[0] == "save":
                        fn = os.path.join(d, "mid%d.%s" % (k, op[1])); k += 1
                        (fr.save_fil if op[1] == "fil" else fr.save_h5)(fn)
                    elif op[0] == "load":
                        fn = os.path.join(d, "mid%d.%s" % (k, op[1])); k += 1
                        (fr.save_fil if op[1] == "fil" else fr.save_h5)(fn)
                        fr = stg.Frame(waterfall=fn)
                hist.append([op[0], int(fr.tchans), int(fr.fchans), fr.waterfall is not None])
            except SystemExit as ex:
                out["fails"].append(["blimpy-exit", "history op %s made blimpy exit (%r)" % (op, ex)]); return out
            except Exception as ex:
                out["fails"].append(["history-raises", "history op %s raised %s: %s" % (op, type(ex).__name__, str(ex)[:120])]); return out
        out["hist"] = hist
        g = fr
        out["final"] = dict(T=int(g.tchans), F=int(g.fchans), ascending=bool(g.ascending), df=float(g.df), dt=float(g.dt), fch1=float(g.fch1), has_wf=g.waterfall is not None)
        gdata = g.data.astype(np.float32)
        for fmt in c.get("formats", ("fil", "h5")):
            fn = os.path.join(d, "final." + fmt)
            rec = dict(fmt=fmt)
            try:
                with quiet():
                    (g.save_fil if fmt == "fil" else g.save_h5)(fn)
                    h = stg.Frame(waterfall=fn)
            except SystemExit as ex:
                out["fails"].append(["roundtrip-exit", "%s: save/load made blimpy exit (%r) for a frame of shape %s after history %s" % (fmt, ex, g.shape, [o[0] for o in c["ops"]])]); continue
            except Exception as ex:
                out["fails"].append(["roundtrip-raises", "%s: save/load raised %s: %s (frame shape %s, history %s)" % (fmt, type(ex).__name__, str(ex)[:120], g.shape, [o[0] for o in c["ops"]])]); continue
            rec["shape"] = [int(h.tchans), int(h.fchans)]
            where = "%s after history %s" % (fmt, [o[0] for o in c["ops"]])
            if tuple(np.shape(h.data)) != tuple(g.shape):
                out["fails"].append(["roundtrip-shape", "%s: frame of shape %s reads back with data of shape %s" % (where, g.shape, np.shape(h.data))]); out["saves"].append(rec); continue
            if h.shape != g.shape:
                out["fails"].append(["roundtrip-shape", "%s: frame of shape %s reads back as %s" % (where, g.shape, h.shape)]); out["saves"].append(rec); continue
            if not np.array_equal(h.data.astype(np.float32), gdata):
                out["fails"].append(["roundtrip-data", "%s: intensities differ after the round trip (%d pixels)" % (where, int(np.sum(h.data.astype(np.float32) != gdata)))])
            tolf = 1e-9 * max(abs(g.fmax), 1.0)
            if not np.allclose(h.fs, g.fs, rtol=0, atol=tolf) or h.ascending != g.ascending or abs(h.df - g.df) > 1e-9 * g.df or abs(h.dt - g.dt) > 1e-12 * g.dt:
                out["fails"].append(["roundtrip-axis", "%s: frequency axis / resolutions / orientation differ (fs[0] %r vs %r, ascending %s vs %s)" % (where, h.fs[0], g.fs[0], h.ascending, g.ascending)])
            if abs(h.t_start - g.t_start) > 1e-3 or h.source_name != g.source_name:
                out["fails"].append(["roundtrip-meta", "%s: start time / source name %r %r read back as %r %r" % (where, g.t_start, g.source_name, h.t_start, h.source_name)])
            # independent reader
            try:
                with quiet():
                    w = Waterfall(fn)
                wd = np.asarray(w.data)[:, 0, :]
                wf = np.asarray(w.container.populate_freqs()) * 1e6
                order = np.argsort(wf)
                if wd.shape != g.data.shape or not np.array_equal(wd[:, order].astype(np.float32), gdata) or not np.allclose(wf[order], g.fs, rtol=0, atol=tolf):
                    out["fails"].append(["blimpy-sees-other", "%s: blimpy does not see every pixel at the frame's sky frequency (shape %s)" % (where, wd.shape)])
                # helpers
                hf = WU.get_fs(fn); ht = WU.get_ts(fn); hd = WU.get_data(fn)
                rec["helpers"] = [int(len(hf)), int(len(ht)), list(hd.shape)]
                if len(hf) != g.fchans or len(ht) != g.tchans or list(hd.shape) != [g.tchans, g.fchans]:
                    out["fails"].append(["helper-length", "%s: get_fs / get_ts / get_data report %d / %d / %s, the file has %d channels x %d integrations (fch1 %r MHz, foff %r MHz)"
                                         % (where, len(hf), len(ht), list(hd.shape), g.fchans, g.tchans, w.header["fch1"], w.header["foff"])])
                else:
                    if not np.allclose(np.sort(hf) * 1e6, g.fs, rtol=0, atol=tolf) or not np.allclose(ht, g.ts, rtol=0, atol=1e-9 * max(1.0, g.ts[-1])):
                        out["fails"].append(["helper-axis", "%s: helper axes differ from the loaded frame's" % where])
                    if abs(WU.min_freq(fn) * 1e6 - g.fmin) > tolf or abs(WU.max_freq(fn) * 1e6 - g.fmax) > tolf:
                        out["fails"].append(["helper-minmax", "%s: min_freq / max_freq differ from the frame's" % where])
            except SystemExit as ex:
                out["fails"].append(["blimpy-exit", "%s: blimpy exits reading the file (%r)" % (where, ex)])
            # the same path written again with another band of the same shape (same byte size): the helpers must describe what is on disk NOW
            try:
                with quiet():
                    g2 = stg.Frame(fchans=g.fchans, tchans=g.tchans, df=g.df, dt=g.dt, fch1=g.fch1 + 7 * g.df, ascending=g.ascending, t_start=g.t_start, source_name=g.source_name)
                    g2.data = g.data.astype(float) + 1.0
                    (g2.save_fil if fmt == "fil" else g2.save_h5)(fn)
                    h2 = stg.Frame(waterfall=fn)
                    hf2 = WU.get_fs(fn)
                if len(hf2) != h2.fchans or not np.allclose(np.sort(hf2) * 1e6, h2.fs, rtol=0, atol=tolf) or abs(WU.min_freq(fn) * 1e6 - h2.fmin) > tolf or abs(WU.max_freq(fn) * 1e6 - h2.fmax) > tolf:
                    out["fails"].append(["helper-stale", "%s: after the file was rewritten with a band 7 channels higher, get_fs / min_freq / max_freq still give %r .. %r MHz; the file now holds %r .. %r MHz"
                                         % (fmt, float(np.min(hf2)), float(np.max(hf2)), h2.fmin * 1e-6, h2.fmax * 1e-6)])
            except SystemExit:
                pass
            out["saves"].append(rec)
    return out


def main():
    payload = json.load(sys.stdin)
    json.dump([run_case(c) for c in payload["cases"]], open(sys.argv[1], "w"))


if __name__ == "__main__":
    main()
