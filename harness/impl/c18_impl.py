"""Implementation side of the C18 correspondence: runs operation sequences on real
Cadence / OrderedCadence objects and reports, after every operation, the error class,
the ids of returned frames, the member ids and the labels of all pool objects."""
import sys, json
import numpy as np
import setigen as stg
from astropy import units as u

ERR = {TypeError: 1, AttributeError: 2, IndexError: 3, KeyError: 4}


def mk_obj(o):
    if o["kind"] == "frame":
        c = o["cls"]
        # class -> (df, dt, fchans, fmin) ; class 0 is the reference, others differ in exactly one attribute
        df, dt, fchans, fch1 = 2.0, 1.0, 4, 1000.0
        if c == 1: df = 3.0
        elif c == 2: dt = 2.0
        elif c == 3: fchans = 5
        elif c == 4: fch1 = 1016.0
        elif c == 6:
            # a descending frame whose fch1 equals the reference's fch1: same fch1, but another minimum frequency
            return stg.Frame(fchans=fchans, tchans=2 + (o["id"] % 3), df=df, dt=dt, fch1=fch1, ascending=False, t_start=100.0 * o["id"])
        elif c >= 5: df = 2.0 + c
        if o.get("desc"):
            # the same band described with the other orientation flag: fch1 is then the maximum frequency; same class
            return stg.Frame(fchans=fchans, tchans=2 + (o["id"] % 3), df=df, dt=dt, fch1=fch1 + (fchans - 1) * df, ascending=False, t_start=100.0 * o["id"])
        fr = stg.Frame(fchans=fchans, tchans=2 + (o["id"] % 3), df=df, dt=dt, fch1=fch1, ascending=True, t_start=100.0 * o["id"])
        return fr
    k = o["id"] % 4
    return ["not a frame", 3.5, None, np.zeros((2, 4))][k]


def run_case(case):
    pool = {}
    for o in case["pool"]:
        pool[o["id"]] = mk_obj(o)
    ident = {id(v): k for k, v in pool.items()}
    for k, lab in case.get("prelabels", {}).items():
        pool[int(k)].add_metadata({"order_label": lab})
    kw = dict(t_slew=case["t_slew"], t_overwrite=True) if case.get("t_slew") is not None else {}     # the flag only re-times the frames given at construction (none here)
    if case["ordered"]:
        cad = stg.OrderedCadence(order=case["order"], **kw)
    else:
        cad = stg.Cadence(**kw)
    frame_ids = [o["id"] for o in case["pool"] if o["kind"] == "frame"]

    def ids(seq):
        return [ident.get(id(f), -1) for f in seq]

    def labels():
        out = []
        for o in case["pool"]:
            v = pool[o["id"]]
            if o["kind"] == "frame" and "order_label" in v.metadata:
                out.append(ord(v.metadata["order_label"]))
            else:
                out.append(-1)
        return out

    trace = []
    for op in case["ops"]:
        k = op[0]
        ret = []
        err = 0
        extra = {}
        try:
            if k == "insert":
                cad.insert(op[1], pool[op[2]])
            elif k == "append":
                cad.append(pool[op[1]])
            elif k == "extend":
                cad.extend([pool[i] for i in op[1]])
            elif k == "setitem":
                cad[op[1]] = pool[op[2]]
            elif k == "delitem":
                del cad[op[1]]
            elif k == "delslice":
                del cad[op[1]:op[2]]
            elif k == "pop":
                ret = ids([cad.pop(op[1])])
            elif k == "getint":
                ret = ids([cad[op[1]]])
            elif k == "getslice":
                r = cad[op[1]:op[2]]
                extra["cls"] = type(r).__name__
                ret = ids(r.frames)
            elif k == "getidx":
                r = cad[np.array(op[1], dtype=int)] if op[2] else cad[list(op[1])]
                extra["cls"] = type(r).__name__
                ret = ids(r.frames)
            elif k == "setorder":
                cad.set_order(op[1])
            elif k == "bylabel":
                r = cad.by_label(op[1])
                extra["cls"] = type(r).__name__
                ret = ids(r.frames)
            else:
                raise RuntimeError("bad op " + k)
        except (TypeError, AttributeError, IndexError, KeyError) as ex:
            err = ERR[type(ex)]
        except Exception as ex:  # anything else is reported verbatim
            err = 99
            extra["exc"] = repr(ex)
        members = ids(cad.frames)
        agg = None
        if len(cad.frames) > 0:
            agg = dict(tchans=int(cad.tchans), obs_range=float(cad.obs_range),
                       slew=[float(x) for x in cad.slew_times],
                       exp_tchans=int(sum(f.tchans for f in cad.frames)),
                       exp_obs_range=float(cad.frames[-1].t_stop - cad.frames[0].t_start),
                       exp_slew=[float(cad.frames[i].t_start - cad.frames[i - 1].t_stop) for i in range(1, len(cad.frames))])
        trace.append(dict(err=err, ret=ret, members=members, labels=labels(), agg=agg, extra=extra,
                          order=getattr(cad, "order", None)))
    return trace


def main():
    payload = json.load(sys.stdin)
    out = [run_case(c) for c in payload["cases"]]
    json.dump(out, open(sys.argv[1], "w"))


if __name__ == "__main__":
    main()
