"""C16 implementation side: cadences of small frames; injection through Cadence.add_signal compared
frame by frame with single-frame injection at shifted times; time axes compared bit for bit before /
after, also when a callback raises on the k-th frame; overwrite_times / slew_times / consolidate."""
import sys, json
import numpy as np
import setigen as stg


class Boom(Exception):
    pass


def make_cadence(c):
    frames = []
    for k, f in enumerate(c["frames"]):
        fr = stg.Frame(fchans=c["F"], tchans=f["T"], df=c["df"], dt=c["dt"], fch1=c["fch1"], ascending=c["ascending"], t_start=f["t_start"], seed=k)
        if c.get("ts_shift"):
            # a frame may carry a time axis of its own (e.g. sample mid-points): "its time axis afterwards equals what it was before" is about that axis
            fr.ts = fr.ts + c["ts_shift"] * c["dt"]
        frames.append(fr)
    kw = dict(t_slew=c.get("t_slew", 0), t_overwrite=bool(c.get("t_overwrite")))
    if c.get("ordered"):
        cad = stg.OrderedCadence(frames, order=c.get("order", "ABACAD"), **kw)
    else:
        cad = stg.Cadence(frames, **kw)
    return cad


def subset(cad, c):
    if c.get("slice"):
        sl = c["slice"]
        return cad[slice(sl[0], sl[1], sl[2] if len(sl) > 2 else None)]
    if c.get("index"):
        return cad[list(c["index"])]
    if c.get("label"):
        return cad.by_label(c["label"])
    return cad


def sig_args(c, fr0, raise_at=None, offset=None):
    """offset: evaluate path / time profile at t + offset (the property's statement for frame m), on an unshifted frame"""
    s = c["signal"]
    f_start = fr0.get_frequency(s["start_ch"])
    path0 = stg.constant_path(f_start=f_start, drift_rate=s["drift"])
    path = path0 if offset is None else (lambda t: path0(t + offset))
    calls = {"n": 0}
    if s["tprof"] == "sine":
        base = stg.sine_t_profile(period=s["period"], amplitude=1.0, level=3.0)
    else:
        base = stg.constant_t_profile(level=2.0)

    def tprof(t):
        if raise_at is not None and calls["n"] == raise_at:
            calls["n"] += 1
            raise Boom("callback failed on frame %d" % raise_at)
        calls["n"] += 1
        return base(t if offset is None else t + offset)
    kw = dict(path=path, t_profile=tprof, f_profile=stg.box_f_profile(width=s["width"]), bp_profile=stg.constant_bp_profile(level=1),
              integrate_path=s.get("integrate_path", False), integrate_t_profile=s.get("integrate_t", False), doppler_smearing=s.get("smear", False),
              t_subsamples=4, smearing_subsamples=4)
    return kw


def run_case(c):
    out = dict(fails=[])
    cad = make_cadence(c)
    starts_before = [fr.t_start for fr in cad]
    sub = subset(cad, c)
    if len(sub) == 0:
        return dict(fails=[], empty=True)
    if [fr.t_start for fr in cad] != starts_before:
        moved = [(k, fr.t_start - t) for k, (fr, t) in enumerate(zip(cad, starts_before)) if fr.t_start != t]
        out["fails"].append(["subset-moves-start-times", "selecting %s from the cadence moved the start times of its frames: %s" % (
            c.get("slice") or c.get("index") or c.get("label"), moved[:3])])
    ts_before = [fr.ts.copy() for fr in sub]
    ids_before = [id(fr.ts) for fr in sub]
    t0 = sub[0].t_start
    # reference: single-frame injections with the frame's own times shifted by its start offset
    refs = []
    for fr in sub:
        f2 = stg.Frame(fchans=c["F"], tchans=fr.tchans, df=c["df"], dt=c["dt"], fch1=c["fch1"], ascending=c["ascending"], t_start=fr.t_start)
        if c.get("ts_shift"):
            f2.ts = f2.ts + c["ts_shift"] * c["dt"]
        with np.errstate(all="ignore"):
            f2.add_signal(**sig_args(c, sub[0], offset=(fr.t_start - t0)))
        refs.append(f2.data.copy())
    # the same frames may have been injected into before, under other time offsets: alone, or through another selection of the cadence
    # (its tail, whose first frame -- the reference -- is a different one).  What the injection under test adds must not depend on that.
    if c.get("pre") == "tail" and len(cad) >= 2:
        with np.errstate(all="ignore"):
            cad[1:].add_signal(**sig_args(c, cad[1]))
    elif c.get("pre") == "each":
        for fr in cad:
            with np.errstate(all="ignore"):
                fr.add_signal(**sig_args(c, fr))
    base = [fr.data.copy() for fr in sub]
    for m, (fr, tb) in enumerate(zip(sub, ts_before)):
        if not np.array_equal(fr.ts, tb):
            out["fails"].append(["ts-drift", "frame %d: time axis changed by the earlier injection (%s)" % (m, c.get("pre"))])
            break
    for rep in range(c.get("repeat", 1)):
        with np.errstate(all="ignore"):
            sub.add_signal(**sig_args(c, sub[0]))
    for m, (fr, ref, b0) in enumerate(zip(sub, refs, base)):
        if c.get("pre"):
            got = fr.data - b0
            same = np.allclose(got, ref * c.get("repeat", 1), rtol=1e-9, atol=1e-9 * max(1.0, float(np.max(np.abs(fr.data)))))
            if not same:
                o = c["signal"]
                out["fails"].append(["offset-after-earlier-injection", "frame %d, already injected into before (%s): what this injection added differs from single-frame injection at t + %r s "
                                     "(max diff %g; integrate_path=%s integrate_t=%s smear=%s)" % (m, c["pre"], fr.t_start - t0, float(np.max(np.abs(got - ref * c.get("repeat", 1)))),
                                                                                             o.get("integrate_path"), o.get("integrate_t"), o.get("smear"))])
                break
            continue
        if not np.array_equal(fr.data, ref * c.get("repeat", 1)) and not np.allclose(fr.data, ref * c.get("repeat", 1), rtol=1e-9, atol=1e-9):
            o = c["signal"]
            out["fails"].append(["offset", "frame %d: injected data differ from single-frame injection with path and time profile evaluated at t + (t_start - cadence t_start) = t + %r s "
                                 "(max diff %g; integrate_path=%s integrate_t=%s smear=%s)" % (m, fr.t_start - t0, float(np.max(np.abs(fr.data - ref * c.get("repeat", 1)))),
                                                                                         o.get("integrate_path"), o.get("integrate_t"), o.get("smear"))])
            break
    for m, (fr, tb) in enumerate(zip(sub, ts_before)):
        if not np.array_equal(fr.ts, tb):
            out["fails"].append(["ts-drift", "frame %d: time axis changed by %g s after %d injection(s) (start offset %r s)" % (m, float(np.max(np.abs(fr.ts - tb))), c.get("repeat", 1), fr.t_start - t0)])
            break
    # raising callback on the k-th frame, for every k
    for k in range(len(sub)):
        cad2 = make_cadence(c)
        sub2 = subset(cad2, c)
        tb2 = [fr.ts.copy() for fr in sub2]
        raised = False
        try:
            with np.errstate(all="ignore"):
                sub2.add_signal(**sig_args(c, sub2[0], raise_at=k))
        except Boom:
            raised = True
        if not raised:
            out["fails"].append(["raise-swallowed", "the callback's exception on frame %d did not propagate" % k]); break
        bad = [m for m, (fr, tb) in enumerate(zip(sub2, tb2)) if not np.array_equal(fr.ts, tb)]
        if bad:
            m = bad[0]
            out["fails"].append(["ts-after-raise", "callback raised on frame %d: frame %d's time axis is left shifted by %g s" % (k, m, float(np.max(np.abs(sub2[m].ts - tb2[m]))))])
            break
    # overwrite_times / slew_times / consolidate
    if c.get("t_overwrite") and len(cad) > 1:
        sl0 = cad.slew_times
        if not np.allclose(sl0, c["t_slew"], rtol=0, atol=1e-6):
            out["fails"].append(["slew-after-injection", "cadence built with t_overwrite: slew times after selecting / injecting are %s, expected %r" % (sl0.tolist()[:5], c["t_slew"])])
    cad3 = make_cadence(dict(c, t_overwrite=False))
    cad3.t_slew = c["t_slew"]
    cad3.overwrite_times()
    sl = cad3.slew_times
    tol = 1e-6 if max(abs(f["t_start"]) for f in c["frames"]) > 1e6 else 1e-9
    if len(sl) and not np.allclose(sl, c["t_slew"], rtol=0, atol=tol):
        out["fails"].append(["slew", "after overwrite_times the slew times are %s, expected %r" % (sl.tolist()[:4], c["t_slew"])])
    cf = cad3.consolidate()
    want = np.concatenate([fr.data for fr in cad3], axis=0)
    wts = np.concatenate([fr.ts + fr.t_start for fr in cad3])
    if cf.data.shape != want.shape or not np.array_equal(cf.data, want) or not np.array_equal(cf.ts, wts) or cf.tchans != sum(fr.tchans for fr in cad3):
        out["fails"].append(["consolidate", "consolidated frame is not the in-order concatenation with absolute times"])
    out["n"] = len(sub)
    return out


def main():
    payload = json.load(sys.stdin)
    json.dump([run_case(c) for c in payload["cases"]], open(sys.argv[1], "w"))


if __name__ == "__main__":
    main()
