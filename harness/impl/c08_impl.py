"""C08 implementation side: PolyphaseFilterbank objects driven by call lists; compares the output of
every call bit for bit with numpy's FFT applied to the rows the Gallina model predicts, and
evaluates the property directly on the implementation (chunked == one-shot, counts, complex
split, linearity, DFT definition)."""
import sys, json, warnings
import numpy as np
from setigen.voltage import polyphase_filterbank as P

warnings.simplefilter("ignore")


def as_x(call):
    x = np.array(call["x"], dtype=float)
    if call.get("xi") is not None:
        x = x + 1j * np.array(call["xi"], dtype=float)
    # the same (small-integer valued, hence exactly representable) samples handed over in single precision
    if call.get("dtype") == "single":
        x = x.astype(np.complex64 if np.iscomplexobj(x) else np.float32)
    elif call.get("dtype") == "int":
        x = x.astype(int) if not np.iscomplexobj(x) else x
    return x


def run_case(c):
    taps, nb = c["taps"], c["nb"]
    h = np.array(c["h"], dtype=float)
    objs = {}
    res = dict(calls=[], fails=[])

    def get(o):
        if o not in objs:
            p = P.PolyphaseFilterbank(num_taps=taps, num_branches=nb, window_fn=c.get("window_fn", "hamming"))
            if not c.get("real_window"):
                p.window = h.copy()
            objs[o] = p
        return objs[o]

    outs = {}
    streams = {}
    for k, call in enumerate(c["calls"]):
        p = get(call["obj"])
        x = as_x(call)
        out = p.channelize(x, cache=call["cache"])
        rec = dict(shape=list(out.shape))
        if "rows" in call:   # model prediction: front-end rows (exact integers)
            rows = np.array(call["rows"], dtype=float).reshape((-1, nb))
            if call.get("rows_i") is not None:
                rows = rows + 1j * np.array(call["rows_i"], dtype=float).reshape((-1, nb))
            exp = np.fft.fft(rows, nb, axis=1)[:, 0:nb // 2] / nb ** 0.5
            rec["match"] = bool(out.shape == exp.shape and np.array_equal(out, exp))
            if not rec["match"] and out.shape == exp.shape and out.size:
                rec["maxdiff"] = float(np.max(np.abs(out - exp)))
        res["calls"].append(rec)
        if call["cache"]:
            outs.setdefault(call["obj"], []).append(out)
            streams.setdefault(call["obj"], []).append(x)
    # direct oracle: chunked == one-shot on a fresh object, per object
    for o, lst in outs.items():
        p = P.PolyphaseFilterbank(num_taps=taps, num_branches=nb, window_fn=c.get("window_fn", "hamming"))
        if not c.get("real_window"):
            p.window = h.copy()
        whole = np.concatenate(streams[o])
        one = p.channelize(whole, cache=False)
        cat = np.concatenate(lst, axis=0)
        W = len(whole) // (taps * nb)
        if cat.shape != one.shape or not np.array_equal(cat, one):
            res["fails"].append(["chunking", "object %d: chunked output differs from the one-shot call (shapes %s vs %s)" % (o, cat.shape, one.shape)])
        if one.shape != ((W - 1) * taps, nb // 2):
            res["fails"].append(["count", "object %d: %s spectra, expected %s" % (o, one.shape, ((W - 1) * taps, nb // 2))])
        # complex split and linearity
        scale = max(1.0, float(np.max(np.abs(one))) if one.size else 1.0)
        if np.iscomplexobj(whole):
            p2 = P.PolyphaseFilterbank(num_taps=taps, num_branches=nb, window_fn=c.get("window_fn", "hamming"))
            if not c.get("real_window"): p2.window = h.copy()
            a = p2.channelize(whole.real.copy(), cache=False); b = p2.channelize(whole.imag.copy(), cache=False)
            if not np.allclose(one, a + 1j * b, rtol=0, atol=1e-9 * scale):
                res["fails"].append(["complex-split", "object %d: channelize(re+i*im) != channelize(re) + i*channelize(im), max diff %g"
                                     % (o, float(np.max(np.abs(one - (a + 1j * b)))))])
        else:
            rng = np.random.default_rng(c.get("seed", 0))
            y = rng.integers(-50, 50, len(whole)).astype(float)
            p2 = P.PolyphaseFilterbank(num_taps=taps, num_branches=nb, window_fn=c.get("window_fn", "hamming"))
            if not c.get("real_window"): p2.window = h.copy()
            lin = p2.channelize(2.0 * whole - 3.0 * y, cache=False)
            yy = p2.channelize(y, cache=False)
            sc = max(1.0, float(np.max(np.abs(lin))) if lin.size else 1.0)
            if not np.allclose(lin, 2.0 * one - 3.0 * yy, rtol=0, atol=1e-9 * sc):
                res["fails"].append(["linear", "object %d: channelize is not linear" % o])
        # DFT definition (numeric, O(n^2))
        if one.size and not np.iscomplexobj(whole):
            hh = p.window.reshape((taps, nb))
            xs = whole[:W * taps * nb].reshape((W * taps, nb))
            n = min(one.shape[0], 3)
            for t in range(n):
                row = np.sum(xs[t:t + taps] * hh, axis=0)
                kk = np.arange(nb // 2)
                bb = np.arange(nb)
                ref = (np.exp(-2j * np.pi * np.outer(kk, bb) / nb) @ row) / np.sqrt(nb)
                if not np.allclose(one[t], ref, rtol=0, atol=1e-9 * scale):
                    res["fails"].append(["definition", "object %d spectrum %d differs from the FIR+DFT definition by %g" % (o, t, float(np.max(np.abs(one[t] - ref))))])
                    break
    # window functions: several same-shaped objects with different windows live in one process; each must use its own
    if c.get("window_order"):
        import scipy.signal
        objs = [(wf, P.PolyphaseFilterbank(num_taps=taps, num_branches=nb, window_fn=wf)) for wf in c["window_order"]]
        rngw = np.random.default_rng(c.get("seed", 0))
        xw = rngw.integers(-50, 50, 3 * taps * nb).astype(float)
        for wf, pw in objs:
            with np.errstate(all="ignore"):
                ref = scipy.signal.firwin(taps * nb, cutoff=1.0 / nb, window=wf, scale=True) * (taps * nb)
            if not np.all(np.isfinite(ref)):
                continue        # degenerate design (e.g. a 2-point hann window is all zero): the window is undefined, nothing to compare
            if pw.window.shape != ref.shape or not np.allclose(pw.window, ref, rtol=0, atol=1e-12 * (1 + float(np.max(np.abs(ref))))):
                res["fails"].append(["window-fn", "a %dx%d filterbank built with window_fn=%r (after %s) does not carry that window's coefficients (max diff %g)"
                                     % (taps, nb, wf, [w for w, _ in objs], float(np.max(np.abs(pw.window - ref))) if pw.window.shape == ref.shape else -1)])
                break
            one = pw.channelize(xw, cache=False)
            hh = ref.reshape((taps, nb)); xs = xw.reshape((3 * taps, nb))
            row = np.sum(xs[0:taps] * hh, axis=0)
            want = (np.exp(-2j * np.pi * np.outer(np.arange(nb // 2), np.arange(nb)) / nb) @ row) / np.sqrt(nb)
            if not np.allclose(one[0], want, rtol=0, atol=1e-9 * max(1.0, float(np.max(np.abs(want))))):
                res["fails"].append(["window-fn", "spectrum 0 of a %dx%d filterbank with window_fn=%r is not the DFT of the sum weighted by that window" % (taps, nb, wf)])
                break
            v2 = np.asarray(P.get_pfb_voltages(xw, taps, nb, window_fn=wf))[:, :nb // 2]      # rfft: also returns the Nyquist channel
            if v2.shape != one.shape or not np.allclose(v2, one, rtol=0, atol=1e-9 * max(1.0, float(np.max(np.abs(one))))):
                res["fails"].append(["window-fn", "get_pfb_voltages(window_fn=%r) differs from the filterbank object's output" % (wf,)])
                break
    # pfb_frontend on the first call's chunk against the model rows for that chunk alone
    if c.get("front_rows") is not None:
        call = c["calls"][0]
        x = np.array(call["x"], dtype=float)
        fr = P.pfb_frontend(x, h, taps, nb)
        exp = np.array(c["front_rows"], dtype=float).reshape((-1, nb))
        res["front_match"] = bool(fr.shape == exp.shape and np.array_equal(fr, exp))
    return res


def run_long(c):
    """a very long stream (several million samples) handed over in ONE call, against the same stream in two calls and against the definition at
    a few spectra: implementation only (the exact model is not evaluated at this size)"""
    import setigen.voltage as V
    taps, nb, W = c["taps"], c["nb"], c["windows"]
    win = taps * nb
    rng = np.random.default_rng(c["seed"])
    x = rng.integers(-99, 100, size=W * win).astype(float)
    one = V.PolyphaseFilterbank(num_taps=taps, num_branches=nb, window_fn=c.get("window_fn", "hamming"))
    two = V.PolyphaseFilterbank(num_taps=taps, num_branches=nb, window_fn=c.get("window_fn", "hamming"))
    a = np.asarray(one.channelize(x, cache=True))
    cut = (W // 2) * win
    b = np.concatenate([np.asarray(two.channelize(x[:cut], cache=True)), np.asarray(two.channelize(x[cut:], cache=True))])
    fails = []
    want_n = (W - 1) * taps
    if a.shape[0] != want_n or b.shape[0] != want_n:
        fails.append(["spectra-count", "%d windows of %d taps x %d branches (%d samples) in one call give %d spectra, in two calls %d; every hop of the stream but the last window's gives %d"
                      % (W, taps, nb, len(x), a.shape[0], b.shape[0], want_n)])
    elif not np.array_equal(a, b):
        bad = np.nonzero(np.any(a != b, axis=1))[0]
        fails.append(["chunking", "one call of %d samples and the same stream in two calls differ from spectrum %d on (%d spectra differ)" % (len(x), int(bad[0]), len(bad))])
    if not fails:
        h = np.asarray(one.window, dtype=float)
        for n in [0, 1, want_n // 2, want_n // 2 + 1, want_n - 1] + [int(v) for v in rng.integers(0, want_n, 6)]:
            seg = x[n * nb:n * nb + win] * h
            ref = np.fft.fft(seg.reshape(taps, nb).sum(axis=0))[:nb // 2] / nb ** 0.5
            if not np.allclose(a[n], ref, rtol=1e-9, atol=1e-9 * max(1.0, float(np.max(np.abs(ref))))):
                fails.append(["definition", "spectrum %d of the long one-call stream is not the windowed, branch-summed DFT of the samples from %d on" % (n, n * nb)]); break
    return dict(fails=fails)


def main():
    payload = json.load(sys.stdin)
    if payload.get("mode") == "long":
        json.dump([run_long(c) for c in payload["cases"]], open(sys.argv[1], "w"))
        return
    json.dump([run_case(c) for c in payload["cases"]], open(sys.argv[1], "w"))


if __name__ == "__main__":
    main()
