"""C09 implementation side.
mode "kernel": quantize_real with supplied statistics on given doubles (hex) -> ints.
mode "hist":   RealQuantizer / ComplexQuantizer call histories; per call reports which earlier
               call's leading samples equal the cached statistics, whether the output equals the
               affine formula evaluated (by numpy, independently of setigen) with those statistics,
               range / monotonicity / NaN checks."""
import sys, json
import numpy as np
from setigen.voltage import quantization as Q


def fh(x):
    return float.fromhex(x)


def kernel(c):
    xs = np.array([fh(x) for x in c["xs"]])
    out = Q.quantize_real(xs, target_mean=fh(c["tm"]), target_std=fh(c["ts"]), num_bits=c["b"],
                          data_mean=fh(c["dm"]), data_std=fh(c["ds"]))
    return [int(v) for v in out]


def make_data(spec):
    rng = np.random.default_rng(spec["seed"])
    n = spec["n"]
    k = spec["dist"]
    if k == "normal":
        return rng.normal(spec["mu"], spec["sigma"], n)
    if k == "const":
        return np.full(n, spec["mu"])
    if k == "uniform":
        return rng.uniform(spec["mu"] - spec["sigma"], spec["mu"] + spec["sigma"], n)
    if k == "halfint":
        return rng.integers(-40, 40, n) + 0.5
    raise ValueError(k)


def formula(x, tm, ts, b, mean, std):
    f = 0 if std == 0 else ts / std
    y = np.around(f * (x - mean) + tm)
    y = np.clip(y, -2 ** (b - 1), 2 ** (b - 1) - 1)
    return y.astype(int)


def stats_of(x, num):
    n = min(num, len(x))
    return float(np.mean(x[:n])), float(np.std(x[:n]))


def stats_match(x, num, cm, cs):
    """cached (mean, deviation) are those of x's leading samples; for constant data both the
    raw round-off deviation and an exact 0 count as 'the deviation of these samples'"""
    m, sd = stats_of(x, num)
    n = min(num, len(x))
    const = n > 0 and np.max(x[:n]) == np.min(x[:n])
    return m == cm and (sd == cs or (const and cs == 0.0))


def hist(c):
    b = c["b"]; tm = c["tm"]; fwhm = c["fwhm"]; per = c["period"]; num = c["num"]
    cplx = c["complex"]
    cls = Q.ComplexQuantizer if cplx else Q.RealQuantizer
    q = cls(target_mean=tm, target_fwhm=fwhm, num_bits=b, stats_calc_period=per, stats_calc_num_samples=num)
    ts = fwhm / (2 * np.sqrt(2 * np.log(2)))
    calls = []   # per quantize call: dict parts -> data
    out = []
    with np.errstate(all="ignore"):
        for op in c["ops"]:
            if op[0] == "reset":
                q._reset_cache()
                out.append(dict(op="reset"))
                continue
            spec = op[1]
            custom = op[2]
            re = make_data(spec)
            parts = [re]
            if cplx:
                im = make_data(dict(spec, seed=spec["seed"] + 7919, mu=spec["mu"] * 0.5 + 1.0))
                parts.append(im)
                v = re + 1j * im
                r = q.quantize(v, custom_stds=custom) if custom is not None else q.quantize(v)
                outs = [np.real(r).astype(int), np.imag(r).astype(int)]
                caches = [q.quantizer_r.stats_cache, q.quantizer_i.stats_cache]
            else:
                r = q.quantize(re, custom_std=custom) if custom is not None else q.quantize(re)
                outs = [r]
                caches = [q.stats_cache]
            calls.append(parts)
            rec = dict(op="q", parts=[])
            for pi, (x, o, cache) in enumerate(zip(parts, outs, caches)):
                cm, cs = float(cache[0]), float(cache[1])
                # which call's prefix statistics are cached?  (latest first)
                src = [k for k in range(len(calls)) if stats_match(calls[k][pi], num, cm, cs)]
                if custom is None:
                    ds = cs
                elif isinstance(custom, list):
                    ds = custom[pi] if cplx else custom
                else:
                    ds = custom
                exp = formula(x, tm, ts, b, cm, ds)
                order = np.argsort(x, kind="stable")
                mono = bool(np.all(np.diff(np.asarray(o)[order]) >= 0)) if (ts >= 0 and ds >= 0) else True
                zero_var = bool(np.max(x[:min(num, len(x))]) == np.min(x[:min(num, len(x))]))
                rec["parts"].append(dict(
                    src=src, formula_ok=bool(np.array_equal(np.asarray(o), exp)),
                    in_range=bool(np.all(np.asarray(o) >= -2 ** (b - 1)) and np.all(np.asarray(o) <= 2 ** (b - 1) - 1)),
                    mono=mono, finite=bool(np.all(np.isfinite(np.asarray(o, dtype=float)))),
                    is_int=bool(np.issubdtype(np.asarray(o).dtype, np.integer)),
                    zero_var=zero_var,
                    values=sorted(set(int(t) for t in np.asarray(o).tolist()))[:6],
                    cache=[cm, cs], n_first_diff=int(np.sum(np.asarray(o) != exp))))
            out.append(rec)
    return out


def func(c):
    """the stand-alone functions and the alias: quantize_real estimating its own statistics, quantize_complex (real and imaginary
    parts independently, each with its own estimate), RealQuantizer.digitize == quantize"""
    b = c["b"]; tm = c["tm"]; num = c["num"]
    ts = c["fwhm"] / (2 * np.sqrt(2 * np.log(2)))
    re = make_data(c["spec"])
    im = make_data(dict(c["spec"], seed=c["spec"]["seed"] + 7919, mu=c["spec"]["mu"] * 0.5 + 1.0, sigma=c["spec"]["sigma"] * 3.0))
    out = dict(fails=[])

    def expect(x):
        m, sd = stats_of(x, num)
        n = min(num, len(x))
        if n > 0 and np.max(x[:n]) == np.min(x[:n]):
            sd = 0.0
        return formula(x, tm, ts, b, m, sd)
    with np.errstate(all="ignore"):
        if c["via"] == "quantize_real":
            got = Q.quantize_real(re, target_mean=tm, target_std=ts, num_bits=b, stats_calc_num_samples=num)
            if not np.array_equal(np.asarray(got), expect(re)):
                out["fails"].append(["function-formula", "quantize_real without statistics: %d samples differ from clip(round(ts/std*(x-mean)+tm)) with the statistics of the leading %d samples"
                                     % (int(np.sum(np.asarray(got) != expect(re))), num)])
        elif c["via"] == "quantize_complex":
            got = Q.quantize_complex(re + 1j * im, target_mean=tm, target_std=ts, num_bits=b, stats_calc_num_samples=num)
            gr, gi = np.real(got).astype(int), np.imag(got).astype(int)
            if not np.array_equal(gr, expect(re)) or not np.array_equal(gi, expect(im)):
                out["fails"].append(["function-formula", "quantize_complex: real part %d / imaginary part %d samples differ from the independent quantisation of that part with its own statistics"
                                     % (int(np.sum(gr != expect(re))), int(np.sum(gi != expect(im))))])
        else:
            mk = lambda: Q.RealQuantizer(target_mean=tm, target_fwhm=c["fwhm"], num_bits=b, stats_calc_period=1, stats_calc_num_samples=num)
            a = mk().digitize(re); q = mk().quantize(re)
            if not np.array_equal(np.asarray(a), np.asarray(q)) or not np.array_equal(np.asarray(a), expect(re)):
                out["fails"].append(["function-formula", "RealQuantizer.digitize differs from quantize / from the formula (%d samples)" % int(np.sum(np.asarray(a) != expect(re)))])
    return out


def main():
    payload = json.load(sys.stdin)
    if payload["mode"] == "kernel":
        res = [kernel(c) for c in payload["cases"]]
    elif payload["mode"] == "func":
        res = [func(c) for c in payload["cases"]]
    else:
        res = [hist(c) for c in payload["cases"]]
    json.dump(res, open(sys.argv[1], "w"))


if __name__ == "__main__":
    main()
