"""C05 implementation side: builds frames through every construction route and reports axes, conversions
and derived quantities at probe positions (doubles as hex) plus whole-axis checks computed here."""
import sys, json
import numpy as np
import setigen as stg
from astropy import units as u


def fh(x): return float.fromhex(x)
def hx(x): return float(x).hex()


def build(c, ascending=None, fch1=None):
    asc = c["ascending"] if ascending is None else ascending
    if c.get("flag_kind") == "numpy":
        asc = np.bool_(asc)             # what `foff > 0` on a numpy header value gives
    elif c.get("flag_kind") == "int":
        asc = int(asc)
    f1 = fh(c["fch1"]) if fch1 is None else fch1
    r = c["route"]
    F, T = c["F"], c["T"]
    df, dt = fh(c["df"]), fh(c["dt"])
    if c.get("neg_df"):
        df = -df        # the channel width given with the filterbank sign convention (foff of a descending file): the grid is that of |df|
    if r == "sizes":
        return stg.Frame(fchans=F, tchans=T, df=df, dt=dt, fch1=f1, ascending=asc, t_start=100.0)
    if r == "units":
        return stg.Frame(fchans=F * u.pixel, tchans=T * u.pixel, df=df * u.Hz, dt=dt * u.s, fch1=f1 * u.Hz, ascending=asc, t_start=100.0)
    if r == "units_scaled":
        return stg.Frame(fchans=F, tchans=T, df=(df / 1e3) * u.kHz, dt=dt * u.s, fch1=(f1 / 1e6) * u.MHz, ascending=asc, t_start=100.0)
    if r == "shape":
        return stg.Frame(shape=(T, F), df=df, dt=dt, fch1=f1, ascending=asc, t_start=100.0)
    if r == "data":
        return stg.Frame(data=np.zeros((T, F)), df=df, dt=dt, fch1=f1, ascending=asc, t_start=100.0)
    if r == "from_data":
        return stg.Frame.from_data(df=df, dt=dt, fch1=f1, ascending=asc, data=np.zeros((T, F)))
    if r == "backend":
        b = c["backend"]
        if b.get("with_data"):
            import io, contextlib
            with contextlib.redirect_stdout(io.StringIO()):
                return stg.Frame.from_backend_params(data=np.zeros((T, F)), obs_length=fh(b["obs_length"]), sample_rate=fh(b["sample_rate"]), num_branches=b["nb"],
                                                     fftlength=b["fftlength"], int_factor=b["int_factor"], fch1=f1, ascending=asc)
        return stg.Frame.from_backend_params(fchans=F, obs_length=fh(b["obs_length"]), sample_rate=fh(b["sample_rate"]), num_branches=b["nb"],
                                             fftlength=b["fftlength"], int_factor=b["int_factor"], fch1=f1, ascending=asc)
    raise ValueError(r)


def run_case(c):
    fr = build(c)
    F, T = fr.fchans, fr.tchans
    out = dict(F=int(F), T=int(T), ascending=bool(fr.ascending), df=hx(fr.df), dt=hx(fr.dt), fch1=hx(fr.fch1),
               fmin=hx(fr.fmin), fmax=hx(fr.fmax), fmid=hx(fr.fmid), shape=list(fr.shape), data_shape=list(fr.data.shape),
               len_fs=int(len(fr.fs)), len_ts=int(len(fr.ts)), len_ts_ext=int(len(fr.ts_ext)), ts_ext_last=hx(fr.ts_ext[-1]),
               t_stop=hx(fr.t_stop), t_start=hx(fr.t_start), obs_length=hx(fr.obs_length), unit_drift_rate=hx(fr.unit_drift_rate), chi2_df=int(fr.chi2_df))
    pj = [j for j in c["probes_f"] if 0 <= j < F]
    pi = [i for i in c["probes_t"] if 0 <= i < T]
    out["pj"] = pj; out["pi"] = pi
    out["fs"] = [hx(fr.fs[j]) for j in pj]
    out["ts"] = [hx(fr.ts[i]) for i in pi]
    out["get_frequency"] = [hx(fr.get_frequency(j)) for j in pj]
    out["roundtrip"] = [int(fr.get_index(fr.get_frequency(j))) for j in pj]
    out["index_of_fs"] = [int(fr.get_index(fr.fs[j])) for j in pj]
    out["get_index"] = [int(fr.get_index(fh(f))) for f in c["freqs"]]
    # the same frequencies handed over with units (Hz, kHz, MHz, GHz) and as one array
    out["get_index_units"] = {}
    for name, un, sc in (("Hz", u.Hz, 1.0), ("kHz", u.kHz, 1e3), ("MHz", u.MHz, 1e6), ("GHz", u.GHz, 1e9)):
        try:
            out["get_index_units"][name] = [int(fr.get_index((fh(f) / sc) * un)) for f in c["freqs"]]
        except Exception as ex:
            out["get_index_units"][name] = "raised %s" % type(ex).__name__
    try:
        out["get_index_array"] = [int(x) for x in np.asarray(fr.get_index(np.array([fh(f) for f in c["freqs"]])))]
    except Exception as ex:
        out["get_index_array"] = "raised %s" % type(ex).__name__
    # ts_ext is the frame's time axis plus one further step, whatever origin that axis currently has (a cadence shifts it)
    ts_keep = fr.ts
    ok_ext = True
    for off in (0.0, 123.5, fr.tchans * fr.dt * 3):
        fr.ts = ts_keep + off
        ext = np.asarray(fr.ts_ext)
        if ext.shape != (T + 1,) or not np.array_equal(ext[:-1], fr.ts) or abs(ext[-1] - (fr.ts[-1] + fr.dt)) > 1e-9 * max(1.0, abs(ext[-1])):
            ok_ext = False
    fr.ts = ts_keep
    out["ts_ext_follows_ts"] = ok_ext
    # the start time may be reassigned after construction (Cadence.overwrite_times does): quantities derived from it must follow
    t_keep = fr.t_start
    bad_rt = None
    for off in (1000.0, -42.5, 3 * fr.tchans * fr.dt):
        fr.t_start = t_keep + off
        want = fr.t_start + fr.tchans * fr.dt
        if abs(fr.t_stop - want) > 1e-9 * max(1.0, abs(want)) or abs(fr.obs_length - fr.tchans * fr.dt) > 1e-9 * max(1.0, fr.tchans * fr.dt):
            bad_rt = "t_start moved by %r s: t_stop %r, expected t_start + tchans*dt = %r (obs_length %r)" % (off, float(fr.t_stop), float(want), float(fr.obs_length))
            break
    fr.t_start = t_keep
    out["retime"] = bad_rt
    out["drift_rate"] = hx(fr.get_drift_rate(pj[0], pj[-1])) if pj else None
    # whole-axis facts
    out["increasing"] = bool(np.all(np.diff(fr.fs) > 0)) if F > 1 else True
    j = np.arange(F)
    out["max_dev"] = hx(float(np.max(np.abs(fr.fs - (fr.fmin + j * fr.df))))) if F else hx(0.0)
    out["roundtrip_all"] = bool(np.array_equal(fr.get_index(fr.get_frequency(j)), j))
    out["index_of_fs_all"] = bool(np.array_equal(fr.get_index(fr.fs), j))
    out["ts_max_dev"] = hx(float(np.max(np.abs(fr.ts - np.arange(T) * fr.dt)))) if (T and len(fr.ts) == T) else hx(0.0 if not T else float("inf"))
    out["fs0_is_fmin"] = bool(fr.fs[0] == fr.fmin); out["fsN_is_fmax"] = bool(fr.fs[-1] == fr.fmax)
    # opposite-orientation twin over the same band
    if fr.ascending:
        tw = build(c, ascending=False, fch1=float(fr.fmax))
    else:
        tw = build(c, ascending=True, fch1=float(fr.fmin))
    out["twin_fs_dev"] = hx(float(np.max(np.abs(tw.fs - fr.fs)))) if tw.fs.shape == fr.fs.shape else None
    out["twin_ts_equal"] = bool(np.array_equal(tw.ts, fr.ts))
    if F >= 8 and T >= 2 and len(fr.ts) == T and len(fr.fs) == F:
        f0 = fr.get_frequency(F // 3) + 0.25 * fr.df
        a = fr.add_constant_signal(f_start=f0, drift_rate=0.5 * fr.df / fr.dt, level=1.0, width=2.5 * fr.df, f_profile_type="box")
        b = tw.add_constant_signal(f_start=f0, drift_rate=0.5 * fr.df / fr.dt, level=1.0, width=2.5 * fr.df, f_profile_type="box")
        out["twin_inject_equal"] = bool(a.shape == b.shape and np.array_equal(a, b))
        out["twin_inject_ndiff"] = int(np.sum(a != b)) if a.shape == b.shape else -1
    return out


def safe(c):
    try:
        return run_case(c)
    except Exception as ex:
        import traceback
        return dict(crash="%s: %s" % (type(ex).__name__, str(ex)[:200]), where=traceback.format_exc()[-400:])


def main():
    payload = json.load(sys.stdin)
    json.dump([safe(c) for c in payload["cases"]], open(sys.argv[1], "w"))


if __name__ == "__main__":
    main()
