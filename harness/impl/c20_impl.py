"""C20 implementation side.  mode attrs: constructor-derived sizes, get_num_blocks and the
stand-alone helpers for (possibly large) configurations, nothing is recorded.
mode record: small recordings with the antenna's get_samples wrapped to log every request."""
import sys, json, os
import numpy as np
import recutil as R


def fh(x): return float.fromhex(x)


def attrs(c):
    import setigen.voltage as V
    import setigen as stg
    from setigen.voltage import backend as B, level_utils as L
    cc = dict(c, sample_rate=fh(c["sample_rate"]), noise=[])
    out = {}
    try:
        src, be = R.build_backend(cc)
    except AssertionError:
        return dict(admitted=False)
    out["admitted"] = True
    out["bps"] = int(be.bytes_per_sample)
    out["spb"] = int(be.samples_per_block)
    out["tbin"] = float(be.tbin).hex()
    out["tpb"] = float(be.time_per_block).hex()
    out["num_blocks"] = [int(be.get_num_blocks(fh(o))) for o in c["obs_list"]]
    out["h_total_nb"] = [int(B.get_total_obs_num_samples(num_blocks=n, length_mode="num_blocks", num_antennas=c["nants"],
                                                          sample_rate=cc["sample_rate"], block_size=c["block_size"], num_bits=c["nbits"],
                                                          num_pols=c["num_pols"], num_branches=c["nb"], num_chans=c["nchans"]))
                         for n in c["n_list"]]
    out["h_total_obs"] = [int(B.get_total_obs_num_samples(obs_length=fh(o), length_mode="obs_length", num_antennas=c["nants"],
                                                           sample_rate=cc["sample_rate"], block_size=c["block_size"], num_bits=c["nbits"],
                                                           num_pols=c["num_pols"], num_branches=c["nb"], num_chans=c["nchans"]))
                          for o in c["obs_list"]]
    hb = c["helper"]
    bs = B.get_block_size(num_antennas=c["nants"], tchans_per_block=hb["tpb"], num_bits=c["nbits"], num_pols=c["num_pols"],
                          num_branches=c["nb"], num_chans=c["nchans"], fftlength=hb["fftlength"], int_factor=hb["int_factor"])
    out["h_block_size"] = int(bs)
    try:
        _, be2 = R.build_backend(dict(cc, block_size=int(bs)))
        out["h_spb"] = int(be2.samples_per_block)
    except AssertionError:
        out["h_spb"] = None
    udr = L.get_unit_drift_rate(be, hb["fftlength"], hb["int_factor"])
    pf = stg.frame.params_from_backend(obs_length=fh(c["obs_list"][0]), sample_rate=cc["sample_rate"], num_branches=c["nb"],
                                       fftlength=hb["fftlength"], int_factor=hb["int_factor"])
    out["udr"] = float(udr).hex()
    out["pf"] = dict(tchans=int(pf["tchans"]), df=float(pf["df"]).hex(), dt=float(pf["dt"]).hex())
    import io, contextlib
    with contextlib.redirect_stdout(io.StringIO()):
        ffr = stg.Frame.from_backend_params(fchans=4, obs_length=fh(c["obs_list"][0]), sample_rate=cc["sample_rate"], num_branches=c["nb"],
                                            fftlength=hb["fftlength"], int_factor=hb["int_factor"], fch1=6e9) if int(pf["tchans"]) >= 1 else None
    out["frame_from_backend"] = None if ffr is None else dict(tchans=int(ffr.tchans), df=float(ffr.df).hex(), dt=float(ffr.dt).hex())
    return out


def record(c):
    cc = dict(c, sample_rate=fh(c["sample_rate"]))
    if c.get("obs_length") is not None:
        cc["obs_length"] = fh(c["obs_length"])
    import contextlib
    stack = contextlib.ExitStack()
    input_blocks = None
    if c.get("input_blocks"):
        # a backend built on existing RAW data: first make that data (same geometry), then from_data
        import setigen.voltage as V
        din = stack.enter_context(R.Scratch())
        stem_in = os.path.join(din, "in")
        cin = dict(cc, num_blocks=c["input_blocks"], obs_length=None, length_mode="num_blocks", blocks_per_file=c.get("in_bpf", 2), seed=c["seed"] + 1)
        _, be_in = R.build_backend(cin)
        R.record(be_in, stem_in, cin, header_dict={})
        src = R.build_source(cc)
        be = V.RawVoltageBackend.from_data(stem_in, src, digitizer=V.RealQuantizer(target_fwhm=32, num_bits=8),
                                           filterbank=V.PolyphaseFilterbank(num_taps=c["taps"], num_branches=c["nb"]),
                                           start_chan=c["start_chan"], num_subblocks=c["num_subblocks"])
        input_blocks = int(be.input_num_blocks)
    else:
        src, be = R.build_backend(cc)
    log = []
    orig = src.get_samples

    def wrapped(n):
        log.append(int(n))
        return orig(n)
    src.get_samples = wrapped
    t0 = float(src.t_start)
    out = dict()
    with R.Scratch() as d:
        stem = os.path.join(d, "rec")
        try:
            R.record(be, stem, cc, header_dict={} if c.get("own_dict", True) else None)
        except Exception as ex:
            stack.close()
            return dict(error=repr(ex), error_type=type(ex).__name__)
        files = R.list_files(stem)
        out["files"] = [os.path.basename(f) for f in files]
        blocks = []
        for f in files:
            bl = R.parse_raw_bytes(open(f, "rb").read())
            blocks.append([dict(PKTIDX=b["hdr"].get("PKTIDX"), PKTSTART=b["hdr"].get("PKTSTART"), PKTSTOP=b["hdr"].get("PKTSTOP"),
                                SCANLEN=b["hdr"].get("SCANLEN"), BLOCSIZE=b["hdr"].get("BLOCSIZE"), TBIN=b["hdr"].get("TBIN"),
                                ndata=len(b["data"])) for b in bl])
        out["blocks"] = blocks
    out["requests"] = log
    out["num_blocks"] = int(be.num_blocks)
    out["obs_length"] = float(be.obs_length).hex()
    out["total_obs_num_samples"] = int(be.total_obs_num_samples)
    out["spb"] = int(be.samples_per_block)
    out["tpb"] = float(be.time_per_block).hex()
    out["tbin"] = float(be.tbin).hex()
    out["clock_adv"] = float(src.t_start - t0).hex()
    out["dt"] = float(src.dt).hex()
    streams = []
    ants = src.antennas if hasattr(src, "antennas") else [src]
    for a in ants:
        for s in a.streams:
            streams.append(float(s.t_start - t0).hex())
    out["stream_clock_adv"] = streams
    out["nsub_after"] = int(be.num_subblocks)
    out["input_blocks"] = input_blocks
    if c.get("obs_length") is not None:
        out["requested_by_obs"] = int(be.get_num_blocks(cc["obs_length"]))
    stack.close()
    return out


def main():
    payload = json.load(sys.stdin)
    f = attrs if payload["mode"] == "attrs" else record
    json.dump([f(c) for c in payload["cases"]], open(sys.argv[1], "w"))


if __name__ == "__main__":
    main()
