"""C01: the shipped path / profile families against independent closed forms (numpy/scipy evaluate the
same special functions; agreement to 1e-9 relative), with random parameters."""
import sys, json
import numpy as np
import setigen as stg
from scipy.special import wofz


def close(a, b, tol=1e-9):
    a = np.asarray(a, dtype=float); b = np.asarray(b, dtype=float)
    return a.shape == b.shape and np.allclose(a, b, rtol=tol, atol=tol * max(1.0, float(np.max(np.abs(b))) if b.size else 1.0))


def run_case(c):
    rng = np.random.default_rng(c["seed"])
    fails = []
    fc = rng.uniform(1e9, 8e9)
    w = 10 ** rng.uniform(-1, 3)
    f = fc + rng.uniform(-4, 4, size=40) * w
    x = f - fc
    fac = 2 * np.sqrt(2 * np.log(2))
    sig = w / fac
    tests = {
        "box": (stg.box_f_profile(w)(f, fc), (np.abs(x) < w / 2).astype(float)),
        "gaussian": (stg.gaussian_f_profile(w)(f, fc), np.exp(-x ** 2 / (2 * sig ** 2))),
        "multiple_gaussian": (stg.multiple_gaussian_f_profile(w)(f, fc), np.exp(-(x + 100) ** 2 / (2 * sig ** 2)) / 4 + np.exp(-x ** 2 / (2 * sig ** 2)) + np.exp(-(x - 100) ** 2 / (2 * sig ** 2)) / 4),
        "lorentzian": (stg.lorentzian_f_profile(w)(f, fc), 1 / (1 + (x / (w / 2)) ** 2)),
        "sinc2": (stg.sinc2_f_profile(w)(f, fc), np.where(np.abs(x) < w / 2, np.sinc(x / (w / 2)), 0) ** 2),
        "sinc2_untrunc": (stg.sinc2_f_profile(w, trunc=False)(f, fc), np.sinc(x / (w / 2)) ** 2),
        "sinc2_fwhm": (stg.sinc2_f_profile(w, width_mode="fwhm")(np.array([w / 2, -w / 2, 0.0]), 0.0), np.array([0.5, 0.5, 1.0])),
    }
    gw, lw = w, w * rng.uniform(0.2, 3)
    s2 = gw / fac; g2 = lw / 2
    vo = np.real(wofz((x + 1j * g2) / s2 / np.sqrt(2))) / np.real(wofz((0 + 1j * g2) / s2 / np.sqrt(2)))
    tests["voigt"] = (stg.voigt_f_profile(gw, lw)(f, fc), vo)
    # half-maximum points of the tailed profiles
    # (evaluated around 0 so that f - f_center is exactly +-w/2)
    tests["gaussian_fwhm"] = (stg.gaussian_f_profile(w)(np.array([-w / 2, w / 2]), 0.0), np.array([0.5, 0.5]))
    tests["lorentzian_fwhm"] = (stg.lorentzian_f_profile(w)(np.array([-w / 2, w / 2]), 0.0), np.array([0.5, 0.5]))
    t = np.arange(12) * rng.uniform(0.5, 20)
    dr = rng.uniform(-5, 5); per = rng.uniform(5, 100); amp = rng.uniform(1, 50); ph = rng.uniform(0, 10)
    tests["constant_path"] = (stg.constant_path(fc, dr)(t), fc + dr * t)
    tests["squared_path"] = (stg.squared_path(fc, dr)(t), fc + 0.5 * dr * t ** 2)
    tests["sine_path"] = (stg.sine_path(fc, dr, per, amp)(t), fc + amp * np.sin(2 * np.pi * t / per) + dr * t)
    tests["constant_t"] = (stg.constant_t_profile(3.5)(t), np.full(t.shape, 3.5))
    tests["sine_t"] = (stg.sine_t_profile(per, phase=ph, amplitude=amp, level=7.0)(t), amp * np.sin(2 * np.pi * (t + ph) / per) + 7.0)
    tests["constant_bp"] = (np.asarray(stg.constant_bp_profile(2.0)(f)) * np.ones_like(f), np.full(f.shape, 2.0))
    for name, (got, want) in tests.items():
        tol = 1e-6 if name in ("sinc2_fwhm",) else 1e-9
        if not close(got, want, tol):
            fails.append(["family-" + name, "%s differs from its closed form (max diff %g) for width %g" % (name, float(np.max(np.abs(np.asarray(got, float) - want))), w)])
    # RFI path: envelope + determinism
    spread = w
    p = stg.simple_rfi_path(fc, dr, spread, spread_type="uniform", rfi_type="stationary", seed=c["seed"])(t)
    if np.any(np.abs(p - (fc + dr * t)) > spread / 2 + 1e-9):
        fails.append(["family-rfi", "uniform RFI path leaves its +-spread/2 envelope"])
    p2 = stg.simple_rfi_path(fc, dr, spread, spread_type="uniform", rfi_type="stationary", seed=c["seed"])(t)
    if not np.array_equal(p, p2):
        fails.append(["family-rfi", "RFI path is not reproducible from its seed"])
    # periodic gaussian pulses without jitter, direction up: maxima level+amplitude at (k + 1/4)*period - phase
    per2 = 10.0; tt = np.array([(k + 0.25) * per2 - 1.0 for k in range(0, 4)])
    pg = stg.periodic_gaussian_t_profile(pulse_width=1.0, period=per2, phase=1.0, pulse_offset_width=0, pulse_direction="up", pnum=3, amplitude=2.0, level=1.0, min_level=0, seed=c["seed"])(tt)
    if not np.allclose(pg, 3.0, atol=1e-6):
        fails.append(["family-periodic-gaussian", "pulse peaks %s, expected level+amplitude=3 at the documented centres" % pg.tolist()])
    mid = stg.periodic_gaussian_t_profile(pulse_width=1.0, period=per2, phase=1.0, pulse_offset_width=0, pulse_direction="up", pnum=3, amplitude=2.0, level=1.0, min_level=0, seed=c["seed"])(tt + per2 / 2)
    if not np.allclose(mid, 1.0, atol=1e-6):
        fails.append(["family-periodic-gaussian", "between pulses the profile is %s, expected the level 1" % mid.tolist()])
    # the same for an even number of tracked pulses and for downward pulses (level - amplitude at the centres, clipped at min_level)
    for pnum, direction, want_peak in ((2, "up", 3.0), (4, "up", 3.0), (3, "down", 0.0), (2, "down", 0.0)):
        kw = dict(pulse_width=1.0, period=per2, phase=1.0, pulse_offset_width=0, pulse_direction=direction, pnum=pnum, amplitude=2.0, level=1.0, min_level=0, seed=c["seed"])
        pk = stg.periodic_gaussian_t_profile(**kw)(tt)
        md = stg.periodic_gaussian_t_profile(**kw)(tt + per2 / 2)
        if not np.allclose(pk, want_peak, atol=1e-6) or not np.allclose(md, 1.0, atol=1e-6):
            fails.append(["family-periodic-gaussian", "pnum=%d, direction %s: values at the pulse centres %s (expected %g), between pulses %s (expected the level 1)"
                          % (pnum, direction, pk.tolist(), want_peak, md.tolist())])
    return dict(fails=fails)


def main():
    payload = json.load(sys.stdin)
    json.dump([run_case(c) for c in payload["cases"]], open(sys.argv[1], "w"))


if __name__ == "__main__":
    main()
