"""C01 / C06 (and C13, C16 helpers) implementation side: builds a frame, applies a list of add_signal
calls described in JSON, and reports after every call the returned array, the data, and the frame
state; plus before/after checks evaluated here with numpy."""
import copy
import sys, json, pickle
import numpy as np
import setigen as stg


def poly(coef):
    def f(x):
        x = np.asarray(x, dtype=float)
        y = np.zeros_like(x)
        for k, c in enumerate(coef):
            y = y + c * x ** k
        return y
    return f


def comp(spec):
    """-> the object handed to add_signal"""
    if spec is None:
        return None
    k = spec["kind"]
    if k == "poly":
        if spec.get("scalar_return"):
            v = float(spec["coef"][0])
            return lambda t: v              # a callable may answer with a scalar: it stands for that constant at every time
        return poly(spec["coef"])
    if k == "arr":
        return np.array(spec["vals"], dtype=float)
    if k == "list":
        return list(spec["vals"])
    if k == "scal":
        return spec["v"]
    raise ValueError(k)


def fprof(spec):
    k = spec["kind"]
    if k == "box":
        w = spec["w"]
        return lambda f, fc: (np.abs(f - fc) <= w / 2).astype(float)
    if k == "tri":
        w = spec["w"]
        return lambda f, fc: np.maximum(0.0, 1.0 - np.abs(f - fc) / w)
    if k == "quad":
        a = spec["a"]
        return lambda f, fc: 1.0 / (1.0 + a * (f - fc) ** 2)
    if k == "step":
        # not a function of f - fc alone: a line that is halved below a fixed sky frequency f0
        a = spec["a"]; f0 = spec["f0"]
        return lambda f, fc: (1.0 / (1.0 + a * (f - fc) ** 2)) * np.where(f >= f0, 1.0, 0.5)
    raise ValueError(k)


def make_frame(c):
    fr = stg.Frame(fchans=c["F"], tchans=c["T"], df=c["df"], dt=c["dt"], fch1=c["fch1"], ascending=c["ascending"], seed=c.get("seed", 1), t_start=1000.0)
    if c.get("ts_shift"):
        fr.ts = fr.ts + c["ts_shift"] * c["dt"]          # the frame's own time axis, shifted as a cadence does
    pr = c.get("prior", "zero")
    if pr == "ramp":
        fr.data = np.arange(c["T"] * c["F"], dtype=float).reshape((c["T"], c["F"])) % 17
    elif pr == "noise":
        fr.add_noise(x_mean=10.0, noise_type="chi2")
    elif pr == "float32":
        fr.add_noise(x_mean=10.0, noise_type="chi2")
        fr.data = fr.data.astype(np.float32)
    return fr


def snap(fr):
    return dict(attrs=sorted(vars(fr)), ts_ext=np.asarray(fr.ts_ext).copy(), fs=fr.fs.copy(), ts=fr.ts.copy(), shape=fr.shape, noise=(fr.noise_mean, fr.noise_std), meta=pickle.dumps(fr.metadata),
                rng=pickle.dumps(fr.rng.bit_generator.state), df=fr.df, dt=fr.dt, fch1=fr.fch1, fmin=fr.fmin, fmax=fr.fmax, dtype=str(fr.data.dtype))


def same_state(a, b):
    bad = []
    for k in ("fs", "ts", "ts_ext"):
        if not np.array_equal(a[k], b[k]):
            bad.append(k)
    for k in ("shape", "noise", "meta", "rng", "df", "dt", "fch1", "fmin", "fmax", "attrs"):
        if a[k] != b[k]:
            bad.append(k)
    return bad


def call(fr, s):
    o = s.get("opts", {})
    kw = dict(bounding_f_range=(tuple(s["brange"]) if s.get("brange") is not None else None),
              integrate_path=o.get("integrate_path", False), integrate_t_profile=o.get("integrate_t", False),
              integrate_f_profile=o.get("integrate_f", False), doppler_smearing=o.get("smear", False),
              t_subsamples=o.get("t_sub", 10), f_subsamples=o.get("f_sub", 10), smearing_subsamples=o.get("n_smear", 10))
    args = [comp(s["path"]), comp(s["tprof"]), comp(s.get("bp"))]
    keep = [copy.deepcopy(a) if isinstance(a, (np.ndarray, list)) else None for a in args]
    ret = fr.add_signal(args[0], args[1], fprof(s["fprof"]), args[2], **kw)
    # what the caller hands in (path / time profile / bandpass as arrays or lists) is an input: injecting must not write to it
    for name, a, k0 in zip(("path", "t_profile", "bp_profile"), args, keep):
        if k0 is not None and not (np.array_equal(np.asarray(a), np.asarray(k0)) and type(a) is type(k0)):
            raise ArgumentMutated("add_signal changed the %s array handed to it (by up to %g)" % (name, float(np.max(np.abs(np.asarray(a, dtype=float) - np.asarray(k0, dtype=float))))))
    return ret


class ArgumentMutated(Exception):
    pass


def hexm(a):
    return [[float(x).hex() for x in row] for row in np.asarray(a, dtype=float)]


def run_case(c):
    fr = make_frame(c)
    out = dict(steps=[], fails=[])
    rets = []
    kept = []
    before_all = fr.data.astype(float).copy()
    for k, s in enumerate(c["signals"]):
        st0 = snap(fr)
        before = fr.data.copy()
        try:
            with np.errstate(all="ignore"):
                ret = call(fr, s)
        except Exception as ex:
            out["steps"].append(dict(err=type(ex).__name__, msg=str(ex)[:200]))
            if not np.array_equal(before, fr.data):
                out["fails"].append(["raise-changes-data", "signal %d raised %s but changed the frame's data" % (k, type(ex).__name__)])
            continue
        after = fr.data
        st1 = snap(fr)
        rec = dict(err=None, ret=hexm(ret), data=hexm(after))
        out["steps"].append(rec)
        # what an earlier injection returned stays what it was: a later injection must neither hand out the same array again nor write into it
        for j, (r0, c0) in enumerate(kept):
            if r0 is ret or np.shares_memory(r0, ret) or not np.array_equal(r0, c0):
                out["fails"].append(["return-aliased", "the array returned by injection %d %s injection %d" % (j, "is the array returned by" if (r0 is ret or np.shares_memory(r0, ret)) else "was changed by", k)])
                break
        kept.append((ret, ret.copy()))
        rets.append(ret)
        # ---- additive / state / outside-untouched, evaluated directly
        # (float32 data stays float32: the sum is rounded to the data's own precision)
        if ret.shape != before.shape or not np.array_equal(after, (before.astype(float) + ret).astype(before.dtype)):
            out["fails"].append(["not-additive", "signal %d: data after != data before + returned array" % k])
        bad = same_state(st0, st1)
        if bad:
            out["fails"].append(["state-changed", "signal %d changed the frame's %s" % (k, bad)])
        if s.get("brange") is not None:
            b0, b1 = s["brange"]
            fsx = fr.fs
            half = fr.df / 2
            # columns that are certainly outside the requested range (half a channel of slack for rounding to channels)
            outside = (fsx < min(b0, b1) - half) | (fsx > max(b0, b1) + half) if b0 <= b1 else np.ones(len(fsx), dtype=bool)
            if outside.any():
                if not np.array_equal(after[:, outside], before[:, outside]):
                    cols = np.where(outside & np.any(after != before, axis=0))[0].tolist()
                    out["fails"].append(["outside-touched", "signal %d: bounding range %s..%s changed columns %s outside it (band %s..%s)" % (k, b0, b1, cols[:6], fsx[0], fsx[-1])])
                if np.any(ret[:, outside] != 0):
                    out["fails"].append(["outside-nonzero", "signal %d: returned array non-zero outside the bounding range" % k])
            # bounded result = unbounded result restricted to the range (non-integrated-f case compared exactly)
            fr2 = make_frame(dict(c, prior="zero"))
            try:
                with np.errstate(all="ignore"):
                    full = call(fr2, dict(s, brange=None, bp=(s.get("bp") if (s.get("bp") or {}).get("kind") not in ("arr", "list") else None)))
                if (s.get("bp") or {}).get("kind") not in ("arr", "list"):
                    inside = np.any(ret != 0, axis=0) | ~outside
                    core = ((fsx >= b0 + half) & (fsx <= b1 - half)) if b0 <= b1 else np.zeros(len(fsx), dtype=bool)
                    o = s.get("opts", {})
                    tol = 0 if not o.get("integrate_f") else 1e-9 * max(1.0, float(np.max(np.abs(full))))
                    if core.any() and not np.allclose(ret[:, core], full[:, core], rtol=0, atol=tol):
                        out["fails"].append(["bounded-differs", "signal %d: bounded result differs from the unbounded result inside the range" % k])
            except Exception:
                pass
    if len(rets) > 1:
        total = fr.data.astype(float) - before_all
        ssum = np.zeros_like(total)
        for s in c["signals"]:
            f0 = make_frame(dict(c, prior="zero"))
            try:
                with np.errstate(all="ignore"):
                    ssum = ssum + call(f0, s)
            except Exception:
                pass
        scale = max(1.0, float(np.max(np.abs(before_all))), float(np.max(np.abs(ssum))))
        eps = 1e-5 if fr.data.dtype == np.float32 else 1e-9
        if not np.allclose(total, ssum, rtol=0, atol=eps * scale):
            out["fails"].append(["superpose", "successive injections changed the data by something other than the sum of the separately computed signals"])
        # order independence
        fr3 = make_frame(c)
        for s in reversed(c["signals"]):
            try:
                with np.errstate(all="ignore"):
                    call(fr3, s)
            except Exception:
                pass
        if not np.allclose(fr3.data, fr.data, rtol=0, atol=eps * scale):
            out["fails"].append(["order", "injecting the same signals in reverse order gives different data"])
    # the extended time axis follows the frame's time axis also after injections (a cadence re-assigns ts around every injection)
    keep = fr.ts
    fr.ts = keep + 7.0 * fr.dt
    ext = np.asarray(fr.ts_ext)
    if ext.shape != (len(fr.ts) + 1,) or not np.array_equal(ext[:-1], fr.ts):
        out["fails"].append(["state-changed", "after the injections ts_ext no longer follows the frame's time axis (a stale copy is kept)"])
    fr.ts = keep
    out["fmin"] = float(fr.fmin).hex()
    out["prior"] = hexm(before_all)
    return out


def main():
    payload = json.load(sys.stdin)
    json.dump([run_case(c) for c in payload["cases"]], open(sys.argv[1], "w"))


if __name__ == "__main__":
    main()
