"""C02 implementation side.
mode writes: records with numpy.empty replaced (inside collect_data_block only) by a logging view, so
             every indexed assignment into the block array is reported (row list, column list).
mode bytes : records one configuration under several (num_subblocks, blocks_per_file) choices, decodes
             the files with an independent reader and compares every sample with a one-shot reference
             pipeline (numpy only) built from an identically seeded source."""
import sys, json, os
import numpy as np
import recutil as R

LOG = []


class LogArray(np.ndarray):
    def __setitem__(self, key, val):
        if isinstance(key, tuple) and len(key) == 2:
            r, c = key
            LOG.append([np.asarray(r).ravel().tolist(), np.asarray(c).ravel().tolist()])
        np.ndarray.__setitem__(self, key, val)


def writes(c):
    global LOG
    src, be = R.build_backend(c)
    real_empty = np.empty
    orig = be.collect_data_block
    blocks = []

    def patched(*a, **k):
        global LOG
        LOG = []
        np.empty = lambda shape, *aa, **kk: real_empty(shape, *aa, **kk).view(LogArray)
        try:
            out = orig(*a, **k)
        finally:
            np.empty = real_empty
        blocks.append(LOG)
        return np.asarray(out)
    be.collect_data_block = patched
    with R.Scratch() as d:
        R.record(be, os.path.join(d, "w"), c, header_dict={})
    return dict(blocks=blocks)


def est(x, num):
    n = min(num, len(x))
    m = np.mean(x[:n]); s = np.std(x[:n])
    if n > 0 and np.max(x[:n]) == np.min(x[:n]):
        s = 0.0
    return m, s


def qz(x, tm, ts, b, m, s):
    f = 0 if s == 0 else ts / s
    return np.clip(np.around(f * (x - m) + tm), -2 ** (b - 1), 2 ** (b - 1) - 1).astype(int)


def reference(c, nblocks):
    """-> complex int array (nants*nchans, nblocks*spb, npols): requantised PFB output of the digitised stream"""
    import setigen.voltage as V
    src = R.build_source(c)
    taps, nb = c["taps"], c["nb"]
    bps = 2 * c["num_pols"] * c["nbits"] // 8
    spb = c["block_size"] // (c["nants"] * c["nchans"] * bps)
    total = nblocks * spb * nb + taps * nb
    v_all = src.get_samples(total)
    from setigen.voltage import polyphase_filterbank as PF
    h = PF.get_pfb_window(taps, nb, c.get("window_fn", "hamming")).reshape((taps, nb))
    dg = c.get("dig", {}); rq = c.get("req", {})
    dts = dg.get("fwhm", 32) / (2 * np.sqrt(2 * np.log(2)))
    rts = rq.get("fwhm", 32) / (2 * np.sqrt(2 * np.log(2)))
    out = np.zeros((c["nants"] * c["nchans"], nblocks * spb, c["num_pols"]), dtype=complex)
    for a in range(c["nants"]):
        for p in range(c["num_pols"]):
            x = np.asarray(v_all[a][p])
            if c.get("digitize", True):
                m, s = est(x, dg.get("num", 10000))
                x = qz(x, 0, dts, dg.get("bits", 8), m, s)
            W = total // (taps * nb)
            xp = x[:W * taps * nb].reshape((W * taps, nb))
            rows = np.zeros(((W - 1) * taps, nb), dtype=complex if np.iscomplexobj(x) else float)
            for t in range((W - 1) * taps):
                rows[t, :] = np.sum(xp[t:t + taps, :] * h, axis=0)
            X = np.fft.fft(rows, nb, axis=1)[:, c["start_chan"]:c["start_chan"] + c["nchans"]] / nb ** 0.5
            mr, sr_ = est(X.real, rq.get("num", 10000)); mi, si = est(X.imag, rq.get("num", 10000))
            qr = qz(X.real, 0, rts, c["nbits"], mr, sr_); qi = qz(X.imag, 0, rts, c["nbits"], mi, si)
            out[a * c["nchans"]:(a + 1) * c["nchans"], :, p] = (qr + 1j * qi).T
    return out


def bytes_case(c):
    res = dict(variants=[], fails=[])
    nblocks = c["num_blocks"]
    bps = 2 * c["num_pols"] * c["nbits"] // 8
    spb = c["block_size"] // (c["nants"] * c["nchans"] * bps)
    ref = reference(c, nblocks)
    datas = []
    for (nsub, bpf) in c["variants"]:
        cc = dict(c, num_subblocks=nsub, blocks_per_file=bpf)
        src, be = R.build_backend(cc)
        with R.Scratch() as d:
            stem = os.path.join(d, "r")
            R.record(be, stem, cc, header_dict={})
            blocks = []
            for f in R.list_files(stem):
                blocks.extend(R.parse_raw_bytes(open(f, "rb").read()))
        data = b"".join(b["data"] for b in blocks)
        datas.append(data)
        if len(blocks) != nblocks:
            res["fails"].append(["block-count", "nsub=%d bpf=%d: %d blocks on disk, expected %d" % (nsub, bpf, len(blocks), nblocks)])
            continue
        dec = np.concatenate([R.decode_block(b["data"], c["nants"] * c["nchans"], c["num_pols"], c["nbits"]) for b in blocks], axis=1)
        ok = dec.shape == ref.shape and np.array_equal(dec, ref)
        v = dict(nsub=nsub, bpf=bpf, equal_ref=bool(ok))
        if not ok and dec.shape == ref.shape:
            bad = np.argwhere(dec != ref)
            v["ndiff"] = int(len(bad)); v["first"] = [int(t) for t in bad[0]]
            v["spectra"] = [int(bad[:, 1].min()), int(bad[:, 1].max())]
            res["fails"].append(["reference", "nsub=%d bpf=%d: %d of %d samples differ from the reference pipeline; first (row, time, pol)=%s, affected spectra %d..%d (block length %d)"
                                 % (nsub, bpf, len(bad), dec.size, v["first"], v["spectra"][0], v["spectra"][1], spb)])
        elif not ok:
            res["fails"].append(["reference", "nsub=%d bpf=%d: decoded shape %s, reference %s" % (nsub, bpf, dec.shape, ref.shape)])
        res["variants"].append(v)
    for k in range(1, len(datas)):
        if datas[k] != datas[0]:
            res["fails"].append(["partition", "recorded bytes differ between (nsub,bpf)=%s and %s" % (c["variants"][0], c["variants"][k])])
            break
    return res


def env_check():
    rng = np.random.default_rng(3)
    a = rng.standard_normal((12, 16))
    whole = np.fft.fft(a, 16, axis=1)
    parts = np.concatenate([np.fft.fft(a[:5], 16, axis=1), np.fft.fft(a[5:6], 16, axis=1), np.fft.fft(a[6:], 16, axis=1)])
    return bool(np.array_equal(whole, parts))


def main():
    payload = json.load(sys.stdin)
    f = writes if payload["mode"] == "writes" else bytes_case
    json.dump(dict(env_ok=env_check(), results=[f(c) for c in payload["cases"]]), open(sys.argv[1], "w"))


if __name__ == "__main__":
    main()
