"""C10 implementation side: DataStream / Antenna driven by op lists.  Reports every request's
samples; given the model's description of each request (clock, n, first draw index per noise
source) rebuilds the expected voltages with numpy from a clone of the stream's generator and
compares bit for bit (dyadic sample rates) or within tolerance (realistic rates).  Also the direct
oracle: the same ops with consecutive requests merged, on an identically built object."""
import sys, json, copy
import numpy as np
import setigen.voltage as V


def pk_raw(c, p):
    """probe kind of polarisation stream p (the y stream may carry a different custom source from x)"""
    return c["probe"] if p == 0 else c.get("probe_y", c["probe"])


def pk(c, p):
    """... as far as the expected voltages go: a table-backed complex source delivers the same values as the computed one"""
    k = pk_raw(c, p)
    return "complex" if k == "table" else k


TABLE_LEN = 24000


class TableSource(object):
    """a complex custom source backed by a persistent waveform table indexed by sample number; it hands out VIEWS of its table,
    as a precomputed-waveform source naturally does.  What it hands out is an input: the stream may add it in, not write to it."""
    def __init__(self, sr):
        self.sr = sr
        self.table = 1j * (np.arange(TABLE_LEN) / sr)
        self.snapshot = self.table.copy()

    def __call__(self, ts):
        i0 = int(round(float(ts[0]) * self.sr))
        return self.table[i0:i0 + len(ts)]


def build(c):
    sr = c["sr"]
    kw = dict(sample_rate=sr, fch1=c["fch1"], ascending=c["ascending"], t_start=c["t0"] / sr, seed=c["seed"])
    if c["antenna"]:
        obj = V.Antenna(num_pols=c["pols"], **kw)
        streams = obj.streams
    else:
        obj = V.DataStream(**kw)
        streams = [obj]
    for si, s in enumerate(streams):
        for (m, sd) in c["noise"]:
            s.add_noise(v_mean=m, v_std=sd)
        for ch in c["chirps"]:
            s.add_constant_signal(f_start=ch["f_start"], drift_rate=ch["drift"], level=ch["level"], phase=ch["phase"])
        if pk_raw(c, si) == "table":
            src = TableSource(sr)
            s.add_signal(src)
            s._verif_table = src
        elif pk(c, si) == "complex":
            s.add_signal(lambda ts: 1j * ts)
        elif pk(c, si) == "real":
            s.add_signal(lambda ts: ts * 0.0 + 0.25)
    return obj, streams


def apply(obj, streams, c, ops):
    outs = []
    for op in ops:
        k = op[0]
        if k == "get":
            v = obj.get_samples(op[1])
            if c["antenna"]:
                outs.append([np.array(v[0][p]) for p in range(c["pols"])])
            else:
                outs.append([np.array(v)])
        elif k == "set_time":
            obj.set_time(op[1] / c["sr"])
        elif k == "add_time":
            obj.add_time(op[1] / c["sr"])
        elif k == "reset_start":
            if c["antenna"]:
                obj.reset_start()
            else:
                obj.add_time(0)
        elif k == "update_noise":
            for s in streams:
                s.update_noise(stats_calc_num_samples=op[1])
    return outs


def merged(ops):
    out = []
    for op in ops:
        if op[0] == "get" and out and out[-1][0] == "get":
            out[-1] = ["get", out[-1][1] + op[1]]
        else:
            out.append(list(op))
    return out


def chirp_ref(c, ts):
    v = np.zeros(len(ts))
    outs = []
    for ch in c["chirps"]:
        ph = 2 * np.pi * ((ch["f_start"] - c["fch1"]) * ts + 0.5 * ch["drift"] * ts ** 2)
        if not c["ascending"]:
            ph = -ph
        outs.append(ch["level"] * np.cos(ph + ch["phase"]))
    return outs


def run_case(c):
    res = dict(fails=[], mism=[])
    sr = c["sr"]
    dyadic = c["dyadic"]
    obj, streams = build(c)
    clones = [copy.deepcopy(s.rng) for s in streams]
    with np.errstate(all="ignore"):
        outs = apply(obj, streams, c, c["ops"])
    # --- clocks
    exp_clock = c["model_clock"]
    clocks = [float(s.t_start) for s in streams] + ([float(obj.t_start)] if c["antenna"] else [])
    for t in clocks:
        ok = (t == exp_clock / sr) if dyadic else abs(t - exp_clock / sr) <= 1e-9 * max(1.0, abs(exp_clock / sr))
        if not ok:
            res["fails"].append(["clock", "clock %r, expected %r" % (t, exp_clock / sr)])
            break
    if c["antenna"] and len(set(clocks)) != 1 and dyadic:
        res["fails"].append(["antenna-clock", "antenna clock and stream clocks differ: %s" % clocks])
    # --- per request against the model's description
    reqs = c["model_reqs"]      # list of [clock, n, [first draw per noise source]]
    total_draws = max([f + n for (_, n, fs) in reqs for f in fs] + [0])
    # update_noise probes also consume draws; clone enough
    budget = total_draws + sum(op[1] for op in c["ops"] if op[0] == "update_noise") * max(1, len(c["noise"])) + 8
    draws = [cl.standard_normal(budget) for cl in clones]
    if len(outs) != len(reqs):
        res["mism"].append("number of requests: impl %d model %d" % (len(outs), len(reqs)))
    for gi, (out, (clk, n, firsts)) in enumerate(zip(outs, reqs)):
        ts = (clk + np.arange(n)) / sr
        for p, v in enumerate(out):
            if len(v) != n:
                res["mism"].append("request %d: length %d, model %d" % (gi, len(v), n)); continue
            exp = np.zeros(n)
            for (m, sd), f in zip(c["noise"], firsts):
                exp = exp + (m + sd * draws[p][f:f + n])
            for chv in chirp_ref(c, ts):
                exp = exp + chv
            if pk(c, p) == "complex":
                got_ts = np.imag(v)
                if dyadic:
                    if not np.array_equal(got_ts, ts):
                        res["mism"].append("request %d pol %d: evaluation times differ from (clock+k)/rate (first %r vs %r)" % (gi, p, got_ts[:2].tolist(), ts[:2].tolist()))
                elif not np.allclose(got_ts, ts, rtol=0, atol=1e-9 * max(1.0, abs(ts[-1]))):
                    res["mism"].append("request %d pol %d: evaluation times off by %g" % (gi, p, float(np.max(np.abs(got_ts - ts)))))
                got = np.real(v)
            else:
                if np.iscomplexobj(v) and pk(c, p) != "complex" and np.any(np.imag(v) != 0):
                    res["mism"].append("request %d pol %d: imaginary part on a stream without a complex source" % (gi, p))
                got = np.real(v)
                if pk(c, p) == "real":
                    exp = exp + 0.25
            if dyadic and not c["chirps"]:
                ok = np.array_equal(got, exp)
            elif dyadic:
                ok = np.allclose(got, exp, rtol=0, atol=1e-9 * (1 + sum(abs(ch["level"]) for ch in c["chirps"])))
            else:
                # realistic rates: chirp phase is sensitive to 1e-16-level time error times f ~ 1e9; noise must still match closely
                ok = np.allclose(got, exp, rtol=0, atol=1e-3 * (1 + sum(abs(ch["level"]) for ch in c["chirps"]))) if c["chirps"] else np.allclose(got, exp, rtol=0, atol=1e-12)
            if not ok:
                res["mism"].append("request %d pol %d: voltages differ from the model-described sum (max diff %g)" % (gi, p, float(np.max(np.abs(got - exp)))))
    # --- direct oracle: what a custom source hands to the stream is summed in, not written to
    for p, st in enumerate(streams):
        src = getattr(st, "_verif_table", None)
        if src is not None and not np.array_equal(src.table, src.snapshot):
            bad = np.nonzero(src.table != src.snapshot)[0]
            res["fails"].append(["custom-source-mutated", "pol %d: get_samples wrote into the array its complex custom source returned (a view of the source's waveform table): "
                                 "%d table entries changed, first at sample %d by %r" % (p, len(bad), int(bad[0]), complex(src.table[bad[0]] - src.snapshot[bad[0]]))])
            break
    # --- direct oracle: a complex custom source is summed in on its own stream, whatever the other polarisation carries
    for gi, out in enumerate(outs):
        for p, v in enumerate(out):
            if pk(c, p) == "complex":
                if not np.iscomplexobj(v) or (len(v) > 1 and not np.any(np.imag(v) != 0)):       # the source returns 1j*ts: non-zero for all but one instant
                    res["fails"].append(["custom-source-dropped", "request %d pol %d: the complex custom source of this stream is missing from the antenna's output (dtype %s)" % (gi, p, np.asarray(v).dtype)])
                    break
        else:
            continue
        break
    # --- direct oracle for the signal formula: without noise, each sample is the sum of level*cos(+-2pi((f_start-fch1)t + drift t^2/2) + phase)
    #     at the very times the stream handed to its sources (observed through the complex probe)
    if c["chirps"] and not c["noise"] and c["probe"] == "complex" and pk(c, 1) == "complex":
        tol = 1e-6 * (1 + sum(abs(ch["level"]) for ch in c["chirps"]))
        for gi, out in enumerate(outs):
            for p, v in enumerate(out):
                tsv = np.imag(v)
                want = np.zeros(len(tsv))
                for chv in chirp_ref(c, tsv):
                    want = want + chv
                if not np.allclose(np.real(v), want, rtol=0, atol=tol):
                    res["fails"].append(["chirp-formula", "request %d pol %d (%s band): constant-drift signal differs from level*cos(%s2*pi*((f_start-fch1)*t + drift*t^2/2) + phase) by %g; signals %s"
                                         % (gi, p, "ascending" if c["ascending"] else "descending", "" if c["ascending"] else "-", float(np.max(np.abs(np.real(v) - want))), c["chirps"])])
                    break
            else:
                continue
            break
    # --- direct oracle: merged requests on an identical object
    obj2, streams2 = build(c)
    with np.errstate(all="ignore"):
        outs2 = apply(obj2, streams2, c, merged(c["ops"]))
    cat1 = [np.concatenate([o[p] for o in outs]) if outs else np.zeros(0) for p in range(len(streams))]
    cat2 = [np.concatenate([o[p] for o in outs2]) if outs2 else np.zeros(0) for p in range(len(streams))]
    for p in range(len(streams)):
        a, b = cat1[p], cat2[p]
        if a.shape != b.shape:
            res["fails"].append(["concat-length", "chunked total %d samples, merged %d" % (len(a), len(b))]); continue
        if pk(c, p) == "complex":
            ta, tb = np.imag(a), np.imag(b)
            okt = np.array_equal(ta, tb) if dyadic else np.allclose(ta, tb, rtol=0, atol=1e-9 * max(1.0, float(np.max(np.abs(tb))) if len(tb) else 1.0))
            if not okt:
                res["fails"].append(["concat-times", "pol %d: chunked requests evaluate samples at different times than one request (max %g s)" % (p, float(np.max(np.abs(ta - tb))))])
                continue
        ra, rb = np.real(a), np.real(b)
        if dyadic and not c["chirps"]:
            okv = np.array_equal(ra, rb)
        else:
            okv = np.allclose(ra, rb, rtol=0, atol=(1e-9 if dyadic else 1e-3) * (1 + sum(abs(ch["level"]) for ch in c["chirps"])))
        if not okv:
            key = "two-noise-sources-chunking" if len(c["noise"]) >= 2 else "concat-values"
            res["fails"].append([key, "pol %d: concatenated chunked voltages differ from the single request (max diff %g, %d noise sources)" % (p, float(np.max(np.abs(ra - rb))), len(c["noise"]))])
    if c["antenna"] and c["pols"] == 2 and outs and dyadic and c["probe"] == "complex" and pk(c, 1) == "complex":
        if not np.array_equal(np.imag(outs[0][0]), np.imag(outs[0][1])):
            res["fails"].append(["antenna-stack", "x and y polarisations are not on the same timeline"])
    return res


def run_frac(c):
    """times that are not whole numbers of samples (eighths of a sample at a dyadic rate: exact in doubles): "setting or adding time moves the
    clock to exactly the requested instant", tracked here in eighths and read back through the complex probe (imaginary part = evaluation time)"""
    from fractions import Fraction
    sr = c["sr"]
    kw = dict(sample_rate=sr, fch1=0.0, ascending=True, t_start=c["t0_8"] / 8.0 / sr, seed=1)
    if c["antenna"]:
        obj = V.Antenna(num_pols=2, **kw); streams = obj.streams
    else:
        obj = V.DataStream(**kw); streams = [obj]
    for s in streams:
        s.add_signal(lambda ts: 1j * ts)
    # a custom source registered k times on a stream is summed in k times (the same function object each time)
    dup = c.get("dup", 0)
    half = lambda ts: ts * 0.0 + 0.5
    for s in streams:
        for _ in range(dup):
            s.add_signal(half)
    clock = Fraction(c["t0_8"], 8)
    fails = []
    for k, op in enumerate(c["ops"]):
        if op[0] == "get":
            v = obj.get_samples(op[1])
            rows = [np.asarray(v[0][p]) for p in range(2)] if c["antenna"] else [np.asarray(v)]
            want = np.array([float((clock + i) / Fraction(sr)) for i in range(op[1])])
            for p, row in enumerate(rows):
                if not np.array_equal(np.real(row), np.full(op[1], 0.5 * dup)):
                    fails.append(["custom-source-dropped", "a real custom source registered %d times on the stream contributes %r per sample instead of %r" % (dup, float(np.real(row)[0]), 0.5 * dup)])
                    return dict(fails=fails)
                if not np.array_equal(np.imag(row), want):
                    fails.append(["clock-fraction", "op %d: request of %d samples evaluated from t = %r s, the clock stands at %r s (%s samples) after %s"
                                  % (k, op[1], float(np.imag(row)[0]), float(want[0]), clock, c["ops"][:k])])
                    return dict(fails=fails)
            clock += op[1]
        elif op[0] == "add_time":
            obj.add_time(op[1] / 8.0 / sr); clock += Fraction(op[1], 8)
        else:
            obj.set_time(op[1] / 8.0 / sr); clock = Fraction(op[1], 8)
        for s in streams + ([obj] if c["antenna"] else []):
            if float(s.t_start) != float(clock / Fraction(sr)):
                fails.append(["clock-fraction", "op %d %s: clock reads %r s, expected exactly %r s" % (k, op, float(s.t_start), float(clock / Fraction(sr)))])
                return dict(fails=fails)
    return dict(fails=fails)


def env_check():
    a = np.random.default_rng(5); b = np.random.default_rng(5)
    x = np.concatenate([a.standard_normal(7), a.standard_normal(11)])
    return bool(np.array_equal(x, b.standard_normal(18)))


def main():
    payload = json.load(sys.stdin)
    if payload.get("mode") == "frac":
        json.dump(dict(env_ok=True, results=[run_frac(c) for c in payload["cases"]]), open(sys.argv[1], "w"))
        return
    out = dict(env_ok=env_check(), results=[run_case(c) for c in payload["cases"]])
    json.dump(out, open(sys.argv[1], "w"))


if __name__ == "__main__":
    main()
