"""C17 implementation side: slices, de-drifted frames, spectra and time series of frames with distinct
integer data on an exact grid; reports data, axes and inherited attributes of the derived object."""
import sys, json, os
import numpy as np
import setigen as stg
import recutil as R


def hexm(a):
    a = np.asarray(a, dtype=float)
    if a.ndim == 1:
        return [float(x).hex() for x in a]
    return [[float(x).hex() for x in row] for row in a]


def describe(fr, parent):
    return dict(shape=list(fr.data.shape), data=hexm(fr.data), fs0=float(fr.fs[0]).hex(), fsN=float(fr.fs[-1]).hex(), nfs=int(len(fr.fs)), nts=int(len(fr.ts)),
                ts_last=float(fr.ts[-1]).hex(), ascending=bool(fr.ascending), df=float(fr.df).hex(), dt=float(fr.dt).hex(), fch1=float(fr.fch1).hex(),
                t_start=float(fr.t_start), source_name=str(fr.source_name), cls=type(fr).__name__,
                shares=bool(np.shares_memory(fr.data, parent.data)))


def run_case(c):
    out = dict(fails=[])
    with R.Scratch() as d:
        fr = stg.Frame(fchans=c["F"], tchans=c["T"], df=c["df"], dt=c["dt"], fch1=c["fch1"], ascending=c["ascending"], t_start=12345.0, source_name="SRC_X", seed=3)
        fr.data = np.array(c["data"], dtype=float)
        if c.get("from_file"):
            fn = os.path.join(d, "p." + c["from_file"])
            (fr.save_fil if c["from_file"] == "fil" else fr.save_h5)(fn)
            fr = stg.Frame(waterfall=fn)
        if c.get("t_start_zero"):
            fr.t_start = 0.0            # a relative time origin, assigned as Cadence.overwrite_times assigns start times
        if c.get("ts_origin"):
            fr.ts = fr.ts + c["ts_origin"]
        if c.get("meta_drift") is not None:
            fr.add_metadata({"drift_rate": c["meta_drift"]})
        out["parent"] = dict(t_start=float(fr.t_start), source_name=str(fr.source_name), fs=hexm(fr.fs), ts=hexm(fr.ts), fmin=float(fr.fmin).hex(), data=hexm(fr.data))
        before = fr.data.copy()
        op = c["op"]
        nz = bool(c.get("normalize"))
        try:
            if op[0] == "slice":
                lb, rb = c.get("raw_bounds", [op[1], op[2]])
                res = fr.get_slice(lb, rb)
            elif op[0] == "dedrift":
                res = stg.dedrift(fr, drift_rate=op[1]) if op[1] is not None else stg.dedrift(fr)
            elif op[0] == "integrate":
                res = stg.integrate(fr, axis=op[1], mode=op[2], normalize=nz, as_frame=op[3])
            elif op[0] == "spectrum":
                res = stg.spectrum(fr, mode=op[1], normalize=True) if nz else stg.spectrum(fr, mode=op[1])
            elif op[0] == "timeseries":
                res = stg.timeseries(fr, mode=op[1], normalize=True) if nz else stg.timeseries(fr, mode=op[1])
            if nz:
                # the un-normalised integration of the same frame, for the exact comparison; the normalised values go to the normalisation oracle
                axis = op[1] if op[0] == "integrate" else (0 if op[0] == "spectrum" else 1)
                with np.errstate(all="ignore"):
                    out["raw"] = hexm(stg.integrate(fr, axis=axis, mode=(op[2] if op[0] == "integrate" else op[1]), normalize=False, as_frame=False))
        except Exception as ex:
            out["err"] = type(ex).__name__
            return out
        out["err"] = None
        if isinstance(res, np.ndarray):
            out["array"] = hexm(res)
        else:
            out["res"] = describe(res, fr)
            res.data[...] = -777.0
            if not np.array_equal(fr.data, before):
                out["fails"].append(["view-not-copy", "writing into the derived frame's data changed the parent's data"])
    return out


def main():
    payload = json.load(sys.stdin)
    json.dump([run_case(c) for c in payload["cases"]], open(sys.argv[1], "w"))


if __name__ == "__main__":
    main()
