"""C04 implementation side: records small backends with caller-supplied header dictionaries and
reports (a) the final header dictionary (key order, python values), (b) the structure of every file
as seen by an independent reader, (c) what the library's readers return, for every permutation of
the directory listing, (d) blimpy's GuppiRaw block count."""
import sys, json, os, itertools, glob as _glob
import numpy as np
import recutil as R


def pyval(v):
    return ["str", v] if isinstance(v, str) else (["int", int(v)] if isinstance(v, (int, np.integer)) and not isinstance(v, bool) else ["float", float(v).hex(), repr(float(v))])


def render(key, v):
    """the text Python puts on the card for a non-string value"""
    if key == "TBIN":
        return "%.14E" % v
    return format(v, "")


def run_case(c):
    from setigen.voltage import raw_utils as RU
    res = dict(fails=[])
    src, be = R.build_backend(c)
    hd = {}
    for k, kind, v in c["cards"]:
        if kind == "int":
            hd[k] = int(v)
        elif kind == "float":
            hd[k] = float(v)
        else:
            hd[k] = v
    user = dict(hd)
    with R.Scratch() as d:
        stem = os.path.join(d, "c04")
        # record() works on its own copy of the caller's dictionary: observe the dictionary handed to the header writer
        cap = {}
        orig = be._make_header

        def spy(f, header_dict):
            cap["d"] = header_dict
            return orig(f, header_dict)
        be._make_header = spy
        try:
            R.record(be, stem, c, header_dict=hd)
        except Exception as ex:
            return dict(error=repr(ex))
        fd = cap.get("d", hd)
        res["final_keys"] = list(fd.keys())
        res["final"] = {k: pyval(v) for k, v in fd.items()}
        res["rendered"] = {k: (v if isinstance(v, str) else render(k, v)) for k, v in fd.items()}
        res["caller_dict_unchanged"] = (hd == user)
        res["spb"] = int(be.samples_per_block)
        res["cfg"] = dict(NBITS=int(be.num_bits), NPOL=int(be.num_pols), BLOCSIZE=int(be.block_size), OBSNCHAN=int(be.num_chans * be.num_antennas),
                          NANTS=int(be.num_antennas), TBIN=float(be.tbin), CHAN_BW=float(be.chan_bw * 1e-6), OBSBW=float(be.chan_bw * be.num_chans * 1e-6),
                          SCANLEN=float(be.obs_length),
                          OBSFREQ=float(((be.start_chan + (be.num_chans - 1) / 2) * be.chan_bw + be.fch1) * 1e-6), is_array=bool(be.is_antenna_array))
        files = R.list_files(stem)
        res["files"] = [os.path.basename(f) for f in files]
        res["file_lens"] = [os.path.getsize(f) for f in files]
        struct = []
        for f in files:
            buf = open(f, "rb").read()
            try:
                bl = R.parse_raw_bytes(buf)
                struct.append([dict(cards=[s for (_, _, s) in b["cards"]], pad=b["pad"], pad_zero=(b["pad_bytes"] == bytes(b["pad"])),
                                    ndata=len(b["data"]), hdr=b["hdr"]) for b in bl])
            except Exception as ex:
                struct.append(dict(error=str(ex)))
        res["struct"] = struct
        # library readers
        lib = dict()
        try:
            lib["read_header"] = RU.read_header(files[0])
            lib["blocks_in_file"] = [int(RU.get_blocks_in_file(f)) for f in files]
            lib["blocks_per_file"] = int(RU.get_blocks_per_file(stem))
            totals = []
            real_glob = RU.glob.glob
            perms = list(itertools.permutations(files))[:24]
            for perm in perms:
                RU.glob.glob = lambda pat, perm=perm: list(perm)
                try:
                    totals.append(int(RU.get_total_blocks(stem)))
                finally:
                    RU.glob.glob = real_glob
            lib["totals"] = totals
            rp = RU.get_raw_params(stem, start_chan=c.get("start_chan", 0))
            lib["raw_params"] = dict((k, (float(v) if isinstance(v, float) else (bool(v) if isinstance(v, (bool, np.bool_)) else int(v)))) for k, v in rp.items())
        except Exception as ex:
            lib["error"] = repr(ex)
        res["lib"] = lib
        # blimpy (only meaningful when every block keeps 512-alignment)
        bl = []
        if c["block_size"] % 512 == 0:
            from blimpy.guppi import GuppiRaw
            import io, contextlib
            for f in files:
                try:
                    with contextlib.redirect_stdout(io.StringIO()):
                        g = GuppiRaw(f)
                        n = int(g.n_blocks)
                        h0, idx0 = g.read_header()
                    bl.append(dict(n=n, data_idx0=int(idx0)))
                except SystemExit:
                    bl.append(dict(error="blimpy gave up (sys.exit)"))
                except Exception as ex:
                    bl.append(dict(error=repr(ex)))
        res["blimpy"] = bl
        # the files just written, recorded over again through from_data with MORE blocks asked for than they hold: the header of what
        # comes out describes what is in it (SCANLEN = blocks on disk x samples per block x TBIN)
        if c.get("rerecord") and "error" not in lib and all(not isinstance(s_, dict) for s_ in struct):
            n_in = sum(len(s_) for s_ in struct)

            def attempt(tag):
                import setigen.voltage as V
                src2 = R.build_source(dict(c, noise=[], signals=[], bg_noise=[]))
                fb2 = V.PolyphaseFilterbank(num_taps=c["taps"], num_branches=c["nb"])
                fb2.estimate_channelized_stds(factor=20, seed=3)
                be2 = V.RawVoltageBackend.from_data(stem, src2, digitizer=V.RealQuantizer(target_fwhm=32, num_bits=8), filterbank=fb2,
                                                    start_chan=c.get("start_chan", 0), num_subblocks=1)
                stem2 = os.path.join(d, "again" + tag)
                with R.quiet():
                    be2.record(output_file_stem=stem2, num_blocks=n_in + 2, length_mode="num_blocks", header_dict={}, digitize=True, load_template=False, verbose=False)
                out_blocks = []
                for f in R.list_files(stem2):
                    out_blocks.extend(R.parse_raw_bytes(open(f, "rb").read()))
                spb2 = c["block_size"] // (c["nants"] * c["nchans"] * (2 * c["num_pols"] * c["nbits"] // 8))
                return dict(n_in=n_in, n_out=len(out_blocks), scanlen=[float(b["hdr"]["SCANLEN"]) for b in out_blocks[:1]],
                            tbin=[float(b["hdr"]["TBIN"]) for b in out_blocks[:1]], spb=spb2, obs_length=float(be2.obs_length))

            def describe(ex):
                import traceback
                return repr(ex)[:200] + " @ " + " <- ".join(l.strip() for l in traceback.format_exc().splitlines()[-7:-1] if l.strip().startswith("File"))[-500:]
            try:
                res["rerecord"] = attempt("1")
            except Exception as ex1:
                first = describe(ex1)
                # reported only if it happens again on a second, independent attempt (an error that does not repeat is noted, not reported)
                try:
                    res["rerecord"] = dict(attempt("2"), not_repeated=first)
                except Exception as ex2:
                    res["rerecord"] = dict(error=describe(ex2))
    return res


def main():
    payload = json.load(sys.stdin)
    json.dump([run_case(c) for c in payload["cases"]], open(sys.argv[1], "w"))


if __name__ == "__main__":
    main()
