"""C06 with the SHIPPED path / profile families (the main C06 runs use their own callables, which the exact model can follow): sequences
of 2-3 injections built from setigen's own functions.  Value-agnostic statements of the property, evaluated with numpy on the
implementation: frame state unchanged by every injection, data after = data before + returned array, what an injection returns does
not depend on what was injected before, and the injections superpose in any order."""
import sys, json
import numpy as np
import setigen as stg


def mk(fr, s):
    f0 = fr.get_frequency(s["ch"]) + s["off"] * fr.df
    unit = fr.df / fr.dt
    pk = s["path"]
    if pk == "constant":
        path = stg.constant_path(f_start=f0, drift_rate=s["drift"] * unit)
    elif pk == "squared":
        path = stg.squared_path(f_start=f0, drift_rate=s["drift"] * unit)
    elif pk == "sine":
        path = stg.sine_path(f_start=f0, drift_rate=s["drift"] * unit, period=s["period"], amplitude=2 * fr.df)
    else:
        path = stg.simple_rfi_path(f_start=f0, drift_rate=s["drift"] * unit, spread=3 * fr.df, spread_type="uniform", rfi_type="stationary", seed=s["seed"])
    tk = s["tprof"]
    if tk == "constant":
        tp = stg.constant_t_profile(level=s["level"])
    elif tk == "sine":
        tp = stg.sine_t_profile(period=s["period"], phase=s["phase"], amplitude=0.5 * s["level"], level=s["level"])
    else:
        tp = stg.periodic_gaussian_t_profile(pulse_width=2 * fr.dt, period=s["period"], phase=s["phase"], pulse_offset_width=fr.dt, pulse_direction="rand",
                                             pnum=3, amplitude=s["level"], level=s["level"], min_level=0, seed=s["seed"])
    fk = s["fprof"]; w = s["width"] * fr.df
    fp = {"box": stg.box_f_profile, "gaussian": stg.gaussian_f_profile, "lorentzian": stg.lorentzian_f_profile, "sinc2": stg.sinc2_f_profile}[fk](width=w) \
        if fk != "voigt" else stg.voigt_f_profile(g_width=w, l_width=w / 2)
    kw = dict(path=path, t_profile=tp, f_profile=fp, bp_profile=stg.constant_bp_profile(level=1.0),
              integrate_path=s.get("integrate_path", False), integrate_t_profile=s.get("integrate_t", False), doppler_smearing=s.get("smear", False), t_subsamples=4, smearing_subsamples=4)
    return kw


def state(fr):
    return dict(ts=fr.ts.copy(), fs=fr.fs.copy(), ts_ext=np.array(fr.ts_ext), shape=tuple(fr.shape), t_start=fr.t_start, noise=(float(fr.noise_mean), float(fr.noise_std)),
                meta=json.dumps(fr.metadata, sort_keys=True, default=str), fch1=fr.fch1, df=fr.df, dt=fr.dt)


def same_state(a, b):
    for k in a:
        if isinstance(a[k], np.ndarray):
            if a[k].shape != b[k].shape or not np.array_equal(a[k], b[k]):
                return "%s (changed by up to %g)" % (k, float(np.max(np.abs(a[k] - b[k]))) if a[k].shape == b[k].shape else float("nan"))
        elif a[k] != b[k]:
            return k
    return None


def frame(c):
    fr = stg.Frame(fchans=c["F"], tchans=c["T"], df=c["df"], dt=c["dt"], fch1=c["fch1"], ascending=c["ascending"], seed=c["seed"], t_start=1000.0)
    if c.get("noise"):
        fr.add_noise(x_mean=10.0, noise_type="chi2")
    return fr


def run_case(c):
    fails = []
    fr = frame(c)
    rets = []
    for k, s in enumerate(c["signals"]):
        st0 = state(fr); before = fr.data.copy()
        with np.errstate(all="ignore"):
            ret = fr.add_signal(**mk(fr, s))
        bad = same_state(st0, state(fr))
        where = "injection %d (%s path, %s time profile with phase %r, %s profile)" % (k, s["path"], s["tprof"], s.get("phase"), s["fprof"])
        if bad:
            fails.append(["frame-state", "%s changed the frame's %s" % (where, bad)]); break
        if not np.array_equal(fr.data, before + ret):
            fails.append(["not-additive", "%s: data after != data before + returned array" % where]); break
        fresh = frame(dict(c, noise=False))
        with np.errstate(all="ignore"):
            alone = fresh.add_signal(**mk(fresh, s))
        if not np.array_equal(ret, alone) and not np.allclose(ret, alone, rtol=1e-12, atol=1e-12):
            fails.append(["return-depends-on-history", "%s returns something else than on a fresh frame (max diff %g)" % (where, float(np.max(np.abs(ret - alone))))]); break
        rets.append(ret)
    if not fails and len(c["signals"]) >= 2:
        fr2 = frame(c)
        for s in reversed(c["signals"]):
            with np.errstate(all="ignore"):
                fr2.add_signal(**mk(fr2, s))
        scale = max(1.0, float(np.max(np.abs(fr.data))))
        if not np.allclose(fr.data, fr2.data, rtol=0, atol=1e-9 * scale):
            fails.append(["superposition", "the same injections in reverse order give other data (max diff %g)" % float(np.max(np.abs(fr.data - fr2.data)))])
    return dict(fails=fails, nonzero=bool(rets and any(np.any(r != 0) for r in rets)))


def main():
    payload = json.load(sys.stdin)
    json.dump([run_case(c) for c in payload["cases"]], open(sys.argv[1], "w"))


if __name__ == "__main__":
    main()
