"""C11 implementation side.

mode=frame : runs a history of add_noise / add_noise_from_obs / zero_data / add_signal calls on a Frame whose
             random generator is a recording subclass of numpy's Generator (same bit stream, every request and
             answer logged), and reports per step the requests, the returned array, the data, the estimates,
             plus an independent sigma-clipped reference estimate of the data.
mode=stats : statistical acceptance test of the generated noise (moments within analytically derived bands).
mode=snr   : get_intensity / get_snr values.
mode=volt  : noise-level bookkeeping of DataStream / Antenna / MultiAntennaArray.
mode=deftab: add_noise_from_obs with NO tables given (the bundled observation table, scaled to the frame's dt), several
             draws in one interpreter on frames of different resolutions: every draw's parameters must be the rows the
             generator picked of the bundled table times dt/obs_dt, whatever was drawn before."""
import sys, json, math
import numpy as np
import setigen as stg


class Rec(np.random.Generator):
    def __init__(self, seed):
        super().__init__(np.random.PCG64(seed))
        self.log = []
        self._in_choice = False

    def choice(self, a, *k, **kw):
        self._in_choice = True
        self._idx = None
        try:
            r = super().choice(a, *k, **kw)
        finally:
            self._in_choice = False
        arr = np.asarray(a)
        self.log.append(dict(kind="choice", n=int(arr.shape[0]), idx=self._idx, value=float(r).hex(),
                             table=([float(x).hex() for x in arr.ravel()] if arr.size <= 1000 else None)))
        return r

    def integers(self, *a, **kw):
        r = super().integers(*a, **kw)
        if self._in_choice:
            self._idx = int(r)
        else:
            self.log.append(dict(kind="integers", args=[int(x) for x in a], idx=int(r)))
        return r

    def chisquare(self, df, size=None):
        r = super().chisquare(df=df, size=size)
        self.log.append(dict(kind="chisquare", df=float(df).hex(), shape=list(np.shape(r)), draws=[float(x).hex() for x in np.ravel(r)]))
        return r

    def normal(self, loc=0.0, scale=1.0, size=None):
        r = super().normal(loc, scale, size)
        self.log.append(dict(kind="normal", loc=float(loc).hex(), scale=float(scale).hex(), shape=list(np.shape(r)), draws=[float(x).hex() for x in np.ravel(r)]))
        return r


def ref_sigma_clip_stats(data):
    """median-centred 3-sigma clipping, at most 5 rounds, then mean and deviation of the survivors
    (written from the description of the estimator, not calling astropy)"""
    x = np.asarray(data, dtype=float).ravel()
    for _ in range(5):
        med = np.median(x)
        sd = np.std(x)
        keep = (x >= med - 3 * sd) & (x <= med + 3 * sd)
        if keep.all():
            break
        x = x[keep]
    return float(np.mean(x)), float(np.std(x))


def hexl(a):
    return [float(x).hex() for x in np.ravel(np.asarray(a, dtype=float))]


def fh(x):
    return float.fromhex(x) if isinstance(x, str) else x


def arr(v):
    return None if v is None else np.array([fh(x) for x in v], dtype=float)


def make_frame(c, rng):
    kw = dict(df=fh(c["df"]), dt=fh(c["dt"]), fch1=fh(c.get("fch1", "0x1.8p+32")), seed=rng)
    if c.get("prior") is not None:
        d = np.array([fh(x) for x in c["prior"]], dtype=float).reshape((c["T"], c["F"]))
        if c.get("dtype") == "float32":
            d = d.astype(np.float32)
        elif c.get("dtype") == "int64":
            d = d.astype(np.int64)
        return stg.Frame.from_data(ascending=False, data=d, **kw)
    return stg.Frame(fchans=c["F"], tchans=c["T"], **kw)


def do_op(fr, op):
    k = op[0]
    if k == "noise":
        a = op[1]
        if a["type"] == "chi2":
            return fr.add_noise(fh(a["m"]))
        if a["type"] == "gauss":
            return fr.add_noise(fh(a["m"]), fh(a["s"]), noise_type=a.get("name", "gaussian"))
        return fr.add_noise(fh(a["m"]), fh(a["s"]), fh(a["mn"]), noise_type=a.get("name", "gaussian"))
    if k == "obs":
        a = op[1]
        return fr.add_noise_from_obs(arr(a["means"]), arr(a.get("stds")), arr(a.get("mins")), share_index=a["share"],
                                     noise_type="chi2" if a["type"] == "chi2" else a.get("name", "gaussian"))
    if k == "zero":
        fr.zero_data()
        return None
    if k == "signal":
        a = op[1]
        return fr.add_signal(stg.constant_path(f_start=fr.get_frequency(a["idx"]), drift_rate=0.0), stg.constant_t_profile(level=fh(a["level"])),
                             stg.box_f_profile(width=fr.df * a["w"]), stg.constant_bp_profile(level=1))
    raise ValueError(k)


def stats_of(fr):
    m, s = fr.get_noise_stats()
    return [float(m).hex(), float(s).hex()]


def run_frame(c):
    rng = Rec(c["seed"])
    fr = make_frame(c, rng)
    out = dict(chi2_df=int(fr.chi2_df), dtype=str(fr.data.dtype), init_stats=stats_of(fr), init_ref=[float(x).hex() for x in ref_sigma_clip_stats(fr.data)],
               init_data=hexl(fr.data), steps=[], fails=[])
    kept = []
    for k, op in enumerate(c["ops"]):
        rng.log = []
        before = fr.data.copy()
        st0 = stats_of(fr)
        try:
            with np.errstate(all="ignore"):
                ret = do_op(fr, op)
        except Exception as ex:
            rec = dict(err=type(ex).__name__, msg=str(ex)[:160], log=rng.log, stats=stats_of(fr), data_unchanged=bool(np.array_equal(before, fr.data)))
            out["steps"].append(rec)
            continue
        rec = dict(err=None, log=rng.log, stats=stats_of(fr), data=hexl(fr.data), ref=[float(x).hex() for x in ref_sigma_clip_stats(fr.data)],
                   ret=None if ret is None else hexl(ret), ret_shape=None if ret is None else list(np.shape(ret)))
        out["steps"].append(rec)
        if op[0] in ("noise", "obs") and ret is not None:
            kept.append((k, ret, np.array(ret, copy=True)))
        if op[0] in ("noise", "obs"):
            # the identity, evaluated directly: data after == data before + returned array (rounded to the data's own type)
            if ret is None or np.shape(ret) != before.shape:
                out["fails"].append(["return-shape", "step %d: returned %s for data of shape %s" % (k, None if ret is None else np.shape(ret), before.shape)])
            elif not np.array_equal(fr.data, (before.astype(float) + ret).astype(before.dtype)):
                out["fails"].append(["not-additive", "step %d (%s): data after != data before + returned noise array" % (k, op[1].get("type"))])
            a = op[1]
            mn = None
            if op[0] == "noise" and a["type"] == "trunc":
                mn = fh(a["mn"])
            if op[0] == "obs" and a["type"] == "gauss" and a.get("mins") is not None:
                mn = min(fh(x) for x in a["mins"])
            if mn is not None and ret is not None and np.any(ret < mn):
                out["fails"].append(["floor", "step %d: truncated noise has a value %r below its floor %r" % (k, float(np.min(ret)), mn)])
    # what was returned stays what was added: a later operation on the frame must not reach into an array handed out earlier
    for k, ret, snap in kept:
        if np.shares_memory(ret, fr.data) or not np.array_equal(ret, snap):
            out["fails"].append(["return-aliases-data", "the noise array returned at step %d %s" % (k, "is the frame's own data buffer" if np.shares_memory(ret, fr.data) else "was changed by a later operation on the frame")])
            break
    return out


def run_stats(c):
    """-> sample moments of the noise a fresh frame generates"""
    fr = stg.Frame(fchans=c["F"], tchans=c["T"], df=fh(c["df"]), dt=fh(c["dt"]), fch1=6e9, seed=c["seed"])
    a = c["noise"]
    if c.get("obs"):
        tab = np.array([fh(a["m"])]), np.array([fh(a.get("s", "0x1p+0"))]), (np.array([fh(a["mn"])]) if a["type"] == "trunc" else None)
        ret = fr.add_noise_from_obs(tab[0], tab[1], tab[2], share_index=c.get("share", True), noise_type="chi2" if a["type"] == "chi2" else "gaussian")
    else:
        ret = do_op(fr, ["noise", a])
    x = np.asarray(ret, dtype=float).ravel()
    return dict(n=int(x.size), mean=float(np.mean(x)), var=float(np.var(x)), min=float(np.min(x)), chi2_df=int(fr.chi2_df),
                stats=[float(v) for v in fr.get_noise_stats()], frac_at_floor=(float(np.mean(x == fh(a["mn"]))) if a["type"] == "trunc" else None))


def run_snr(c):
    fr = stg.Frame(fchans=4, tchans=c["T"], df=2.0, dt=1.0, fch1=6e9, seed=1)
    out = dict(empty_raises=None, vals=[])
    try:
        fr.get_intensity(10.0)
        out["empty_raises"] = False
    except ValueError:
        out["empty_raises"] = True
    try:
        fr.get_snr(10.0)
        out["empty_raises"] = False
    except ValueError:
        pass
    fr.add_noise(fh(c["m"]), fh(c["s"]), noise_type="gaussian")
    sd = fr.get_noise_stats()[1]
    for s in c["snrs"]:
        s = fh(s)
        i = fr.get_intensity(s)
        out["vals"].append(dict(intensity=float(i).hex(), back=float(fr.get_snr(i)).hex(), snr_of=float(fr.get_snr(s)).hex()))
    out["std"] = float(sd).hex()
    return out


def run_volt(c):
    from setigen.voltage import Antenna, MultiAntennaArray, DataStream
    rows = []
    if c["kind"] == "stream":
        ds = DataStream(sample_rate=3e9, fch1=6e9, ascending=True, t_start=0, seed=c["seed"])
        for op in c["ops"]:
            ds.add_noise(fh(op[2]), fh(op[3]))
            rows.append(dict(own=[float(ds.noise_std).hex()], bg=float(ds.bg_noise_std).hex(), total=[float(ds.get_total_noise_std()).hex()]))
        return dict(rows=rows, nsrc=len(ds.noise_sources))
    if c["kind"] == "antenna":
        ant = Antenna(sample_rate=3e9, fch1=6e9, ascending=True, num_pols=c["npols"], t_start=0, seed=c["seed"])
        streams = [ant.streams]
        bgs = None
    else:
        maa = MultiAntennaArray(num_antennas=c["nant"], sample_rate=3e9, fch1=6e9, ascending=True, num_pols=c["npols"],
                                delays=np.arange(c["nant"]) * 3, seed=c["seed"])
        streams = [a.streams for a in maa.antennas]
        bgs = maa.bg_streams
    for op in c["ops"]:
        if op[0] == "own":
            tgt = streams[op[1]]
            if op[4] is None:
                for s in tgt:
                    s.add_noise(fh(op[2]), fh(op[3]))
            else:
                tgt[op[4]].add_noise(fh(op[2]), fh(op[3]))
        else:
            if op[4] is None:
                for s in bgs:
                    s.add_noise(fh(op[2]), fh(op[3]))
            else:
                bgs[op[4]].add_noise(fh(op[2]), fh(op[3]))
        rows.append(dict(own=[[float(s.noise_std).hex() for s in st] for st in streams],
                         bg=[[float(s.bg_noise_std).hex() for s in st] for st in streams],
                         bgsrc=None if bgs is None else [float(s.noise_std).hex() for s in bgs],
                         total=[[float(s.get_total_noise_std()).hex() for s in st] for st in streams]))
    out = dict(rows=rows)
    if c.get("update") and bgs is not None:
        # the background stream re-estimates its own level from samples and hands it to every antenna stream of its polarisation
        n = 4000
        before = [float(b.noise_std) for b in bgs]
        for b in bgs:
            b.update_noise(stats_calc_num_samples=n)
        out["upd"] = dict(n=n, before=before, bgsrc=[float(b.noise_std) for b in bgs],
                          bg=[[float(s.bg_noise_std) for s in st] for st in streams], own=[[float(s.noise_std) for s in st] for st in streams],
                          total=[[float(s.get_total_noise_std()) for s in st] for st in streams])
    if c.get("sample"):
        # empirical deviation of the produced voltages against the claimed total (>= 6 sigma band evaluated by the caller)
        n = c["sample"]
        top = ant if c["kind"] == "antenna" else maa
        v = np.asarray(top.get_samples(n), dtype=float)          # (antennas, pols, n): own + delayed background
        emp = [[float(np.std(v[a][p])) for p in range(v.shape[1])] for a in range(v.shape[0])]
        out["emp"] = emp
        out["n"] = n
    return out


OBS_DT = 1.4316557653333333


def run_deftab(c):
    import os
    asset = np.load(os.path.join(os.path.dirname(stg.__file__), "assets", "sample_noise_params.npy"))
    frames = []
    for f in c["frames"]:
        rng = Rec(f["seed"])
        frames.append((stg.Frame(fchans=f["F"], tchans=f["T"], df=fh(f["df"]), dt=fh(f["dt"]), fch1=6e9, seed=rng), rng))
    fails = []
    rows = []

    def near(x, y):
        return abs(x - y) <= 1e-12 * max(abs(x), abs(y))
    for k, d in enumerate(c["draws"]):
        fr, rng = frames[d["frame"]]
        if d["zero"]:
            fr.zero_data()
        rng.log = []
        before = fr.data.copy()
        was_empty = (fr.noise_mean == 0 and fr.noise_std == 0)
        ret = fr.add_noise_from_obs(share_index=d["share"], noise_type="chi2" if d["type"] == "chi2" else "gaussian")
        sc = fr.dt / OBS_DT
        where = "draw %d (%s%s, frame %d with dt=%r%s)" % (k, d["type"], "" if d["type"] == "chi2" else (", shared index" if d["share"] else ", independent indices"),
                                                          d["frame"], fr.dt, ", after zero_data" if d["zero"] else "")
        picks = [e for e in rng.log if e["kind"] in ("choice", "integers")]
        arrs = [e for e in rng.log if e["kind"] in ("chisquare", "normal")]
        if any(e.get("n", e.get("args", [0])[-1]) != asset.shape[0] for e in picks) or len(arrs) != 1 or any(e["idx"] is None for e in picks):
            fails.append(["default-table-requests", "%s: requests %s do not pick indices of the %d-row bundled table / one array draw" %
                          (where, [(e["kind"], e.get("n", e.get("args"))) for e in rng.log], asset.shape[0])])
            continue
        if not np.array_equal(fr.data, before + ret):
            fails.append(["not-additive", "%s: data after != data before + returned noise" % where])
        draws = np.array([fh(x) for x in arrs[0]["draws"]]).reshape(np.shape(ret))
        if d["type"] == "chi2":
            if len(picks) != 1:
                fails.append(["default-table-requests", "%s: %d index picks for chi-squared noise" % (where, len(picks))]); continue
            want = asset[picks[0]["idx"], 0] * sc
            got = fh(picks[0]["value"])
            if not near(got, want) or not np.allclose(ret, draws * want / fr.chi2_df, rtol=1e-11, atol=0):
                fails.append(["default-table-entry", "%s: mean used %r, row %d of the bundled table scaled by dt/obs_dt is %r" % (where, got, picks[0]["idx"], want)])
            pm = want
        else:
            if d["share"]:
                if len(picks) != 1:
                    fails.append(["default-table-share-index", "%s: %d index picks with share_index" % (where, len(picks))]); continue
                im = i_s = imn = picks[0]["idx"]
            else:
                if len(picks) != 3:
                    fails.append(["default-table-requests", "%s: %d index picks for three independent tables" % (where, len(picks))]); continue
                im, i_s, imn = [e["idx"] for e in picks]
            ws = asset[i_s, 1] * sc
            wm = asset[im, 0] * sc if d["share"] else max(asset[im, 0] * sc, ws)
            wmn = asset[imn, 2] * sc
            loc, scale = fh(arrs[0]["loc"]), fh(arrs[0]["scale"])
            if not (near(loc, wm) and near(scale, ws)):
                fails.append(["default-table-share-index" if d["share"] else "default-table-entry",
                              "%s: gaussian drawn with (%r, %r); rows (%d, %d) of the bundled table scaled by dt/obs_dt give (%r, %r)" % (where, loc, scale, im, i_s, wm, ws)])
            if not np.allclose(ret, np.maximum(draws, wmn), rtol=1e-11, atol=0):
                fails.append(["default-table-floor", "%s: returned noise is not max(draws, floor) for floor = row %d of the bundled table scaled = %r (min returned %r)" %
                              (where, imn, wmn, float(np.min(ret)))])
            pm = wm
        if was_empty and not near(float(fr.noise_mean), pm):
            fails.append(["first-noise-params", "%s on a frame without noise: recorded noise_mean %r, the table entry used is %r" % (where, float(fr.noise_mean), pm)])
        rows.append(dict(idx=[e["idx"] for e in picks], scale=sc))
    return dict(fails=fails, rows=rows)


def main():
    payload = json.load(sys.stdin)
    fn = dict(frame=run_frame, stats=run_stats, snr=run_snr, volt=run_volt, deftab=run_deftab)[payload["mode"]]
    json.dump([fn(c) for c in payload["cases"]], open(sys.argv[1], "w"))


if __name__ == "__main__":
    main()
