"""C19 implementation side.  mode fil: writes a filterbank file whose pixel values encode (row, file
channel), splits it with split_waterfall_generator / split_fil, and reports for every piece which file
channels and integrations it holds and what its header says.  mode array: split_array on an array whose
values encode (y, x); every returned tile is located from its values."""
import sys, json, os, io, contextlib
import numpy as np
import setigen as stg
from setigen import split_utils as SU, sample_from_obs as SO
import recutil as R


def fil_case(c):
    out = dict(fails=[])
    with R.Scratch() as d:
        nch, T = c["nchans"], c["tchans_file"]
        fr = stg.Frame(fchans=nch, tchans=T, df=c["df"], dt=c["dt"], fch1=c["fch1"], ascending=c["ascending"], t_start=1e9)
        # value = row * 100000 + memory column; file channel k is memory column k (ascending) or nch-1-k (descending)
        fr.data = np.arange(T)[:, None] * 100000.0 + np.arange(nch)[None, :]
        fn = os.path.join(d, "in.fil")
        with contextlib.redirect_stdout(io.StringIO()):
            fr.save_fil(fn)
        pieces = []
        try:
            with contextlib.redirect_stdout(io.StringIO()):
                for wf in SU.split_waterfall_generator(fn, c["fchans"], tchans=c.get("tchans"), f_shift=c.get("f_shift")):
                    dat = np.asarray(wf.data)[:, 0, :]
                    cols = (dat[0] % 100000).astype(int)             # memory columns, in file order
                    chans = cols if c["ascending"] else (nch - 1 - cols)
                    rows = (dat[:, 0] // 100000).astype(int)
                    contiguous = bool(np.all(np.diff(chans) == 1)) if len(chans) > 1 else True
                    consistent = bool(np.array_equal(dat, rows[:, None] * 100000.0 + cols[None, :]))
                    hdr_fch1 = float(np.asarray(wf.container.populate_freqs())[0]); foff = float(wf.header["foff"])
                    pieces.append(dict(lo=int(chans[0]), hi=int(chans[-1]) + 1, n=int(len(chans)), rows=[int(rows[0]), int(rows[-1]) + 1], contiguous=contiguous,
                                       consistent=consistent, fch1=hdr_fch1, nchans=int(wf.header["nchans"]), foff=foff))
        except Exception as ex:
            out["err"] = type(ex).__name__ + ": " + str(ex)[:150]
            return out
        out["pieces"] = pieces
        out["file_fch1"] = float(fr.fch1 * 1e-6); out["file_foff"] = float((fr.df if fr.ascending else -fr.df) * 1e-6)
        # on-disk variant: one loadable file per piece
        if c.get("split_fil"):
            try:
                if c.get("presplit"):
                    # the output directory was used before, for another recording of the same geometry cut into pieces of the same width
                    # (fewer integrations, other intensities): what this call returns must be this call's pieces
                    other = stg.Frame(fchans=nch, tchans=T, df=c["df"], dt=c["dt"], fch1=c["fch1"], ascending=c["ascending"], t_start=1e9)
                    other.data = fr.data + 5e7
                    fn2 = os.path.join(d, "other.fil")
                    with contextlib.redirect_stdout(io.StringIO()):
                        other.save_fil(fn2)
                        SU.split_fil(fn2, os.path.join(d, "out"), c["fchans"], tchans=1, f_shift=c.get("f_shift"))
                with contextlib.redirect_stdout(io.StringIO()):
                    fns = SU.split_fil(fn, os.path.join(d, "out"), c["fchans"], tchans=c.get("tchans"), f_shift=c.get("f_shift"))
                shapes = []
                for f in fns:
                    g = stg.Frame(waterfall=str(f))
                    shapes.append([int(g.tchans), int(g.fchans), float(g.fmin), float(g.fmax)])
                    if float(np.max(g.data)) >= 4e7:
                        out["fails"].append(["split-fil-stale", "split_fil returned %s, which holds the intensities of an earlier split into the same directory" % os.path.basename(str(f))])
                        break
                out["split_fil"] = dict(n=len(fns), names=[os.path.basename(str(f)) for f in fns], shapes=shapes)
            except Exception as ex:
                out["split_fil"] = dict(err=type(ex).__name__ + ": " + str(ex)[:150])
        # consumers
        if c.get("consumers"):
            try:
                with contextlib.redirect_stdout(io.StringIO()):
                    a, b, m = SO.get_parameter_distributions(fn, c["fchans"], tchans=c.get("tchans"), f_shift=c.get("f_shift"))
                    mm = SO.get_mean_distribution(fn, c["fchans"], tchans=c.get("tchans"), f_shift=c.get("f_shift"))
                out["consumers"] = [int(len(a)), int(len(b)), int(len(m)), int(len(mm))]
            except Exception as ex:
                out["consumers"] = "%s: %s" % (type(ex).__name__, str(ex)[:100])
    return out


def array_case(c):
    H, W = c["H"], c["W"]
    data = np.arange(H)[:, None] * 100000.0 + np.arange(W)[None, :]
    kw = dict(f_sample_num=c.get("tw"), t_sample_num=c.get("th"), f_shift=c.get("fs"), t_shift=c.get("ts"), f_trim=c.get("f_trim", False), t_trim=c.get("t_trim", False))
    try:
        res = SU.split_array(data, **kw)
    except Exception as ex:
        return dict(err=type(ex).__name__ + ": " + str(ex)[:150])
    tiles = []
    for t in res:
        t = np.asarray(t)
        if t.size == 0:
            tiles.append([0, 0, 0, 0, False]); continue
        y0 = int(t[0, 0] // 100000); x0 = int(t[0, 0] % 100000)
        ok = bool(np.array_equal(t, (y0 + np.arange(t.shape[0]))[:, None] * 100000.0 + (x0 + np.arange(t.shape[1]))[None, :]))
        tiles.append([y0, y0 + t.shape[0], x0, x0 + t.shape[1], ok])
    return dict(err=None, tiles=tiles, dtype=str(getattr(res, "dtype", None)), ndim=int(getattr(res, "ndim", 0)))


def main():
    payload = json.load(sys.stdin)
    f = fil_case if payload["mode"] == "fil" else array_case
    json.dump([f(c) for c in payload["cases"]], open(sys.argv[1], "w"))


if __name__ == "__main__":
    main()
