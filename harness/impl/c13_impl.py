"""C13 implementation side: add_constant_signal vs general add_signal of the same linear path / constant
time profile / frequency profile; the helper's internal bounding range and sub-step count are observed
by a Frame subclass that records the keyword arguments passed on to add_signal."""
import sys, json
import numpy as np
import setigen as stg


class Spy(stg.Frame):
    def add_signal(self, *a, **k):
        self._kw = dict(k)
        return super().add_signal(*a, **k)


def profile(ptype, width):
    return dict(gaussian=lambda: stg.gaussian_f_profile(width), lorentzian=lambda: stg.lorentzian_f_profile(width),
                voigt=lambda: stg.voigt_f_profile(width, width), sinc2=lambda: stg.sinc2_f_profile(width), box=lambda: stg.box_f_profile(width))[ptype]()


def mk(c, cls=stg.Frame):
    return cls(fchans=c["F"], tchans=c["T"], df=c["df"], dt=c["dt"], fch1=c["fch1"], ascending=c["ascending"], t_start=0.0)


def as_level(c):
    k = c.get("level_kind", "float")
    v = c["level"]
    return {"float": float, "int": int, "int64": np.int64, "float32": np.float32, "float64": np.float64}[k](v)


def helper(c, drift=None, smear=None):
    fr = mk(c, Spy)
    with np.errstate(all="ignore"):
        ret = fr.add_constant_signal(f_start=c["f_start"], drift_rate=c["drift"] if drift is None else drift, level=as_level(c), width=c["width"],
                                     f_profile_type=c["ptype"], doppler_smearing=c["smear"] if smear is None else smear)
    return fr, np.asarray(ret, dtype=float)


def hexm(a):
    return [[float(x).hex() for x in row] for row in a]


def run_case(c):
    out = dict(fails=[])
    try:
        fr, h = helper(c)
    except Exception as ex:
        return dict(error="%s: %s" % (type(ex).__name__, str(ex)[:200]), fails=[])
    kw = fr._kw
    br = kw.get("bounding_f_range")
    out["box"] = [int(fr.get_index(br[0])), int(fr.get_index(br[1]))]
    out["n_sub"] = int(kw.get("smearing_subsamples"))
    out["helper"] = hexm(h)
    out["fmin"] = float(fr.fmin).hex()
    # a second helper call on the SAME frame, somewhere else in the band: what it returns is what the helper returns for that signal on a
    # fresh frame (nothing of the first signal in it), and the first call's array is left alone
    if c["F"] >= 8:
        c2 = dict(c, f_start=float(fr.fmin + (c["F"] - 1 - round((c["f_start"] - fr.fmin) / fr.df)) * fr.df), drift=-c["drift"] / 2, ptype=("box" if c["ptype"] != "box" else "gaussian"),
                  width=max(c["width"] / 2, 0.25 * c["df"]))
        h_keep = h.copy()
        try:
            with np.errstate(all="ignore"):
                second = np.asarray(fr.add_constant_signal(f_start=c2["f_start"], drift_rate=c2["drift"], level=c2["level"], width=c2["width"], f_profile_type=c2["ptype"],
                                                           doppler_smearing=c2["smear"]), dtype=float)
            _, alone = helper(c2)
            if second.shape != alone.shape or not np.array_equal(second, alone):
                nbad = int(np.sum(second != alone)) if second.shape == alone.shape else -1
                out["fails"].append(["second-call-differs", "a second add_constant_signal on the same frame (%s at channel %.2f, drift %.3g ch/step) returns other values than on a fresh frame: %d pixels differ"
                                     % (c2["ptype"], (c2["f_start"] - fr.fmin) / fr.df, c2["drift"] * c["dt"] / c["df"], nbad)])
            if not np.array_equal(h, h_keep):
                out["fails"].append(["return-aliased", "the array returned by the first add_constant_signal was changed by the second call"])
        except Exception as ex:
            out["fails"].append(["second-call-raises", "a second add_constant_signal on the same frame raised %s: %s" % (type(ex).__name__, str(ex)[:120])])
    g = mk(c)
    unit = g.df / g.dt
    n_sub = max(1, int(np.ceil(abs(c["drift"]) / unit)))
    with np.errstate(all="ignore"):
        gen = np.asarray(g.add_signal(stg.constant_path(c["f_start"], c["drift"]), stg.constant_t_profile(c["level"]), profile(c["ptype"], c["width"]),
                                      stg.constant_bp_profile(level=1), doppler_smearing=c["smear"], smearing_subsamples=n_sub), dtype=float)
    out["general_nonzero"] = int(np.count_nonzero(gen)); out["helper_nonzero"] = int(np.count_nonzero(h))
    if not np.all(np.isfinite(h)):
        out["fails"].append(["not-finite", "helper returned non-finite values"])
    scale = max(1e-300, float(np.max(np.abs(gen))))
    if c["ptype"] in ("box", "sinc2"):
        bad = np.argwhere(~np.isclose(h, gen, rtol=0, atol=1e-12 * scale))
        if len(bad):
            i, j = [int(x) for x in bad[0]]
            out["fails"].append(["compact-differs", "%s, width %.4g ch, drift %.4g ch/step, smear=%s: helper %r vs general %r at pixel (%d,%d); %d pixels differ (helper box columns %s)"
                                 % (c["ptype"], c["width"] / c["df"], c["drift"] * c["dt"] / c["df"], c["smear"], float(h[i, j]), float(gen[i, j]), i, j, len(bad), out["box"])])
    else:
        # tailed: equal at least within the FWHM around the centre(s) of every row; elsewhere equal or zero
        cen = (c["f_start"] - fr.fmin) / fr.df + (c["drift"] * fr.dt / fr.df) * np.arange(c["T"] + 1)
        j = np.arange(c["F"])
        for i in range(c["T"]):
            a, b = (min(cen[i], cen[i + 1]), max(cen[i], cen[i + 1])) if c["smear"] else (cen[i], cen[i])
            core = (j >= a - 0.5 * c["width"] / fr.df) & (j <= b + 0.5 * c["width"] / fr.df)
            if core.any() and not np.allclose(h[i, core], gen[i, core], rtol=0, atol=1e-12 * scale):
                out["fails"].append(["fwhm-differs", "%s: helper differs from the general signal inside the FWHM of row %d" % (c["ptype"], i)]); break
            rest = ~core
            if not np.all(np.isclose(h[i, rest], gen[i, rest], rtol=0, atol=1e-12 * scale) | (h[i, rest] == 0)):
                out["fails"].append(["tail-wrong", "%s: outside the FWHM the helper is neither the general value nor zero (row %d)" % (c["ptype"], i)]); break
    if out["n_sub"] != n_sub and c["smear"]:
        out["fails"].append(["substeps", "smearing uses %d sub-steps, expected max(1, ceil(|drift|/unit)) = %d (drift %.4g ch/step)" % (out["n_sub"], n_sub, c["drift"] * c["dt"] / c["df"])])
    # zero drift: smeared == unsmeared
    if c["drift"] == 0:
        try:
            _, hs = helper(c, smear=True); _, hu = helper(c, smear=False)
            if not np.allclose(hs, hu, rtol=0, atol=1e-12 * max(1e-300, float(np.max(np.abs(hu))))):
                out["fails"].append(["zero-drift-smear", "a non-drifting smeared signal differs from the unsmeared one (smeared max %g, unsmeared max %g)" % (float(np.max(hs)), float(np.max(hu)))])
        except Exception as ex:
            out["fails"].append(["zero-drift-smear", "zero-drift smearing raised %r" % ex])
    # mirror: drift -d is the mirror image of +d about the start channel (start on a channel centre, everything inside the frame)
    if c.get("mirror_ok") and c["drift"] != 0:
        try:
            _, hp = helper(c, drift=abs(c["drift"])); _, hm = helper(c, drift=-abs(c["drift"]))
            si = int(round((c["f_start"] - fr.fmin) / fr.df))
            k = min(si, c["F"] - 1 - si)
            a = hp[:, si - k:si + k + 1]; b = hm[:, si - k:si + k + 1][:, ::-1]
            if not np.allclose(a, b, rtol=0, atol=1e-9 * max(1e-300, float(np.max(np.abs(a))))):
                out["fails"].append(["mirror", "drift -d is not the mirror image of +d (smear=%s, %s)" % (c["smear"], c["ptype"])])
        except Exception as ex:
            out["fails"].append(["mirror", "mirror check raised %r" % ex])
    return out


def main():
    payload = json.load(sys.stdin)
    json.dump([run_case(c) for c in payload["cases"]], open(sys.argv[1], "w"))


if __name__ == "__main__":
    main()
