"""C12 implementation side.  mode scenario: runs a list of recording steps in THIS process and returns
the digest of what the last step wrote (the harness compares processes with and without history).
mode frames: copy / pickle equality and isolation for frames from every construction route;
mode seeds: same seed -> identical, different seeds -> different."""
import sys, json, os, hashlib, pickle, copy
import numpy as np
import recutil as R


def digest_files(stem):
    h = hashlib.sha256()
    info = []
    for f in R.list_files(stem):
        b = open(f, "rb").read()
        h.update(os.path.basename(f).split(".", 1)[1].encode()); h.update(b)      # .NNNN.raw suffix + contents
        try:
            bl = R.parse_raw_bytes(b)
            info.append(dict(n=len(bl), pktidx=[x["hdr"].get("PKTIDX") for x in bl], ncards=len(bl[0]["cards"]),
                             nants=bl[0]["hdr"].get("NANTS"), keys=sorted(bl[0]["hdr"].keys())[:0]))
        except Exception as ex:
            info.append(dict(error=str(ex)))
    return h.hexdigest(), info


def scenario(sc):
    sources = {}
    backends = {}
    dicts = {}
    out = None
    with R.Scratch() as d:
        for k, st in enumerate(sc["steps"]):
            c = st["cfg"]
            sid = st.get("source", "s%d" % k)
            if sid not in sources:
                sources[sid] = R.build_source(c)
            bid = st.get("backend", "b%d" % k)
            if bid not in backends:
                if st.get("input") is not None:
                    # inject onto the files written by an earlier step of this scenario
                    import setigen.voltage as V
                    fb = V.PolyphaseFilterbank(num_taps=c["taps"], num_branches=c["nb"])
                    fb.estimate_channelized_stds(factor=50, seed=33)
                    backends[bid] = V.RawVoltageBackend.from_data(os.path.join(d, "r%d" % st["input"]), sources[sid],
                                                                  digitizer=V.RealQuantizer(target_fwhm=32, num_bits=8), filterbank=fb,
                                                                  start_chan=c.get("start_chan", 0), num_subblocks=c.get("num_subblocks", 32))
                else:
                    _, backends[bid] = R.build_backend(c, src=sources[sid])
            be = backends[bid]
            stem = os.path.join(d, "r%d" % k)
            dm = st.get("dict", "default")
            if dm == "default":
                hd = None
            elif dm == "own":
                hd = dict(st.get("cards", {}))
            else:
                if dm not in dicts:
                    dicts[dm] = dict(st.get("cards", {}))
                hd = dicts[dm]
            R.record(be, stem, dict(c, num_blocks=None) if st.get("input") is not None else c, header_dict=hd)
            dg, info = digest_files(stem)
            out = dict(digest=dg, info=info, dict_after=(None if hd is None else {k2: repr(v) for k2, v in hd.items()}))
    return out


def same_header(h, ref):
    """equal cards by value (a refresh may turn a float into numpy.float64: same value)"""
    h = dict(h)
    if set(h) != set(ref):
        return False
    for k in ref:
        try:
            if not bool(np.all(h[k] == ref[k])):
                return False
        except Exception:
            if repr(h[k]) != repr(ref[k]):
                return False
    return True


def frame_equal(a, b):
    bad = []
    if a.shape != b.shape or not np.array_equal(a.data, b.data):
        bad.append("data")
    for attr in ("fs", "ts"):
        if not np.array_equal(getattr(a, attr), getattr(b, attr)):
            bad.append(attr)
    for attr in ("df", "dt", "fch1", "ascending", "t_start", "source_name", "fmin", "fmax", "noise_mean", "noise_std", "tchans", "fchans"):
        if getattr(a, attr) != getattr(b, attr):
            bad.append(attr)
    if a.metadata != b.metadata:
        bad.append("metadata")
    if a.rng.bit_generator.state != b.rng.bit_generator.state:
        bad.append("rng")
    return bad


def frames(c):
    import setigen as stg
    from astropy import units as u
    fails = []
    rng = np.random.default_rng(c["seed"])
    with R.Scratch() as d:
        def synth():
            fr = stg.Frame(fchans=c["fchans"], tchans=c["tchans"], df=c["df"], dt=c["dt"], fch1=c["fch1"], ascending=c["ascending"], seed=c["seed"], t_start=1e9)
            fr.add_noise(x_mean=10, noise_type="chi2")
            fr.add_signal(stg.constant_path(f_start=fr.get_frequency(c["fchans"] // 2), drift_rate=0.0), stg.constant_t_profile(level=5.0),
                          stg.box_f_profile(width=3 * fr.df), stg.constant_bp_profile(level=1))
            fr.add_metadata({"tag": [1, 2, 3]})
            return fr
        routes = {}
        routes["synthetic"] = synth()
        base = synth()
        routes["from_data"] = stg.Frame.from_data(df=base.df, dt=base.dt, fch1=base.fch1, ascending=base.ascending, data=base.data, seed=5)
        for ext in ("fil", "h5"):
            fn = os.path.join(d, "f." + ext)
            fr0 = synth()
            try:
                (fr0.save_fil if ext == "fil" else fr0.save_h5)(fn)
                routes["loaded_" + ext] = stg.Frame(waterfall=fn, seed=7)
            except SystemExit as ex:
                fails.append(["file-roundtrip-exit", "saving/loading a synthetic frame as .%s made blimpy exit (%r) for %s" % (ext, ex, c)])
        routes["slice"] = synth().get_slice(1, c["fchans"] - 1)
        # further construction routes: start time given as an MJD, a blimpy Waterfall object, a pathlib path
        fm = stg.Frame(fchans=c["fchans"], tchans=c["tchans"], df=c["df"], dt=c["dt"], fch1=c["fch1"], ascending=c["ascending"], seed=c["seed"], mjd=59000.5)
        fm.add_noise(x_mean=10, noise_type="chi2")
        routes["mjd"] = fm
        if "loaded_fil" in routes:
            import pathlib
            from blimpy import Waterfall
            routes["waterfall_object"] = stg.Frame(waterfall=Waterfall(os.path.join(d, "f.fil")), seed=7)
            routes["pathlib"] = stg.Frame(waterfall=pathlib.Path(os.path.join(d, "f.fil")), seed=7)
            for nm in ("waterfall_object", "pathlib"):
                bad = frame_equal(routes["loaded_fil"], routes[nm])
                if bad:
                    fails.append(["route-differs", "a frame built from a %s differs from the one built from the file name in %s" % (nm.replace("_", " "), bad)])
        # save_npy / load_npy carry the data
        fa = synth(); fnp = os.path.join(d, "a.npy"); fa.save_npy(fnp)
        fb = stg.Frame(fchans=c["fchans"], tchans=c["tchans"], df=c["df"], dt=c["dt"], fch1=c["fch1"], ascending=c["ascending"], seed=1, t_start=1e9)
        fb.load_npy(fnp)
        if not np.array_equal(fa.data, fb.data):
            fails.append(["npy-roundtrip", "save_npy / load_npy does not carry the data over"])
        # a pickled cadence comes back with equal, separate frames in the same order
        cad = stg.Cadence([synth(), synth()], t_slew=10.0, t_overwrite=True)
        fcp = os.path.join(d, "c.pickle"); cad.save_pickle(fcp)
        cad2 = stg.Cadence.load_pickle(fcp)
        if len(cad2) != len(cad) or any(frame_equal(a, b) for a, b in zip(cad, cad2)) or any(a is b for a, b in zip(cad, cad2)):
            fails.append(["cadence-pickle", "Cadence.save_pickle / load_pickle: frames differ (%s)" % [frame_equal(a, b) for a, b in zip(cad, cad2)]])
        else:
            cad2[0].data[0, 0] += 1.0
            if cad[0].data[0, 0] == cad2[0].data[0, 0]:
                fails.append(["copy-not-isolated", "a frame of an unpickled cadence shares its data with the original"])
        for name, fr in routes.items():
            for how in ("copy", "pickle", "pickle_file"):
                wf0 = fr.waterfall
                hdr0 = None if wf0 is None else dict(wf0.header)
                try:
                    before = pickle.loads(pickle.dumps(fr)) if True else None
                    # being pickled must leave the original as it was: in particular the Waterfall it was loaded with stays attached
                    if wf0 is not None and (fr.waterfall is not wf0 or not same_header(fr.waterfall.header, hdr0)):
                        fails.append(["copy-changes-original", "pickling a %s frame %s" % (name, "detached its Waterfall" if fr.waterfall is None else "changed its Waterfall / header")])
                        fr.waterfall = wf0
                    if how == "pickle_file":
                        fpk = os.path.join(d, "fr.pickle")
                        fr.save_pickle(fpk)
                        cp = stg.Frame.load_pickle(fpk)
                    else:
                        cp = fr.copy() if how == "copy" else pickle.loads(pickle.dumps(fr))
                    if wf0 is not None and (fr.waterfall is not wf0 or not same_header(fr.waterfall.header, hdr0)):
                        fails.append(["copy-changes-original", "%s of a %s frame %s" % (how, name, "detached the original's Waterfall" if fr.waterfall is None else "changed the original's Waterfall / header")])
                        fr.waterfall = wf0
                    if how == "copy" and wf0 is not None:
                        if cp.waterfall is None or cp.waterfall is wf0 or not same_header(cp.waterfall.header, hdr0):
                            fails.append(["copy-not-equal", "copy() of a %s frame does not carry an equal, separate Waterfall" % name])
                except Exception as ex:
                    fails.append(["copy-raises", "%s of a %s frame raised %r" % (how, name, ex)]); continue
                bad = frame_equal(fr, cp)
                if bad:
                    fails.append(["copy-not-equal", "%s of a %s frame differs in %s" % (how, name, bad)])
                # the original must not have been changed by being copied
                bad0 = frame_equal(fr, before)
                if bad0:
                    fails.append(["copy-changes-original", "%s of a %s frame changed the original's %s" % (how, name, bad0)])
                # isolation both ways
                snap = pickle.loads(pickle.dumps(fr))
                cp.data[0, 0] += 1000.0
                cp.add_noise(x_mean=3, noise_type="chi2")
                cp.metadata.setdefault("tag", []).append(99); cp.add_metadata({"new": 1})
                cp.ts[0] += 5.0; cp.fs[0] += 5.0
                bad = frame_equal(fr, snap)
                if bad:
                    fails.append(["copy-not-isolated", "mutating the %s of a %s frame changed the original's %s" % (how, name, bad)])
                cp2 = fr.copy() if how == "copy" else pickle.loads(pickle.dumps(fr))      # (the file variant goes through the same __getstate__)
                snap2 = pickle.loads(pickle.dumps(cp2))
                fr.data[0, 0] += 1000.0; fr.add_noise(x_mean=3, noise_type="chi2"); fr.metadata.setdefault("tag", []).append(7)
                bad = frame_equal(cp2, snap2)
                if bad:
                    fails.append(["copy-not-isolated", "mutating a %s frame changed its %s's %s" % (name, how, bad)])
    return dict(fails=fails)


def seeds(c):
    import setigen as stg
    import setigen.voltage as V
    fails = []

    def frame(seed):
        fr = stg.Frame(fchans=32, tchans=8, df=2.0, dt=1.0, fch1=1e9, seed=seed, t_start=0.0)
        n = fr.add_noise(x_mean=10, noise_type="chi2")
        p = stg.simple_rfi_path(f_start=fr.get_frequency(10), drift_rate=0.0, spread=3.0, spread_type="uniform", rfi_type="stationary", seed=seed)(fr.ts)
        t = stg.periodic_gaussian_t_profile(pulse_width=2.0, period=3.0, phase=0, pulse_offset_width=1.0, pulse_direction="rand", pnum=3, amplitude=1, level=1, min_level=0, seed=seed)(fr.ts)
        return np.concatenate([n.ravel(), np.ravel(p), np.ravel(t)])
    a, b, c2 = frame(c["s1"]), frame(c["s1"]), frame(c["s2"])
    if not np.array_equal(a, b):
        fails.append(["same-seed-differs", "two frames built with seed %d draw different noise / RFI path / pulse profile" % c["s1"]])
    if np.array_equal(a, c2):
        fails.append(["different-seeds-equal", "frames with seeds %d and %d draw identical noise" % (c["s1"], c["s2"])])

    def ant(seed):
        an = V.Antenna(sample_rate=1024.0, num_pols=2, seed=seed)
        for s in an.streams:
            s.add_noise(0, 1)
        v = an.get_samples(64)
        return np.asarray(v[0])
    x, y, z = ant(c["s1"]), ant(c["s1"]), ant(c["s2"])
    if not np.array_equal(x, y):
        fails.append(["same-seed-differs", "two antennas with seed %d deliver different voltages" % c["s1"]])
    if np.array_equal(x, z):
        fails.append(["different-seeds-equal", "antennas with seeds %d and %d deliver identical voltages" % (c["s1"], c["s2"])])
    if np.array_equal(x[0], x[1]):
        fails.append(["pols-equal", "x and y polarisations of one antenna draw identical noise"])
    arr = V.MultiAntennaArray(num_antennas=2, sample_rate=1024.0, num_pols=1, delays=[0, 0], seed=c["s1"])
    for an in arr.antennas:
        an.x.add_noise(0, 1)
    vv = arr.get_samples(32)
    if np.array_equal(np.asarray(vv[0][0]), np.asarray(vv[1][0])):
        fails.append(["antennas-equal", "two antennas of one array draw identical noise"])
    # the array's shared background: one stream per polarisation, each with a seed of its own
    arr2 = V.MultiAntennaArray(num_antennas=2, sample_rate=1024.0, num_pols=2, delays=[0, 3], seed=c["s1"])
    for b in arr2.bg_streams:
        b.add_noise(0, 1)
    w = np.asarray(arr2.get_samples(48))
    if np.array_equal(w[0][0], w[0][1]) or np.array_equal(w[1][0], w[1][1]):
        fails.append(["pols-equal", "the x and y background streams of an array draw identical noise (antenna voltages with background noise only are equal in both polarisations)"])
    arr3 = V.MultiAntennaArray(num_antennas=2, sample_rate=1024.0, num_pols=2, delays=[0, 3], seed=c["s1"])
    for b in arr3.bg_streams:
        b.add_noise(0, 1)
    if not np.array_equal(w, np.asarray(arr3.get_samples(48))):
        fails.append(["same-seed-differs", "two arrays with seed %d deliver different voltages" % c["s1"]])
    fb = V.PolyphaseFilterbank(num_taps=2, num_branches=8)
    e1 = np.array(fb.estimate_channelized_stds(factor=50, seed=c["s1"])); e2 = np.array(fb.estimate_channelized_stds(factor=50, seed=c["s1"]))
    if not np.array_equal(e1, e2):
        fails.append(["same-seed-differs", "estimate_channelized_stds is not reproducible from its seed"])
    return dict(fails=fails)


def fhist(c):
    """frame workflows in THIS process: every frame of the history, then the target; returns the target's digest.  The
    props side runs the same target with and without the history in separate interpreters."""
    import hashlib
    import setigen as stg

    def build(f):
        fr = stg.Frame(fchans=f["F"], tchans=f["T"], df=f["df"], dt=f["dt"], fch1=6e9, seed=f["seed"], t_start=f.get("t_start", 0.0))
        for op in f["ops"]:
            if op == "obs_chi2":
                fr.add_noise_from_obs(noise_type="chi2")
            elif op == "obs_gauss":
                fr.add_noise_from_obs(noise_type="gaussian", share_index=True)
            elif op == "obs_gauss_indep":
                fr.add_noise_from_obs(noise_type="gaussian", share_index=False)
            elif op == "obs_tables":
                fr.add_noise_from_obs(np.array([3.0, 4.0, 5.5]), np.array([1.0, 0.5, 2.0]), np.array([0.0, 1.0, 2.0]), noise_type="gaussian", share_index=True)
            elif op == "noise_chi2":
                fr.add_noise(x_mean=10, noise_type="chi2")
            elif op == "noise_gauss":
                fr.add_noise(x_mean=5, x_std=2, x_min=1, noise_type="gaussian")
            elif op == "signal_rfi":
                fr.add_signal(stg.simple_rfi_path(f_start=fr.get_frequency(fr.fchans // 2), drift_rate=0.0, spread=3 * fr.df, spread_type="normal", rfi_type="random_walk", seed=f["seed"] + 1),
                              stg.constant_t_profile(level=7.0), stg.box_f_profile(width=2 * fr.df), stg.constant_bp_profile(level=1))
            elif op == "signal_snr":
                fr.add_constant_signal(f_start=fr.get_frequency(fr.fchans // 3), drift_rate=0.0, level=(fr.get_intensity(snr=20) if fr.noise_std else 10.0), width=2 * fr.df, f_profile_type="gaussian")   # SNR levels need noise (documented ValueError otherwise)
            elif op == "zero":
                fr.zero_data()
        return fr
    for f in c["history"]:
        build(f)
    t1 = build(c["target"])
    t2 = build(c["target"])
    # the frame, not only its pixels: start time, axes and geometry belong to "bit-identical frames"
    def dig(fr):
        meta = [float(x).hex() for x in fr.get_noise_stats()] + [float(fr.t_start).hex(), float(fr.fch1).hex(), float(fr.df).hex(), float(fr.dt).hex(), bool(fr.ascending), str(fr.source_name)]
        return hashlib.sha256(np.ascontiguousarray(fr.data).tobytes() + np.ascontiguousarray(fr.ts).tobytes() + np.ascontiguousarray(fr.fs).tobytes() + repr(meta).encode()).hexdigest()
    return dict(digest=dig(t1), again=dig(t2), stats=[float(x) for x in t1.get_noise_stats()], t_start=float(t1.t_start), t_start_again=float(t2.t_start))


def main():
    payload = json.load(sys.stdin)
    f = dict(scenario=scenario, frames=frames, seeds=seeds, fhist=fhist)[payload["mode"]]
    json.dump([f(c) for c in payload["cases"]], open(sys.argv[1], "w"))


if __name__ == "__main__":
    main()
