"""C07 implementation side.
mode header: one-block recording; returns the header's frequency cards and get_raw_params.
mode tone  : records a tone / chirp, reduces the first block (a) with the library's quick-look reducer
             and (b) with an independent fine channeliser on independently decoded data, locates the
             peak(s) and converts to sky frequency using only the file's own header."""
import sys, json, os
import numpy as np
import recutil as R


def header_case(c):
    from setigen.voltage import raw_utils as RU
    src, be = R.build_backend(c)
    with R.Scratch() as d:
        stem = os.path.join(d, "h")
        R.record(be, stem, dict(c, num_blocks=1), header_dict={})
        f0 = R.list_files(stem)[0]
        bl = R.parse_raw_bytes(open(f0, "rb").read())
        h = bl[0]["hdr"]
        rp = RU.get_raw_params(stem, start_chan=c["start_chan"])
    return dict(CHAN_BW=float(h["CHAN_BW"]).hex(), OBSBW=float(h["OBSBW"]).hex(), OBSFREQ=float(h["OBSFREQ"]).hex(), TBIN=float(h["TBIN"]).hex(),
                OBSNCHAN=int(h["OBSNCHAN"]), rp_fch1=float(rp["fch1"]).hex(), rp_chan_bw=float(rp["chan_bw"]).hex(), rp_asc=bool(rp["ascending"]),
                rp_nchans=int(rp["num_chans"]), rp_tbin=float(rp["tbin"]).hex())


def hdr_freq(h, nchans_total, L, g):
    """sky frequency (Hz) of global fine index g from the header alone"""
    obsfreq = float(h["OBSFREQ"]); obsbw = float(h["OBSBW"]); cbw = float(h["CHAN_BW"])
    c = g // L; m = g % L
    centre = obsfreq - obsbw / 2 + (c + 0.5) * cbw
    return (centre + (m - L // 2) * cbw / L) * 1e6          # after fftshift the zero-offset bin sits at L//2, for even and odd L


def tone_case(c):
    from setigen.voltage import waterfall as WF
    res = dict(fails=[])
    src, be = R.build_backend(c)
    L = c["fftlength"]; I = c["int_factor"]
    with R.Scratch() as d:
        stem = os.path.join(d, "t")
        if c.get("second"):
            # an earlier recording from the same source and backend: the one examined is the second
            R.record(be, os.path.join(d, "first"), c, header_dict={})
            bps = 2 * c["num_pols"] * c["nbits"] // 8
            res["t_offset"] = c.get("num_blocks", 1) * (c["block_size"] // (c["nants"] * c["nchans"] * bps)) * c["nb"] / c["sample_rate"]
        R.record(be, stem, c, header_dict={} if not c.get("directio") else {"DIRECTIO": 1})
        f0 = R.list_files(stem)[0]
        buf = open(f0, "rb").read()
        bl = R.parse_raw_bytes(buf)
        h = bl[0]["hdr"]
        nct = c["nchans"] * c["nants"]
        dec = R.decode_block(bl[0]["data"], nct, c["num_pols"], c["nbits"])      # (chan, T, pol)
        T = dec.shape[1]
        # (b) independent fine channeliser: per channel FFT of length L, fftshift, power summed over pols, integrate I
        rows = T // L
        x = dec[:, :rows * L, :].reshape((nct, rows, L, c["num_pols"]))
        X = np.fft.fftshift(np.fft.fft(x, axis=2), axes=2)
        psd = (np.abs(X) ** 2).sum(axis=3)                 # (chan, rows, L)
        wf = np.concatenate([psd[ch] for ch in range(nct)], axis=1)    # (rows, chan*L)
        wf = wf[:(rows // I) * I].reshape((rows // I, I, -1)).sum(axis=1)
        res["indep_shape"] = list(wf.shape)
        res["spb"] = int(T)
        peaks = [int(np.argmax(wf[r, :c["nchans"] * L])) for r in range(wf.shape[0])]     # antenna 0 only
        res["indep_peaks_hz"] = [hdr_freq(h, nct, L, g) for g in peaks]
        res["indep_peak_idx"] = peaks
        res["fine_hz"] = abs(float(h["CHAN_BW"])) * 1e6 / L
        res["tbin"] = float(h["TBIN"])
        # (a) the library's quick-look reducer (8-bit, 2 pols, single antenna layouts only)
        if c["nbits"] == 8 and c["num_pols"] == 2 and c["nants"] == 1:
            try:
                lw = WF.get_waterfall_from_raw(f0, c["block_size"], c["nchans"], int_factor=I, fftlength=L)
                lw = np.asarray(lw)
                res["lib_shape"] = list(lw.shape)
                if lw.ndim == 2 and lw.shape[1] == c["nchans"] * L and lw.shape[0] >= 1:
                    lp = [int(np.argmax(lw[r])) for r in range(lw.shape[0])]
                    res["lib_peaks_hz"] = [hdr_freq(h, nct, L, g) for g in lp]
                    res["lib_peak_idx"] = lp
                    # the two reductions of the same bytes must agree column for column (up to the overall scale)
                    a = lw / max(float(np.max(lw)), 1e-300); b = wf[:lw.shape[0]] / max(float(np.max(wf[:lw.shape[0]])), 1e-300)
                    res["lib_vs_indep_maxdiff"] = float(np.max(np.abs(a - b))) if a.shape == b.shape else None
            except Exception as ex:
                res["lib_error"] = repr(ex)
    return res


def main():
    payload = json.load(sys.stdin)
    f = header_case if payload["mode"] == "header" else tone_case
    json.dump([f(c) for c in payload["cases"]], open(sys.argv[1], "w"))


if __name__ == "__main__":
    main()
