"""C15 implementation side: MultiAntennaArray with integer-tag custom sources (exact in doubles at a
dyadic sample rate); returns every request's samples per antenna / polarisation as integers."""
import sys, json
import numpy as np
import setigen.voltage as V

SR = 1024.0


def run_case(c):
    kw = dict(num_antennas=c["nants"], sample_rate=SR, fch1=0.0, ascending=True, num_pols=c["num_pols"],
              t_start=c["t0"] / SR, seed=c.get("seed", 1))
    try:
        if c["delays"] is None:
            arr = V.MultiAntennaArray(**kw)
        else:
            arr = V.MultiAntennaArray(delays=list(c["delays"]), **kw)
    except Exception as ex:
        return dict(error="constructor: " + repr(ex))
    for i, a in enumerate(arr.antennas):
        for p, s in enumerate(a.streams):
            base = c["own_base"][i][p]
            s.add_signal(lambda ts, base=base: base + np.round(ts * SR))
    for p, b in enumerate(arr.bg_streams):
        base = c["bg_base"][p]
        b.add_signal(lambda ts, base=base: base + np.round(ts * SR))
    out = []
    try:
        for op in c["ops"]:
            if op[0] == "get":
                v = arr.get_samples(op[1])
                out.append([[[int(x) for x in np.asarray(v[i][p]).real] for p in range(c["num_pols"])] for i in range(c["nants"])])
            elif op[0] == "set_time":
                arr.set_time(op[1] / SR)
            elif op[0] == "reset_start":
                arr.reset_start()
            elif op[0] == "add_time":
                arr.add_time(op[1] / SR)
    except Exception as ex:
        return dict(error="ops: " + repr(ex), out=out)
    return dict(out=out, clock=float(arr.t_start * SR))


def main():
    payload = json.load(sys.stdin)
    json.dump([run_case(c) for c in payload["cases"]], open(sys.argv[1], "w"))


if __name__ == "__main__":
    main()
