"""Shared machinery for the setigen proof checks (see DESIGN.md section 2).

Everything a property check needs: building the Coq development, re-checking the
property theorems and reading their Print Assumptions output, auditing the
sources for forbidden constructs, evaluating the executable Gallina model on
generated cases (coqc + vm_compute), running the implementation in a fresh
subprocess against the tree under test, and the verdict / evidence / replay
bookkeeping.
"""
import fcntl
import hashlib
import json
import os
import random
import re
import shutil
import subprocess
import sys
import tempfile
import time

ROOT = os.path.dirname(os.path.dirname(os.path.abspath(__file__)))
COQ = os.path.join(ROOT, "coq")
REPO = os.environ.get("VERIF_REPO", "/repo")
PY = os.environ.get("VERIF_PY", "/venv/bin/python")
GUARD = "SETIGEN_VERIF"
NCPU = min(16, os.cpu_count() or 4)

FORBIDDEN = re.compile(
    r"\b(Admitted|admit|Axiom|Axioms|Parameter|Parameters|Conjecture|Conjectures|"
    r"Admit\s+Obligations|bypass_check|native_compute)\b|Unset\s+Guard|Unset\s+Positivity|"
    r"Unset\s+Universe\s+Checking|type-in-type|impredicative-set")

# Print Assumptions lines we accept: kernel primitives for binary64 / 63-bit ints
# (not declared by this development) -- everything else must be "Closed".
ALLOWED_ASSUMPTION = re.compile(
    r"^(PrimFloat\.|Uint63\.|PrimInt63\.|Coq\.Floats\.PrimFloat\.|Coq\.Numbers\.Cyclic\.Int63\.)")
# Coq 8.16 prints the kernel's primitive float / int operations unqualified, as `name : type`
PRIM_NAMES = {"float", "int", "add", "sub", "mul", "div", "opp", "abs", "sqrt", "eqb", "ltb", "leb", "compare", "classify", "of_uint63",
              "normfr_mantissa", "frshiftexp", "ldshiftexp", "next_up", "next_down", "lsl", "lsr", "land", "lor", "lxor", "mod",
              "addc", "subc", "addcarryc", "subcarryc", "mulc", "diveucl", "diveucl_21", "addmuldiv", "head0", "tail0", "float_class", "float_comparison"}
PRIM_TYPE = re.compile(r"^[\s\(\)\*\->]*(((PrimInt63\.|Uint63\.|PrimFloat\.)?(float|int|bool|Set|float_class|float_comparison|comparison|carry|unit))[\s\(\)\*\->]*)+$")


def allowed_assumption(entry):
    """entry = 'name : type' as printed by Print Assumptions"""
    name, _, typ = entry.partition(":")
    name = name.strip(); typ = typ.strip()
    if ALLOWED_ASSUMPTION.match(name):
        return True
    return name in PRIM_NAMES and bool(PRIM_TYPE.match(typ.replace("->", " -> ")))


def sh(cmd, timeout=600, cwd=None, env=None, inp=None):
    e = dict(os.environ)
    if env:
        e.update(env)
    try:
        p = subprocess.run(cmd, shell=isinstance(cmd, str), cwd=cwd, env=e, input=inp,
                           stdout=subprocess.PIPE, stderr=subprocess.PIPE,
                           timeout=timeout, text=True)
        return p.returncode, p.stdout, p.stderr
    except subprocess.TimeoutExpired as ex:
        return 124, (ex.stdout or "") if isinstance(ex.stdout, str) else "", "TIMEOUT after %ss" % timeout


# ----------------------------------------------------------------------------
# Coq build
# ----------------------------------------------------------------------------

def coq_sources():
    out = []
    for d in ("Base", "Model", "Kernels", "Proofs", "Props"):
        p = os.path.join(COQ, d)
        if os.path.isdir(p):
            for f in sorted(os.listdir(p)):
                if f.endswith(".v"):
                    out.append("%s/%s" % (d, f))
    return out


def build_coq(timeout=1500, only=None):
    """Full .vo build under a lock (checks may run in parallel).  Returns (ok, log)."""
    os.makedirs(os.path.join(ROOT, "build"), exist_ok=True)
    lock = open(os.path.join(ROOT, "build", ".lock"), "w")
    fcntl.flock(lock, fcntl.LOCK_EX)
    try:
        # regenerate the scalar kernels from the tree under test (tools/py2v.py, fail-closed); the files only change when the source did
        rc0, o0, e0 = sh("python3 %s --repo %s" % (os.path.join(ROOT, "tools", "py2v.py"), REPO), cwd=ROOT, timeout=120)
        tlog = (o0 + e0).strip()
        srcs = coq_sources()
        proj = "-Q . SV\n" + "\n".join(srcs) + "\n"
        pf = os.path.join(COQ, "_CoqProject")
        if not os.path.exists(pf) or open(pf).read() != proj:
            open(pf, "w").write(proj)
        rc, o, e = sh("coq_makefile -f _CoqProject -o Makefile", cwd=COQ, timeout=60)
        if rc != 0:
            return False, o + e
        target = ""
        if only:
            target = " ".join(x[:-2] + ".vo" for x in only)
        # -k: a file that no longer compiles (e.g. a kernel equivalence after a source edit) must not keep unrelated properties from being re-checked
        rc, o, e = sh("timeout %d make -k -j%d %s 2>&1" % (timeout, NCPU, target), cwd=COQ,
                      timeout=timeout + 30)
        return rc == 0 and rc0 == 0, (tlog + "\n" if tlog else "") + o + e
    finally:
        fcntl.flock(lock, fcntl.LOCK_UN)
        lock.close()


def audit():
    """grep for forbidden constructs in every .v source (comments stripped)."""
    bad = []
    for rel in coq_sources():
        txt = open(os.path.join(COQ, rel)).read()
        txt = strip_coq_comments(txt)
        for n, line in enumerate(txt.split("\n"), 1):
            if FORBIDDEN.search(line):
                bad.append("%s:%d: %s" % (rel, n, line.strip()))
            if re.search(r"^\s*(Variable|Variables|Hypothesis|Hypotheses|Context)\b", line):
                pass  # checked below (must be inside a Section)
        bad += _vars_outside_sections(rel, txt)
    return bad


def strip_coq_comments(txt):
    out = []
    depth = 0
    i = 0
    while i < len(txt):
        if txt.startswith("(*", i):
            depth += 1
            i += 2
        elif txt.startswith("*)", i) and depth > 0:
            depth -= 1
            i += 2
        else:
            if depth == 0:
                out.append(txt[i])
            elif txt[i] == "\n":
                out.append("\n")
            i += 1
    return "".join(out)


def _vars_outside_sections(rel, txt):
    bad = []
    depth = 0
    for n, line in enumerate(txt.split("\n"), 1):
        s = line.strip()
        if re.match(r"^Section\s+\w+\s*\.", s):
            depth += 1
        elif re.match(r"^End\s+\w+\s*\.", s) and depth > 0:
            depth -= 1  # (Module End also lands here; modules are not used)
        elif re.match(r"^(Variable|Variables|Hypothesis|Hypotheses|Context)\b", s) and depth == 0:
            bad.append("%s:%d: %s (outside a Section)" % (rel, n, s))
    return bad


def check_props(pid, timeout=600):
    """Re-check Props/<pid>.v with coqc and read its Print Assumptions output.

    Returns dict(ok, obligations, discharged, theorems, assumptions, log)."""
    rel = "Props/%s.v" % pid
    path = os.path.join(COQ, rel)
    res = dict(ok=False, obligations=0, discharged=0, theorems=[], assumptions={}, log="",
               checker_cmd="cd coq && coq_makefile -f _CoqProject -o Makefile && make -j%d && coqc -Q . SV %s" % (NCPU, rel))
    if not os.path.exists(path):
        res["log"] = "missing " + rel
        return res
    src = strip_coq_comments(open(path).read())
    thms = re.findall(r"^\s*(?:Theorem|Lemma|Corollary)\s+(\w+)", src, re.M)
    printed = re.findall(r"Print\s+Assumptions\s+(\w+)\s*\.", src)
    res["theorems"] = thms
    res["obligations"] = len(thms)
    # property files may only close theorems with `exact`
    rc, o, e = sh("timeout %d coqc -Q . SV %s" % (timeout, rel), cwd=COQ, timeout=timeout + 30)
    res["log"] = (o + e)[-4000:]
    if rc != 0:
        return res
    blocks = _assumption_blocks(o)
    if len(blocks) != len(printed):
        res["log"] += "\nPrint Assumptions blocks: %d, expected %d" % (len(blocks), len(printed))
        return res
    good = 0
    for name, blk in zip(printed, blocks):
        res["assumptions"][name] = blk
        if all(allowed_assumption(a) for a in blk):
            if name in thms:
                good += 1
    missing = [t for t in thms if t not in printed]
    if missing:
        res["log"] += "\nno Print Assumptions for: %s" % missing
    res["discharged"] = good
    res["ok"] = (good == len(thms) and len(thms) > 0)
    return res


def _assumption_blocks(out):
    blocks = []
    cur = None
    for line in out.split("\n"):
        if line.startswith("Closed under the global context"):
            if cur is not None:
                blocks.append(cur)
                cur = None
            blocks.append([])
        elif line.startswith("Axioms:"):
            if cur is not None:
                blocks.append(cur)
            cur = []
        elif cur is not None:
            m = re.match(r"^(\S+)\s*:\s*(.*)$", line)
            if m:
                cur.append("%s : %s" % (m.group(1), m.group(2).strip()))
            elif line.startswith(" ") or line.strip() == "":
                continue
            else:
                blocks.append(cur)
                cur = None
    if cur is not None:
        blocks.append(cur)
    return blocks


# ----------------------------------------------------------------------------
# Evaluating the model: generated cases_*.v + vm_compute
# ----------------------------------------------------------------------------

class CoqParseError(Exception):
    pass


_TOK = re.compile(r"\s*(\[|\]|\(|\)|;|,|-?\d+|[A-Za-z_][A-Za-z_0-9.']*|\"(?:[^\"]|\"\")*\"|%[A-Za-z_]+|-)")


def parse_coq_value(s):
    """Parse a printed Coq value made of lists, tuples, integers, strings and
    constructor applications into Python lists / tuples / ints / str / (ctor, args...)."""
    toks = []
    pos = 0
    s = s.strip()
    while pos < len(s):
        m = _TOK.match(s, pos)
        if not m:
            raise CoqParseError("bad token at %r" % s[pos:pos + 40])
        t = m.group(1)
        pos = m.end()
        if t.startswith("%"):
            continue
        toks.append(t)
    idx = [0]

    def peek():
        return toks[idx[0]] if idx[0] < len(toks) else None

    def nxt():
        t = peek()
        idx[0] += 1
        return t

    def atom():
        t = nxt()
        if t == "[":
            items = []
            if peek() == "]":
                nxt()
                return items
            while True:
                items.append(expr())
                t2 = nxt()
                if t2 == "]":
                    return items
                if t2 != ";":
                    raise CoqParseError("expected ; or ] got %r" % t2)
        if t == "(":
            items = [expr()]
            while peek() == ",":
                nxt()
                items.append(expr())
            if nxt() != ")":
                raise CoqParseError("expected )")
            return items[0] if len(items) == 1 else tuple(items)
        if t == "-":
            v = atom()
            return -v
        if t is None:
            raise CoqParseError("unexpected end")
        if re.match(r"-?\d+$", t):
            return int(t)
        if t.startswith('"'):
            return t[1:-1].replace('""', '"')
        return ("@", t)

    def expr():
        a = atom()
        if isinstance(a, tuple) and len(a) == 2 and a[0] == "@":
            name = a[1]
            args = []
            while peek() not in (None, "]", ")", ";", ","):
                b = atom()
                if isinstance(b, tuple) and len(b) == 2 and b[0] == "@":
                    b = _ctor(b[1], [])
                args.append(b)
            return _ctor(name, args)
        return a

    def _ctor(name, args):
        if name == "true" and not args:
            return True
        if name == "false" and not args:
            return False
        if name == "tt" and not args:
            return None
        if name == "None" and not args:
            return ("None",)
        return (name,) + tuple(args)

    v = expr()
    if idx[0] != len(toks):
        raise CoqParseError("trailing tokens %r" % toks[idx[0]:idx[0] + 5])
    return v


def _split_eval_outputs(out):
    """coqc prints `     = value\n     : type` per Eval; return the value strings."""
    vals = []
    cur = None
    for line in out.split("\n"):
        if line.startswith("     = "):
            if cur is not None:
                vals.append(cur)
            cur = line[7:]
        elif line.startswith("     : ") and cur is not None:
            vals.append(cur)
            cur = None
        elif cur is not None:
            cur += " " + line.strip()
    if cur is not None:
        vals.append(cur)
    return vals


def coq_eval(imports, exprs, shard=250, jobs=NCPU, timeout=1800, scratch=None):
    """Evaluate each Gallina expression with vm_compute inside coqc.

    imports: text placed at the top of each generated file (Require Import ...).
    exprs: list of Gallina expression strings.  Returns list of parsed values
    (same order).  Raises RuntimeError when coqc fails (reported by callers as a
    broken model, not as a property violation)."""
    if not exprs:
        return []
    tmp = scratch or tempfile.mkdtemp(prefix="svcases_")
    try:
        files = []
        for k in range(0, len(exprs), shard):
            name = "cases_%04d" % (k // shard)
            body = [imports, "Set Printing Width 1000000.", "Set Printing Depth 10000000.",
                    "Unset Printing Notations." if False else ""]
            for e in exprs[k:k + shard]:
                body.append("Eval vm_compute in (%s)." % e)
            open(os.path.join(tmp, name + ".v"), "w").write("\n".join(body) + "\n")
            files.append(name)
        procs = []
        results = {}
        pending = list(files)
        running = []
        late = []
        while pending or running:
            while pending and len(running) < jobs:
                f = pending.pop(0)
                p = subprocess.Popen(
                    "ulimit -s unlimited 2>/dev/null; timeout %d coqc -Q %s SV %s.v" % (timeout, COQ, f),
                    shell=True, cwd=tmp, stdout=subprocess.PIPE, stderr=subprocess.PIPE, text=True)
                running.append((f, p))
            f, p = running.pop(0)
            o, e = p.communicate()
            if p.returncode == 124:
                # killed by the time limit (a loaded machine): once everything else is done, give this shard one more, longer, run on its own
                late.append(f)
                continue
            if p.returncode != 0:
                for _, q in running:
                    q.kill()
                raise RuntimeError("coqc failed on generated %s.v: %s" % (f, (o + e)[-2000:]))
            results[f] = _split_eval_outputs(o)
        for f in late:
            p = subprocess.run("ulimit -s unlimited 2>/dev/null; timeout %d coqc -Q %s SV %s.v" % (4 * timeout, COQ, f),
                               shell=True, cwd=tmp, stdout=subprocess.PIPE, stderr=subprocess.PIPE, text=True)
            if p.returncode != 0:
                raise RuntimeError("coqc failed on generated %s.v (second, longer run; rc=%d): %s" % (f, p.returncode, (p.stdout + p.stderr)[-2000:]))
            results[f] = _split_eval_outputs(p.stdout)
        vals = []
        for k, f in zip(range(0, len(exprs), shard), files):
            got = results[f]
            want = len(exprs[k:k + shard])
            if len(got) != want:
                raise RuntimeError("coqc printed %d values for %d cases in %s" % (len(got), want, f))
            vals.extend(parse_coq_value(v) for v in got)
        return vals
    finally:
        if scratch is None:
            shutil.rmtree(tmp, ignore_errors=True)


# Gallina literal helpers ------------------------------------------------------

def gz(n):
    n = int(n)
    return "(%d)%%Z" % n


def gnat(n):
    return "%d%%nat" % int(n)


def gbool(b):
    return "true" if b else "false"


def glist(items):
    return "[" + "; ".join(items) + "]"


def gq(fr):
    """Fraction -> Q literal"""
    from fractions import Fraction
    fr = Fraction(fr)
    return "(Qmake (%d)%%Z %d%%positive)" % (fr.numerator, fr.denominator)


# ----------------------------------------------------------------------------
# Running the implementation
# ----------------------------------------------------------------------------

def impl_env():
    e = dict(os.environ)
    e["PYTHONPATH"] = REPO
    e["PYTHONHASHSEED"] = "0"
    e[GUARD] = "1"
    e["OMP_NUM_THREADS"] = "1"
    e["OPENBLAS_NUM_THREADS"] = "1"
    e["MKL_NUM_THREADS"] = "1"
    e["PYTHONWARNINGS"] = "ignore"
    e.pop("PYTHONSTARTUP", None)
    return e


def run_impl(script, payload, timeout=1800, env_extra=None):
    """Run harness/impl/<script>.py in a fresh interpreter against REPO.
    payload (JSON-able) is passed on stdin, the JSON result read from a temp file."""
    path = os.path.join(ROOT, "harness", "impl", script + ".py")
    fd, outp = tempfile.mkstemp(prefix="svimpl_", suffix=".json")
    os.close(fd)
    try:
        env = impl_env()
        if env_extra:
            env.update(env_extra)
        elif isinstance(payload, dict) and isinstance(payload.get("_env"), dict):
            env.update(payload["_env"])          # per-payload environment (e.g. another PYTHONHASHSEED)
        cmd = [PY, path, outp]
        covdir = os.environ.get("VERIF_COVERAGE")
        if covdir:
            # opt-in audit (tools/coverage_audit.py): which lines / branches of the implementation do the checks reach at all
            cmd = [PY, "-m", "coverage", "run", "--parallel-mode", "--branch", "--data-file=" + os.path.join(covdir, ".coverage"),
                   "--source=" + os.path.join(REPO, "setigen"), path, outp]
        p = subprocess.run(cmd, input=json.dumps(payload), env=env,
                           stdout=subprocess.PIPE, stderr=subprocess.PIPE, text=True,
                           timeout=timeout, cwd=tempfile.gettempdir())
        if p.returncode != 0:
            raise RuntimeError("impl runner %s failed (rc=%d): %s" % (script, p.returncode, p.stderr[-3000:]))
        return json.load(open(outp))
    finally:
        try:
            os.remove(outp)
        except OSError:
            pass


class ImplCrash(Exception):
    """The implementation-side runner died on one identifiable case (found by re-running the cases of the failing payload one by one)."""
    def __init__(self, script, case, log):
        Exception.__init__(self, "impl runner %s raised on a case" % script)
        self.script = script
        self.case = case
        self.log = log


def _locate_crash(script, payload, timeout, err):
    cases = payload.get("cases") if isinstance(payload, dict) else None
    if not isinstance(cases, list) or not cases:
        raise err
    for c in cases:
        try:
            run_impl(script, dict(payload, cases=[c]), timeout)
        except RuntimeError as ex:
            raise ImplCrash(script, c, str(ex)[-1500:])
    raise err          # not reproducible case by case (state carried across cases): report as a broken run


def run_impl_parallel(script, payloads, timeout=1800, jobs=NCPU):
    """Run several payloads (list) in parallel interpreters; returns list of results.
    When a runner dies, its cases are re-run one at a time to name the input it dies on (ImplCrash)."""
    from concurrent.futures import ThreadPoolExecutor

    def one(pl):
        try:
            return run_impl(script, pl, timeout)
        except RuntimeError as ex:
            return ex
    with ThreadPoolExecutor(max_workers=jobs) as ex:
        res = list(ex.map(one, payloads))
    for pl, r in zip(payloads, res):
        if isinstance(r, RuntimeError):
            _locate_crash(script, pl, timeout, r)
    return res


def chunks(lst, n):
    n = max(1, n)
    k = (len(lst) + n - 1) // n
    return [lst[i:i + k] for i in range(0, len(lst), k)] if lst else []


# ----------------------------------------------------------------------------
# Verdict, evidence, findings
# ----------------------------------------------------------------------------

def load_findings():
    p = os.path.join(ROOT, "known_findings.json")
    if not os.path.exists(p):
        return []
    return json.load(open(p)).get("findings", [])


class Ctx(object):
    def __init__(self, pid, tier, seed, replay=None):
        self.pid = pid
        self.tier = tier
        self.seed = seed
        self.rng = random.Random(seed * 1000003 + int(hashlib.sha1(pid.encode()).hexdigest()[:6], 16))
        self.t0 = time.time()
        self.replay = replay
        self.proof = None
        self.audit_bad = []
        self.build_ok = True
        self.build_log = ""
        self.evaluations = 0
        self.nontrivial = set()
        self.samples = []
        self.dist = {}
        self.impl_violations = []   # property fails on the implementation: (key, what, case)
        self.mismatches = []        # model != implementation: (what, case)
        self.model_errors = []      # proof / model infrastructure broke
        self.env_errors = []
        self.known_hit = {}
        self.assumptions = []
        self.trusted_base = []
        self.rule = ""
        self.extra = {}
        self.findings = [f for f in load_findings() if f.get("property") == pid]

    # ---- bookkeeping used by property modules
    def count(self, case_key, nontrivial=True):
        self.evaluations += 1
        if nontrivial:
            self.nontrivial.add(case_key if isinstance(case_key, str) else json.dumps(case_key, sort_keys=True, default=str))

    def tally(self, name, key=None, n=1):
        d = self.dist.setdefault(name, {})
        k = str(key)
        d[k] = d.get(k, 0) + n

    def sample(self, s, limit=4):
        if len(self.samples) < limit:
            self.samples.append(s)

    def impl_violation(self, key, what, case):
        """The property statement itself fails on the implementation for `case`.
        key: classification used to match known findings (None = unclassified)."""
        for f in self.findings:
            if f.get("status") == "open" and key is not None and f.get("key") == key:
                self.known_hit.setdefault(f["id"], [f, 0])[1] += 1
                return
        self.impl_violations.append((key, what, case))

    def mismatch(self, what, case):
        self.mismatches.append((what, case))

    def model_error(self, what):
        self.model_errors.append(what)

    # ---- finish
    def finish(self):
        wall = time.time() - self.t0
        lines = []
        rc = 0
        os.makedirs(os.path.join(ROOT, "replays"), exist_ok=True)
        os.makedirs(os.path.join(ROOT, "evidence"), exist_ok=True)
        for fid, (f, n) in sorted(self.known_hit.items()):
            lines.append("KNOWN-FINDING: property=%s %s [%s, %d failing case(s) this run]" % (self.pid, f.get("what", ""), fid, n))
        nviol = 0

        def write_replay(tag, payload):
            h = hashlib.sha1(json.dumps(payload, sort_keys=True, default=str).encode()).hexdigest()[:10]
            p = os.path.join(ROOT, "replays", "%s-%s-%s.json" % (self.pid, tag, h))
            json.dump(payload, open(p, "w"), indent=1, default=str)
            return os.path.relpath(p, ROOT)

        if self.env_errors:
            # environment trouble (numpy assumption broken, tool missing): not a violation, but the
            # check cannot vouch for the property either -> non-zero exit without a VIOLATION line.
            for e in self.env_errors:
                lines.append("ENVIRONMENT-ERROR: property=%s %s" % (self.pid, e))
            rc = 2
        if self.impl_violations:
            seen = set()
            for key, what, case in self.impl_violations:
                k = key or what
                if k in seen:
                    continue
                seen.add(k)
                rp = write_replay("impl", dict(property=self.pid, kind="implementation-violates-property",
                                               key=key, what=what, case=case, repo=REPO,
                                               replay_cmd="./vcheck %s --replay <this file>" % self.pid))
                lines.append("VIOLATION property=%s replay=%s" % (self.pid, rp))
                nviol += 1
            rc = 1
        else:
            broken = []
            if not self.build_ok and not (self.proof is not None and self.proof.get("ok")):
                # some file of the development no longer builds; it concerns this property only if its own theorems (Props/CXX.v
                # and everything they depend on, generated kernels included) could not be re-checked
                broken.append(dict(kind="coq-build-failed", log=self.build_log[-3000:]))
            if self.proof is not None and not self.proof.get("ok"):
                broken.append(dict(kind="property-theorems-not-checked", file="coq/Props/%s.v" % self.pid,
                                   theorems=self.proof.get("theorems"), assumptions=self.proof.get("assumptions"),
                                   log=self.proof.get("log", "")[-3000:]))
            if self.audit_bad:
                broken.append(dict(kind="audit-forbidden-construct", lines=self.audit_bad[:20]))
            for m in self.model_errors:
                broken.append(dict(kind="model-evaluation-failed", what=m))
            if self.mismatches:
                broken.append(dict(kind="correspondence-model-vs-implementation",
                                   count=len(self.mismatches),
                                   first=[dict(what=w, case=c) for w, c in self.mismatches[:5]]))
            if broken:
                rp = write_replay("tie", dict(property=self.pid, kind="proof-or-correspondence-broken",
                                              note="no input on which the implementation itself violates the property was found among the "
                                                   "%d cases explored in this run; the theorem / correspondence named here no longer checks" % self.evaluations,
                                              broken=broken, repo=REPO))
                lines.append("VIOLATION property=%s replay=%s no-failing-input-found" % (self.pid, rp))
                nviol += 1
                rc = 1
        cov = dict(
            obligations=(self.proof or {}).get("obligations", 0),
            discharged=(self.proof or {}).get("discharged", 0),
            checker_cmd=(self.proof or {}).get("checker_cmd", ""),
            trusted_base=self.trusted_base,
            theorems=(self.proof or {}).get("theorems", []),
            print_assumptions=(self.proof or {}).get("assumptions", {}),
            evaluations=self.evaluations,
            distinct_nontrivial=len(self.nontrivial),
            traces_validated_against_impl=self.evaluations,
            rule=self.rule,
            samples=self.samples or ["(no generated cases in this run)"],
            distributions=self.dist,
            model_vs_impl_mismatches=len(self.mismatches),
            mismatch_samples=[w for w, _ in self.mismatches[:4]],
            harness_errors=[m[-600:] for m in self.model_errors[:3]],
            impl_failure_keys=sorted(set(str(k) for k, _, _ in self.impl_violations)),
            impl_property_failures=len(self.impl_violations),
            known_findings_hit={k: v[1] for k, v in self.known_hit.items()},
        )
        cov.update({k: v for k, v in self.extra.items() if not k.startswith("_")})
        ev = dict(property_id=self.pid, tier=self.tier, seed=self.seed, level="proof",
                  coverage=cov, assumptions=self.assumptions, wall_s=round(wall, 2), violations=nviol)
        json.dump(ev, open(os.path.join(ROOT, "evidence", "%s.json" % self.pid), "w"), indent=1, default=str)
        for l in lines:
            print(l)
        print("%s %s tier=%s seed=%d: theorems %d/%d, cases %d (%d distinct non-trivial), mismatches %d, impl failures %d, %.1fs"
              % ("PASS" if rc == 0 else "FAIL", self.pid, self.tier, self.seed, cov["discharged"], cov["obligations"],
                 self.evaluations, len(self.nontrivial), len(self.mismatches), len(self.impl_violations), wall))
        return rc


BASE_TRUST = [
    "Coq 8.16.1 kernel (coqc); vm_compute for evaluation of the executable model; no native_compute",
    "no axioms declared by this development; Print Assumptions of every property theorem is recorded in coverage.print_assumptions",
    "hand-written Gallina model tied to the source by the correspondence run of this check (generators, canonicalisers and this Python harness are trusted)",
]
